(* Driver for the extracted C17 model. Line: `<value> <prim> <nullable 0|1>`
   value ::= N | Bt | Bf | I<int> | S<hex> | O ; prim ::= string | bool | i<bits> | u<bits> | float | other
   Output: `None` | `Some <lit>` | `Bare <lit>` then ` fits=<b>`; lit ::= S<hex> | Bt | Bf | I<int> | D *)
open C17_model
let unhex (s : string) : char list = List.init (String.length s / 2) (fun i -> Char.chr (int_of_string ("0x" ^ String.sub s (2 * i) 2)))
let hex (l : char list) : string = String.concat "" (List.map (fun c -> Printf.sprintf "%02x" (Char.code c)) l)
let rec pos_of_int (i : int) : positive =
  if i = 1 then XH else if i land 1 = 0 then XO (pos_of_int (i lsr 1)) else XI (pos_of_int (i lsr 1))
let z_of_int (i : int) : z = if i = 0 then Z0 else if i > 0 then Zpos (pos_of_int i) else Zneg (pos_of_int (-i))
let n_of_int (i : int) : n = if i = 0 then N0 else Npos (pos_of_int i)
let rec int_of_pos = function XH -> 1 | XO p -> 2 * int_of_pos p | XI p -> 2 * int_of_pos p + 1
let int_of_z = function Z0 -> 0 | Zpos p -> int_of_pos p | Zneg p -> - (int_of_pos p)
let value t = match t.[0] with
  | 'N' -> VNull | 'B' -> VBool (t = "Bt") | 'I' -> VInt (z_of_int (int_of_string (String.sub t 1 (String.length t - 1))))
  | 'S' -> VStr (unhex (String.sub t 1 (String.length t - 1))) | _ -> VOther
let prim t = match t with
  | "string" -> PString | "bool" -> PBool | "float" -> PFloat | "other" -> POther
  | _ -> PInt (n_of_int (int_of_string (String.sub t 1 (String.length t - 1))), t.[0] = 'i')
let show = function LStr s -> "S" ^ hex s | LBool b -> if b then "Bt" else "Bf" | LInt z -> "I" ^ string_of_int (int_of_z z) | LTypeDefault -> "D"
let () =
  try
    while true do
      let line = input_line stdin in
      match String.split_on_char ' ' line with
      | [v; p; n] ->
        let pr = prim p in
        (match json_to_rust_literal (value v) pr (n = "1") with
         | DNone -> print_endline "None fits=true"
         | DSome l -> Printf.printf "Some %s fits=%b\n" (show l) (lit_fits l pr)
         | DBare l -> Printf.printf "Bare %s fits=%b\n" (show l) (lit_fits l pr))
      | _ -> print_endline "BAD"
    done
  with End_of_file -> ()
