(* Driver for the extracted C17 model. Line: `<value> <prim> <nullable 0|1>`
   value ::= N | Bt | Bf | I<int> | S<hex> | O ; prim ::= string | bool | i<bits> | u<bits> | float | other
   Output: `None` | `Some <lit>` | `Bare <lit>` then ` fits=<b>`; lit ::= S<hex> | Bt | Bf | I<int> | D *)
open C17_model
let unhex (s : string) : char list = List.init (String.length s / 2) (fun i -> Char.chr (int_of_string ("0x" ^ String.sub s (2 * i) 2)))
let hex (l : char list) : string = String.concat "" (List.map (fun c -> Printf.sprintf "%02x" (Char.code c)) l)
(* decimal text <-> positive without machine integers (defaults may exceed OCaml's 63-bit int: u64 values) *)
let divmod2 (digits : int list) : int list * int =            (* most significant digit first *)
  let q, r = List.fold_left (fun (acc, carry) d -> let v = carry * 10 + d in (v / 2 :: acc, v mod 2)) ([], 0) digits in
  let rec strip = function 0 :: (_ :: _ as r) -> strip r | l -> l in
  (strip (List.rev q), r)
let rec pos_of_digits (ds : int list) : positive =
  if ds = [1] then XH else let (q, r) = divmod2 ds in if r = 0 then XO (pos_of_digits q) else XI (pos_of_digits q)
let digits_of_string (t : string) : int list = List.init (String.length t) (fun i -> Char.code t.[i] - 48)
let z_of_string (t : string) : z =
  let neg = String.length t > 0 && t.[0] = '-' in
  let body = if neg then String.sub t 1 (String.length t - 1) else t in
  let rec strip = function 0 :: (_ :: _ as r) -> strip r | l -> l in
  let ds = strip (digits_of_string body) in
  if ds = [0] then Z0 else if neg then Zneg (pos_of_digits ds) else Zpos (pos_of_digits ds)
let n_of_int (i : int) : n =
  let rec pos_of_int i = if i = 1 then XH else if i land 1 = 0 then XO (pos_of_int (i lsr 1)) else XI (pos_of_int (i lsr 1)) in
  if i = 0 then N0 else Npos (pos_of_int i)
let double_digits (ds : int list) (plus : int) : int list =    (* least significant digit first *)
  let rec go ds carry = match ds with
    | [] -> if carry = 0 then [] else [carry]
    | d :: r -> let v = 2 * d + carry in (v mod 10) :: go r (v / 10) in
  go ds plus
let rec digits_of_pos = function XH -> [1] | XO p -> double_digits (digits_of_pos p) 0 | XI p -> double_digits (digits_of_pos p) 1
let string_of_pos p = String.concat "" (List.rev_map string_of_int (digits_of_pos p))
let string_of_z = function Z0 -> "0" | Zpos p -> string_of_pos p | Zneg p -> "-" ^ string_of_pos p
let value t = match t.[0] with
  | 'N' -> VNull | 'B' -> VBool (t = "Bt") | 'I' -> VInt (z_of_string (String.sub t 1 (String.length t - 1)))
  | 'S' -> VStr (unhex (String.sub t 1 (String.length t - 1))) | _ -> VOther
let prim t = match t with
  | "string" -> PString | "bool" -> PBool | "float" -> PFloat | "other" -> POther
  | _ -> PInt (n_of_int (int_of_string (String.sub t 1 (String.length t - 1))), t.[0] = 'i')
let show = function LStr s -> "S" ^ hex s | LBool b -> if b then "Bt" else "Bf" | LInt z -> "I" ^ string_of_z z | LTypeDefault -> "D"
let () =
  try
    while true do
      let line = input_line stdin in
      match String.split_on_char ' ' line with
      | [v; p; n] ->
        let pr = prim p in
        (match json_to_rust_literal (value v) pr (n = "1") with
         | DNone -> print_endline "None fits=true"
         | DSome l -> Printf.printf "Some %s fits=%b\n" (show l) (lit_fits l pr)
         | DBare l -> Printf.printf "Bare %s fits=%b\n" (show l) (lit_fits l pr))
      | _ -> print_endline "BAD"
    done
  with End_of_file -> ()
