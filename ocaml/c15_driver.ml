(* Driver for the extracted C15 model.
   `build <merge|preserve|relaxed> <v> <v> ...`  values: S<hex> | I<int> | Bt | Bf | O
        -> `name:rename:alias,alias ; ...` (hex)  and ` # nodup=<bool>`
   `dec <mode> <hex string> // <values>` -> `<rename hex of the decoded variant>` | `ERR` *)
open C15_model
let unhex (s : string) : char list =
  if s = "-" || s = "" then [] else List.init (String.length s / 2) (fun i -> Char.chr (int_of_string ("0x" ^ String.sub s (2 * i) 2)))
let hex (l : char list) : string =
  if l = [] then "-" else String.concat "" (List.map (fun c -> Printf.sprintf "%02x" (Char.code c)) l)
let rec pos_of_int (i : int) : positive =
  if i = 1 then XH else if i land 1 = 0 then XO (pos_of_int (i lsr 1)) else XI (pos_of_int (i lsr 1))
let z_of_int (i : int) : z = if i = 0 then Z0 else if i > 0 then Zpos (pos_of_int i) else Zneg (pos_of_int (-i))
let value (t : string) : jval =
  match t.[0] with
  | 'S' -> JS (unhex (String.sub t 1 (String.length t - 1)))
  | 'I' -> JI (z_of_int (int_of_string (String.sub t 1 (String.length t - 1))))
  | 'B' -> JB (t = "Bt")
  | _ -> JOther
let () =
  try
    while true do
      let line = input_line stdin in
      let toks = List.filter (fun s -> s <> "") (String.split_on_char ' ' line) in
      match toks with
      | "build" :: mode :: vals ->
        let vs = build_enum (mode <> "preserve") (List.map value vals) in
        Printf.printf "%s # nodup=%b\n"
          (String.concat " ; " (List.map (fun v -> hex v.v_name ^ ":" ^ hex v.v_rename ^ ":" ^ String.concat "," (List.map hex v.v_alias)) vs))
          (names_nodup vs)
      | "dec" :: mode :: s :: "//" :: vals ->
        let vs = build_enum (mode <> "preserve") (List.map value vals) in
        let r = if mode = "relaxed" then dec_relaxed vs (unhex s) else dec_strict vs (unhex s) in
        (match r with Some v -> print_endline (hex (enc v)) | None -> print_endline "ERR")
      | _ -> print_endline "BAD"
    done
  with End_of_file -> ()
