(* Driver for the extracted C02 model. Line: `<schema> <json>`
   schema ::= s | i | b | a(<schema>) | o<c|u>(<name>:<r|o><n|_>:<schema>,...)      names: [A-Za-z0-9_]+
   json   ::= N | T | F | I<int> | S<hex> | A[<json>;...] | O{<name>=<json>;...}
   Output: `valid=<b> ` then `ERR` or `OK <json> revalid=<b> wire=<b>` *)
open C02_model
let explode (s : string) : char list = List.init (String.length s) (String.get s)
let implode (l : char list) : string = String.of_seq (List.to_seq l)
let unhex (s : string) : char list = List.init (String.length s / 2) (fun i -> Char.chr (int_of_string ("0x" ^ String.sub s (2 * i) 2)))
let hex (l : char list) : string = String.concat "" (List.map (fun c -> Printf.sprintf "%02x" (Char.code c)) l)
(* arbitrary-size integers are not needed: values fit OCaml ints (63 bits) except the i64 edge, sent as strings *)
let rec pos_of_int (i : int) : positive =
  if i = 1 then XH else if i land 1 = 0 then XO (pos_of_int (i lsr 1)) else XI (pos_of_int (i lsr 1))
let z_of_int (i : int) : z = if i = 0 then Z0 else if i > 0 then Zpos (pos_of_int i) else Zneg (pos_of_int (-i))
let rec int_of_pos = function XH -> 1 | XO p -> 2 * int_of_pos p | XI p -> 2 * int_of_pos p + 1
let int_of_z = function Z0 -> 0 | Zpos p -> int_of_pos p | Zneg p -> - (int_of_pos p)

let pos = ref 0
let src = ref ""
let peek () = if !pos < String.length !src then !src.[!pos] else '\000'
let adv () = incr pos
let ident () =
  let st = !pos in
  while (match peek () with 'A'..'Z' | 'a'..'z' | '0'..'9' | '_' | '-' -> true | _ -> false) do adv () done;
  String.sub !src st (!pos - st)

let rec p_schema () : schema =
  match peek () with
  | 's' -> adv (); SStr | 'i' -> adv (); SInt | 'b' -> adv (); SBool
  | 'a' -> adv (); adv (); let it = p_schema () in adv (); SArr it
  | 'o' -> adv (); let closed = (peek () = 'c') in adv (); adv ();
    let rec fields acc =
      if peek () = ')' then (adv (); List.rev acc) else begin
        if peek () = ',' then adv ();
        let n = ident () in adv ();
        let req = (peek () = 'r') in adv ();
        let nul = (peek () = 'n') in adv (); adv ();
        let s = p_schema () in
        fields (Field (explode n, req, nul, s) :: acc) end in
    SObj (fields [], closed)
  | c -> failwith (Printf.sprintf "schema char %c" c)

let rec p_json () : json =
  match peek () with
  | 'N' -> adv (); JNull | 'T' -> adv (); JBool true | 'F' -> adv (); JBool false
  | 'I' -> adv (); let st = !pos in if peek () = '-' then adv (); while (match peek () with '0'..'9' -> true | _ -> false) do adv () done;
    JInt (z_of_int (int_of_string (String.sub !src st (!pos - st))))
  | 'S' -> adv (); let st = !pos in while (match peek () with '0'..'9' | 'a'..'f' -> true | _ -> false) do adv () done;
    JStr (unhex (String.sub !src st (!pos - st)))
  | 'A' -> adv (); adv ();
    let rec items acc = if peek () = ']' then (adv (); List.rev acc) else begin
        if peek () = ';' then adv (); let j = p_json () in items (j :: acc) end in
    JArr (items [])
  | 'O' -> adv (); adv ();
    let rec mem acc = if peek () = '}' then (adv (); List.rev acc) else begin
        if peek () = ';' then adv (); let k = ident () in adv (); let j = p_json () in mem ((explode k, j) :: acc) end in
    JObj (mem [])
  | c -> failwith (Printf.sprintf "json char %c" c)

let rec show (j : json) : string =
  match j with
  | JNull -> "N" | JBool true -> "T" | JBool false -> "F"
  | JInt z -> "I" ^ string_of_int (int_of_z z)
  | JStr s -> "S" ^ hex s
  | JArr l -> "A[" ^ String.concat ";" (List.map show l) ^ "]"
  | JObj l -> "O{" ^ String.concat ";" (List.map (fun (k, v) -> implode k ^ "=" ^ show v) l) ^ "}"

let () =
  try
    while true do
      let line = input_line stdin in
      (match String.split_on_char ' ' line with
       | [s; j] ->
         src := s; pos := 0; let sc = p_schema () in
         src := j; pos := 0; let js = p_json () in
         let v0 = valid sc js in
         (match dec sc js with
          | None -> Printf.printf "valid=%b ERR\n" v0
          | Some v -> let e = enc v in Printf.printf "valid=%b OK %s revalid=%b wire=%b\n" v0 (show e) (valid sc e) (wire_eq sc js e))
       | _ -> print_endline "BAD")
    done
  with End_of_file -> ()
