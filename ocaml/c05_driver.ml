(* Driver for the extracted C05 model.
   `routes <n> { <METHOD> <template> <handler> <k> {<param> <field>} }` -> `path|fn:handler,fn:handler ; path|...`
       (a template that fails to parse prints `PARSE_ERROR <template>`)
   `status <key>` -> decimal status the server sends for the variant declared under <key>, or `-` *)
open C05_model
let explode (s : string) : char list = List.init (String.length s) (String.get s)
let implode (l : char list) : string = String.of_seq (List.to_seq l)
let () =
  try
    while true do
      let line = input_line stdin in
      let toks = List.filter (fun s -> s <> "") (String.split_on_char ' ' line) in
      match toks with
      | "routes" :: n :: rest ->
        let n = int_of_string n in
        let rec ops i toks acc err =
          if i = 0 then (List.rev acc, err) else
          match toks with
          | m :: tpl :: h :: k :: rest ->
            let k = int_of_string k in
            let rec pm j toks acc2 = if j = 0 then (acc2, toks) else
                match toks with p :: f :: r -> pm (j - 1) r ((p, f) :: acc2) | _ -> failwith "params" in
            let (pmap, rest) = pm k rest [] in
            let field (nm : char list) : char list =
              match List.assoc_opt (implode nm) pmap with Some f -> explode f | None -> nm in
            (match parse_path (explode tpl) with
             | Some segs -> ops (i - 1) rest ({ so_path = axum_path field segs; so_method = explode m; so_handler = explode h } :: acc) err
             | None -> ops (i - 1) rest acc (Some tpl))
          | _ -> failwith "op" in
        let (l, err) = ops n rest [] None in
        (match err with
         | Some t -> print_endline ("PARSE_ERROR " ^ t)
         | None ->
           let t = route_table l in
           print_endline (String.concat " ; " (List.map (fun (p, hs) ->
               implode p ^ "|" ^ String.concat "," (List.map (fun (f, h) -> implode f ^ ":" ^ implode h) hs)) t)))
      | ["status"; key] ->
        (match server_status (tok_of_key (explode key)) with
         | Some c -> print_endline (implode (dec_of_N c))
         | None -> print_endline "-")
      | ["enc"; cat; ty; plain] -> print_endline (implode (payload_encoder (explode cat) (explode ty) (plain = "1")))
      | _ -> print_endline "ERR"
    done
  with End_of_file -> ()
