(* Driver for the extracted C10 model.  One spec per line: schemas separated by ';'
     s    ::= r<num> | o( list | list | list | list | opt | opt | 0/1 )      (props allof oneof anyof items addl)
     list ::= [ s { , s } ]        opt ::= - | s
   prints  D a>b a>b ... // M i:0|1 i:0|1 ...  (recorded dependency edges, cyclic marks) *)
open C10_model
let rec pos_of_int (i : int) : positive =
  if i = 1 then XH else if i land 1 = 0 then XO (pos_of_int (i lsr 1)) else XI (pos_of_int (i lsr 1))
let n_of_int (i : int) : n = if i = 0 then N0 else Npos (pos_of_int i)
let rec int_of_pos = function XH -> 1 | XO p -> 2 * int_of_pos p | XI p -> 2 * int_of_pos p + 1
let int_of_n = function N0 -> 0 | Npos p -> int_of_pos p

let parse (s : string) : sch list =
  let pos = ref 0 in
  let peek () = if !pos < String.length s then s.[!pos] else '\000' in
  let eat c = if peek () = c then incr pos else failwith (Printf.sprintf "expected %c at %d" c !pos) in
  let rec sch () =
    match peek () with
    | 'r' -> incr pos;
      let st = !pos in
      while (match peek () with '0'..'9' -> true | _ -> false) do incr pos done;
      SRef (n_of_int (int_of_string (String.sub s st (!pos - st))))
    | 'o' -> incr pos; eat '(';
      let p = lst () in eat '|'; let a = lst () in eat '|'; let o = lst () in eat '|'; let y = lst () in eat '|';
      let i = opt () in eat '|'; let d = opt () in eat '|';
      let k = (peek () = '1') in incr pos; eat ')';
      SObj (p, a, o, y, i, d, k)
    | c -> failwith (Printf.sprintf "bad char %c at %d" c !pos)
  and lst () =
    match peek () with
    | 'r' | 'o' -> let x = sch () in if peek () = ',' then (incr pos; x :: lst ()) else [x]
    | _ -> []
  and opt () = if peek () = '-' then (incr pos; None) else Some (sch ()) in
  let rec top () =
    let x = sch () in if peek () = ';' then (incr pos; x :: top ()) else [x] in
  if String.length s = 0 then [] else top ()

let () =
  try
    while true do
      let line = input_line stdin in
      (try
        let ss = parse line in
        let d = deps ss and m = marks ss in
        print_endline ("D " ^ String.concat " " (List.map (fun (a, b) -> Printf.sprintf "%d>%d" (int_of_n a) (int_of_n b)) d)
                       ^ " // M " ^ String.concat " " (List.map (fun (i, b) -> Printf.sprintf "%d:%d" (int_of_n i) (if b then 1 else 0)) m))
      with Failure e -> print_endline ("ERR " ^ e))
    done
  with End_of_file -> ()
