(* Driver for the extracted C04 model.  One command per line on stdin:
     gen    <rs>
     vars   <rs>
     parse  <rs> // <code> <ct|-> <code> <ct|-> ...
     spec   <rs> // <code> <ct|-> ...
     cat    <content-type>
   <rs> ::= <nkeys> { <key> <ncontent> { <ct> <schema> } }     schema ::= - | R:<name> | P:<rusttype>
   All tokens are blank-separated and contain no blanks. *)
open C04_model

let explode (s : string) : char list = List.init (String.length s) (String.get s)
let implode (l : char list) : string = String.of_seq (List.to_seq l)

let rec pos_of_int (i : int) : positive =
  if i = 1 then XH else if i land 1 = 0 then XO (pos_of_int (i lsr 1)) else XI (pos_of_int (i lsr 1))
let n_of_int (i : int) : n = if i = 0 then N0 else Npos (pos_of_int i)

let parse_schema (s : string) : sspec =
  if s = "-" then SNone
  else if String.length s > 2 && String.sub s 0 2 = "R:" then SRef (explode (String.sub s 2 (String.length s - 2)))
  else if String.length s > 2 && String.sub s 0 2 = "P:" then SPrim (explode (String.sub s 2 (String.length s - 2)))
  else failwith ("bad schema " ^ s)

let parse_rs (toks : string list) : (char list * (char list * sspec) list) list * string list =
  match toks with
  | [] -> failwith "empty rs"
  | n :: rest ->
    let n = int_of_string n in
    let rec keys i toks acc =
      if i = 0 then (List.rev acc, toks)
      else match toks with
        | key :: nc :: rest ->
          let nc = int_of_string nc in
          let rec cts j toks acc2 =
            if j = 0 then (List.rev acc2, toks)
            else match toks with
              | ct :: sch :: rest -> cts (j - 1) rest ((explode ct, parse_schema sch) :: acc2)
              | _ -> failwith "bad content"
          in
          let (content, rest) = cts nc rest [] in
          keys (i - 1) rest ((explode key, content) :: acc)
        | _ -> failwith "bad key"
    in
    keys n rest []

let () =
  try
    while true do
      let line = input_line stdin in
      let toks = List.filter (fun s -> s <> "") (String.split_on_char ' ' line) in
      (match toks with
       | "gen" :: rest -> let (rs, _) = parse_rs rest in print_endline (implode (show_gen rs))
       | "vars" :: rest -> let (rs, _) = parse_rs rest in print_endline (implode (show_variants rs))
       | "valid" :: rest -> let (rs, _) = parse_rs rest in print_endline (if valid_rs rs then "true" else "false")
       | ("parse" | "spec" as cmd) :: rest ->
         let (rs, rest) = parse_rs rest in
         let rest = (match rest with "//" :: r -> r | _ -> failwith "expected //") in
         let rec go toks acc = match toks with
           | code :: ct :: r ->
             let ctv = if ct = "-" then None else Some (explode ct) in
             let f = if cmd = "parse" then show_parse else show_spec_parse in
             go r (implode (f rs (n_of_int (int_of_string code)) ctv) :: acc)
           | [] -> List.rev acc
           | _ -> failwith "odd query list" in
         print_endline (String.concat " ;; " (go rest []))
       | ["cat"; ct] -> print_endline (implode (show_category (explode ct)))
       | [] -> print_endline ""
       | _ -> print_endline "ERR unknown command");
    done
  with End_of_file -> ()
