(* Driver for the extracted C03 model.  One command per line; byte strings are lowercase hex (empty = "-"):
     dec <hex>                      -> percent-decoded bytes, and whether the text is free of / ? #
     enc <hex>                      -> model encoding of a segment
     lay <form|space|pipe|simple> <0|1> <namehex> <v,v,...|none>   -> name=value pairs (hex) the parameter contributes *)
open C03_model
let rec pos_of_int (i : int) : positive =
  if i = 1 then XH else if i land 1 = 0 then XO (pos_of_int (i lsr 1)) else XI (pos_of_int (i lsr 1))
let n_of_int (i : int) : n = if i = 0 then N0 else Npos (pos_of_int i)
let rec int_of_pos = function XH -> 1 | XO p -> 2 * int_of_pos p | XI p -> 2 * int_of_pos p + 1
let int_of_n = function N0 -> 0 | Npos p -> int_of_pos p
let of_hex (s : string) : n list =
  if s = "-" then [] else List.init (String.length s / 2) (fun i -> n_of_int (int_of_string ("0x" ^ String.sub s (2 * i) 2)))
let to_hex (l : n list) : string = if l = [] then "-" else String.concat "" (List.map (fun b -> Printf.sprintf "%02x" (int_of_n b)) l)
let () =
  try
    while true do
      let line = input_line stdin in
      let toks = List.filter (fun s -> s <> "") (String.split_on_char ' ' line) in
      (try
        match toks with
        | ["dec"; h] -> let s = of_hex h in print_endline (to_hex (pct_decode s) ^ " " ^ (if no_delims s then "1" else "0"))
        | ["enc"; h] -> print_endline (to_hex (enc_segment (of_hex h)))
        | ["lay"; st; ex; name; vs] ->
          let st = (match st with "space" -> SpaceDelimited | "pipe" -> PipeDelimited | "simple" -> Simple | _ -> Form) in
          let values = if vs = "none" then None else Some (if vs = "empty" then [] else List.map of_hex (String.split_on_char ',' vs)) in
          let pairs = layout st (ex = "1") (of_hex name) values in
          print_endline ("P " ^ String.concat " " (List.map (fun (a, b) -> to_hex a ^ "=" ^ to_hex b) pairs))
        | "params" :: rest ->
          (* params <loc>:<name>:<id> ... // <loc>:<name>:<id> ...   ->  the ids of the collected declarations, in order *)
          let parse t = match String.split_on_char ':' t with
            | [l; n; k] -> { p_loc = n_of_int (int_of_string l); p_name = List.init (String.length n) (String.get n); p_payload = n_of_int (int_of_string k) }
            | _ -> failwith "param" in
          let rec split acc = function [] -> (List.rev acc, []) | "//" :: r -> (List.rev acc, r) | x :: r -> split (x :: acc) r in
          let (item, ops) = split [] rest in
          let r = collect_parameters (List.map parse item) (List.map parse ops) in
          print_endline ("C " ^ String.concat " " (List.map (fun p -> string_of_int (int_of_n p.p_payload)) r))
        | _ -> print_endline "ERR"
      with Failure e -> print_endline ("ERR " ^ e) | Invalid_argument e -> print_endline ("ERR " ^ e))
    done
  with End_of_file -> ()
