(* Driver for the extracted C08 model: `<none|only|excl> <id,id,..|-> // base base ...`
   prints the registry as `pos:id` pairs. *)
open C08_model
let explode (s : string) : char list = List.init (String.length s) (String.get s)
let implode (l : char list) : string = String.of_seq (List.to_seq l)
let rec int_of_nat = function O -> 0 | S n -> 1 + int_of_nat n
let () =
  try
    while true do
      let line = input_line stdin in
      let toks = List.filter (fun s -> s <> "") (String.split_on_char ' ' line) in
      match toks with
      | mode :: set :: "//" :: bases ->
        let s = if set = "-" then [] else List.map explode (String.split_on_char ',' set) in
        let f = (match mode with "only" -> only s | "excl" -> excl s | _ -> no_filter) in
        let reg = registry f (List.map explode bases) in
        print_endline (String.concat " " (List.map (fun (p, id) -> Printf.sprintf "%d:%s" (int_of_nat p) (implode id)) reg))
      | _ -> print_endline "ERR"
    done
  with End_of_file -> ()
