(* Driver for the extracted C20 model. One script per line: tokens `C<hex>` | `P`.
   Output per line: model items `I<hex>` | `EU` | `PANIC`, then ` # ` and the standard's reading
   sse_spec of the concatenated bytes (`S<hex>` per event), then ` # wf=<bool>`. *)
open C20_model

let unhex (s : string) : char list =
  List.init (String.length s / 2) (fun i -> Char.chr (int_of_string ("0x" ^ String.sub s (2 * i) 2)))
let hex (l : char list) : string = String.concat "" (List.map (fun c -> Printf.sprintf "%02x" (Char.code c)) l)

let () =
  try
    while true do
      let line = input_line stdin in
      let toks = List.filter (fun s -> s <> "") (String.split_on_char ' ' line) in
      let script = List.map (fun t -> if t = "P" then Pending else Chunk (unhex (String.sub t 1 (String.length t - 1)))) toks in
      let items = run script in
      let all = List.concat (List.filter_map (function Chunk c -> Some c | Pending -> None) script) in
      let show = function Item d -> "I" ^ hex d | ErrUtf8 -> "EU" | Panic -> "PANIC" in
      Printf.printf "%s # %s # wf=%b\n"
        (String.concat " " (List.map show items))
        (String.concat " " (List.map (fun e -> "S" ^ hex e) (sse_spec all)))
        (well_formed all)
    done
  with End_of_file -> ()
