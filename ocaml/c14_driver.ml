(* Driver for the extracted C14 model.  One case per line, blank-separated tokens:
     base  <base-name> <tag=schema,...|-> // <reachable schema ...>      (use * for "all reachable")
     union <tag=schema,...|-> // <member ...>
     synth <member=const|member=!|member=?> ...                         (implicit mapping from const tags)
   prints  NONE  or  A <schema>:<tag>,<tag> ... // F <fallback|-> *)
open C14_model
let explode (s : string) : char list = List.init (String.length s) (String.get s)
let implode (l : char list) : string = String.of_seq (List.to_seq l)
let parse_mapping s =
  if s = "-" then [] else
  List.map (fun kv -> match String.index_opt kv '=' with
    | Some i -> (explode (String.sub kv 0 i), explode (String.sub kv (i + 1) (String.length kv - i - 1)))
    | None -> failwith "bad mapping") (String.split_on_char ',' s)
let show d =
  "A " ^ String.concat " " (List.map (fun (s, ts) -> implode s ^ ":" ^ String.concat "," (List.map implode ts)) (arms d))
  ^ " // F " ^ (match fallback d with Some f -> implode f | None -> "-")
let () =
  try
    while true do
      let line = input_line stdin in
      let toks = List.filter (fun s -> s <> "") (String.split_on_char ' ' line) in
      (try
        match toks with
        | "base" :: base :: m :: "//" :: rs ->
          let all = List.mem "*" rs in
          let rs = List.map explode rs in
          print_endline (show (base_enum (parse_mapping m) (fun s -> all || List.mem s rs) (explode base)))
        | "union" :: m :: "//" :: members ->
          (match upgrade (List.map explode members) (parse_mapping m) with
           | Some d -> print_endline (show d)
           | None -> print_endline "NONE")
        | "synth" :: ms ->
          (* member=value | member=! (no string const) | member=? (schema missing) *)
          let parsed = List.map (fun kv -> match String.index_opt kv '=' with
            | Some i -> (String.sub kv 0 i, String.sub kv (i + 1) (String.length kv - i - 1))
            | None -> failwith "bad member") ms in
          let consts name = (match List.assoc_opt (implode name) parsed with
            | None | Some "?" -> None
            | Some "!" -> Some None
            | Some v -> Some (Some (explode v))) in
          (match synth (List.map (fun (m, _) -> explode m) parsed) consts with
           | Some m -> print_endline ("M " ^ String.concat "," (List.map (fun (t, s) -> implode t ^ "=" ^ implode s) m))
           | None -> print_endline "NONE")
        | _ -> print_endline "ERR"
      with Failure e -> print_endline ("ERR " ^ e))
    done
  with End_of_file -> ()
