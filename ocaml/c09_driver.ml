(* Driver for the extracted C09 model.
   `n <decomposition>` : decomposition = comma-separated `A<hh>` | `U<hex>` | `U-`; prints
        `<field> <type> <const> <legal field?><legal type?><legal const?>` (hex, `-` = empty)
   `d <name:dep,...>`  : deduplicate_names on hex rust names with 0/1 deprecated flags; prints hex names *)
open C09_model

let unhex (s : string) : char list =
  if s = "-" then [] else
  List.init (String.length s / 2) (fun i -> Char.chr (int_of_string ("0x" ^ String.sub s (2 * i) 2)))
let hex (l : char list) : string =
  if l = [] then "-" else String.concat "" (List.map (fun c -> Printf.sprintf "%02x" (Char.code c)) l)

let parse_name (s : string) : ch list =
  if s = "" then [] else
  List.map (fun t ->
      let body = String.sub t 1 (String.length t - 1) in
      if t.[0] = 'A' then Asc (List.hd (unhex body)) else Uni (unhex body))
    (String.split_on_char ',' s)

let b2s b = if b then "1" else "0"

let () =
  try
    while true do
      let line = input_line stdin in
      match String.split_on_char ' ' line with
      | "n" :: rest ->
        let nm = parse_name (match rest with [] -> "" | x :: _ -> x) in
        let f = to_rust_field_name nm and t = to_rust_type_name nm and c = to_rust_const_name nm in
        Printf.printf "%s %s %s %s%s%s\n" (hex f) (hex t) (hex c) (b2s (legal_ident f)) (b2s (legal_ident t)) (b2s (legal_ident c))
      | ["d"; spec] ->
        let fields = List.map (fun e -> match String.split_on_char ':' e with
            | [n; d] -> (unhex n, d = "1") | _ -> failwith "bad field") (String.split_on_char ',' spec) in
        let rename (a : char list) : char list = to_rust_field_name (List.map (fun c -> Asc c) a) in
        print_endline (String.concat "," (List.map hex (deduplicate_names fields rename)))
      | ["l"; h] -> print_endline (b2s (legal_ident (unhex h)))
      | _ -> print_endline "ERR"
    done
  with End_of_file -> ()
