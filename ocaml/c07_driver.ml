(* Driver for the extracted C07 model.  One case per line: <schemas>#<ops>; schemas separated by ';', ops written [list][list]...
     s    ::= r<num> | o( list | list | list | list | opt | opt | 0/1 )      (props allof oneof anyof items addl)
     list ::= [ s { , s } ]        opt ::= - | s
   prints  D a>b a>b ... // M i:0|1 i:0|1 ...  (recorded dependency edges, cyclic marks) *)
open C07_model
let rec pos_of_int (i : int) : positive =
  if i = 1 then XH else if i land 1 = 0 then XO (pos_of_int (i lsr 1)) else XI (pos_of_int (i lsr 1))
let n_of_int (i : int) : n = if i = 0 then N0 else Npos (pos_of_int i)
let rec int_of_pos = function XH -> 1 | XO p -> 2 * int_of_pos p | XI p -> 2 * int_of_pos p + 1
let int_of_n = function N0 -> 0 | Npos p -> int_of_pos p

let parse (s : string) : sch list * sch list list =
  let pos = ref 0 in
  let peek () = if !pos < String.length s then s.[!pos] else '\000' in
  let eat c = if peek () = c then incr pos else failwith (Printf.sprintf "expected %c at %d" c !pos) in
  let rec sch () =
    match peek () with
    | 'r' -> incr pos;
      let st = !pos in
      while (match peek () with '0'..'9' -> true | _ -> false) do incr pos done;
      SRef (n_of_int (int_of_string (String.sub s st (!pos - st))))
    | 'o' -> incr pos; eat '(';
      let p = lst () in eat '|'; let a = lst () in eat '|'; let o = lst () in eat '|'; let y = lst () in eat '|';
      let i = opt () in eat '|'; let d = opt () in eat '|';
      let k = (peek () = '1') in incr pos; eat ')';
      SObj (p, a, o, y, i, d, k)
    | c -> failwith (Printf.sprintf "bad char %c at %d" c !pos)
  and lst () =
    match peek () with
    | 'r' | 'o' -> let x = sch () in if peek () = ',' then (incr pos; x :: lst ()) else [x]
    | _ -> []
  and opt () = if peek () = '-' then (incr pos; None) else Some (sch ()) in
  let rec top () =
    match peek () with
    | 'r' | 'o' -> let x = sch () in if peek () = ';' then (incr pos; x :: top ()) else [x]
    | _ -> [] in
  let ss = top () in
  eat '#';
  let rec ops () = if peek () = '[' then (incr pos; let l = lst () in eat ']'; l :: ops ()) else [] in
  let os = ops () in
  (ss, os)

(* `canon i:name i:name ...` -> `C <canonical name> // <indices of the dropped members>` (Model/Dedup.v) *)
let rec nat_of_int (i : int) : nat = if i <= 0 then O else S (nat_of_int (i - 1))
let rec int_of_nat = function O -> 0 | S n -> 1 + int_of_nat n
let chars (s : string) : char list = List.init (String.length s) (String.get s)
let str (l : char list) : string = String.concat "" (List.map (String.make 1) l)
let canon (line : string) : string =
  let toks = List.filter (fun t -> t <> "") (String.split_on_char ' ' line) in
  let g = List.map (fun t -> match String.index_opt t ':' with
      | Some k -> (nat_of_int (int_of_string (String.sub t 0 k)), chars (String.sub t (k + 1) (String.length t - k - 1)))
      | None -> failwith "bad candidate") (List.tl toks) in
  match canonical g with
  | None -> "C - //"
  | Some (_, n) -> "C " ^ str n ^ " // " ^ String.concat " " (List.map (fun (i, _) -> string_of_int (int_of_nat i)) (doomed g))

let () =
  try
    while true do
      let line = input_line stdin in
      if String.length line >= 6 && String.sub line 0 6 = "canon " then
        (try print_endline (canon line) with Failure e -> print_endline ("ERR " ^ e))
      else
      (try
        let (ss, os) = parse line in
        let (r, closed) = reach ss os in
        let r = List.sort_uniq compare (List.map int_of_n r) in
        print_endline ("R " ^ String.concat " " (List.map string_of_int r) ^ " // closed " ^ (if closed then "1" else "0"))
      with Failure e -> print_endline ("ERR " ^ e))
    done
  with End_of_file -> ()
