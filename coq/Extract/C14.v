From OAS Require Import Lib.Str Model.Discrim.
Require Extraction.
Require Import ExtrOcamlBasic ExtrOcamlString.
Extraction Blacklist String List Nat.
Extraction "Extract/c14_model.ml" base_enum upgrade dispatch arms fallback synth.
