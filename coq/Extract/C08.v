From OAS Require Import Lib.Str Model.Registry.
Require Extraction.
Require Import ExtrOcamlBasic ExtrOcamlString.
Extraction Blacklist String List Nat.
Extraction "Extract/c08_model.ml" registry only excl no_filter trim_common_affixes nodup_strings.
