From OAS Require Import Model.Boxing.
Require Extraction.
Require Import ExtrOcamlBasic ExtrOcamlString.
Extraction Blacklist String List Nat.
Extraction "Extract/c10_model.ml" deps marks.
