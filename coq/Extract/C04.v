From OAS Require Import Lib.Str Model.Responses Model.ResponsesShow.
Require Extraction.
Require Import ExtrOcamlBasic ExtrOcamlString.
Extraction Blacklist String List Nat.

Extraction "Extract/c04_model.ml" show_gen show_variants show_parse show_spec_parse show_category valid_rs.
