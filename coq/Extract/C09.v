From OAS Require Import Lib.Str Model.Ident.
Require Extraction.
Require Import ExtrOcamlBasic ExtrOcamlString.
Extraction Blacklist String List Nat.
Extraction "Extract/c09_model.ml" to_rust_field_name to_rust_type_name to_rust_const_name legal_ident deduplicate_names ensure_unique.
