From OAS Require Import Lib.Str Model.Responses Model.Path Model.Server.
Require Extraction.
Require Import ExtrOcamlBasic ExtrOcamlString.
Extraction Blacklist String List Nat.
Extraction "Extract/c05_model.ml" route_table parse_path axum_path server_status tok_of_key route_fn dec_of_N payload_encoder.
