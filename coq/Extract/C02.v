From Coq Require Import ZArith.
From OAS Require Import Lib.Str Model.Codec.
Require Extraction.
Require Import ExtrOcamlBasic ExtrOcamlString.
Extraction Blacklist String List Nat.
Extraction "Extract/c02_model.ml" dec enc valid wire_eq wf_schema.
