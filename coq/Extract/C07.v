From OAS Require Import Model.Boxing Model.Dedup.
Require Extraction.
Require Import ExtrOcamlBasic ExtrOcamlString.
Extraction Blacklist String List Nat.
Extraction "Extract/c07_model.ml" deps reach canonical doomed.
