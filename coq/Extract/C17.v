From Coq Require Import ZArith.
From OAS Require Import Lib.Str Model.Defaults.
Require Extraction.
Require Import ExtrOcamlBasic ExtrOcamlString.
Extraction Blacklist String List Nat.
Extraction "Extract/c17_model.ml" json_to_rust_literal lit_fits builder_gets_default.
