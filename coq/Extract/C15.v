From Coq Require Import ZArith.
From OAS Require Import Lib.Str Model.Ident Model.EnumCodec.
Require Extraction.
Require Import ExtrOcamlBasic ExtrOcamlString.
Extraction Blacklist String List Nat.
Extraction "Extract/c15_model.ml" build_enum dec_strict dec_relaxed enc names_nodup.
