From OAS Require Import Model.Wire Model.ParamMerge.
Require Extraction.
Require Import ExtrOcamlBasic ExtrOcamlString.
Extraction Blacklist String List Nat.
Extraction "Extract/c03_model.ml" pct_decode enc_segment no_delims layout split delimiter collect_parameters.
