From OAS Require Import Model.Sse.
Require Extraction.
Require Import ExtrOcamlBasic ExtrOcamlString.
Extraction Blacklist String List Nat.
Extraction "Extract/c20_model.ml" run sse_spec events_of_chunks well_formed.
