(* C04 — generated client maps every HTTP response to the declared variant.
   This file only pins statements; proofs live in Proof/Responses*.v. *)
From OAS Require Import Lib.Str Gen.StatusTable Gen.Content Model.HttpConsts Model.Media Model.Responses
  Proof.ResponsesSweeps Proof.Responses.

(* For every strictly sorted responses object over the key universe {100..599, 1XX..5XX, default}
   (any content per status: unbounded), every status 100..599 and every Content-Type header (or none),
   the emitted parse_response returns what the property's reading returns: the exact status' variant,
   else the NXX range's, else default / the synthetic Unknown. *)
Theorem C04_precedence : forall rs code ct,
  valid_rs rs = true -> (100 <= code <= 599)%N ->
  parse (gen rs) code ct = spec_parse rs code ct.
Proof. intros rs code ct Hv Hc. apply precedence; [exact Hv|apply in_codes; exact Hc]. Qed.

(* never a variant declared for a different status *)
Theorem C04_no_cross_status : forall rs code ct,
  valid_rs rs = true -> (100 <= code <= 599)%N ->
  let k := o_key (parse (gen rs) code ct) in
  k = exact_key code \/ k = range_key code \/ k = "default" \/ k = "".
Proof. intros rs code ct Hv Hc. apply no_cross_status; [exact Hv|apply in_codes; exact Hc]. Qed.

(* an exactly declared status with one content category wins whatever the Content-Type *)
Theorem C04_exact_wins : forall rs code ct r,
  valid_rs rs = true -> (100 <= code <= 599)%N ->
  assoc (exact_key code) rs = Some r -> single_category (exact_key code) r = true ->
  o_key (parse (gen rs) code ct) = exact_key code.
Proof. intros rs code ct r Hv Hc. apply exact_single_wins; [exact Hv|apply in_codes; exact Hc]. Qed.

(* the emitted status condition of every universe key holds exactly on the statuses it denotes
   (regenerated tables: StatusCodeToken::from_str, HttpStatusCode, StatusConditionFragment) *)
Theorem C04_condition_table : forall k code,
  In k key_universe -> (100 <= code <= 599)%N ->
  cond_holds (tok_condition (tok_of_key k)) code = key_covers k code.
Proof. intros k code Hk Hc. apply cond_covers; [exact Hk|apply in_codes; exact Hc]. Qed.

(* "ranges rely on map ordering": an exact key sorts before its range key *)
Theorem C04_exact_sorts_before_range : forall code,
  (100 <= code <= 599)%N -> String.ltb (exact_key code) (range_key code) = true.
Proof. intros code Hc. apply exact_sorts_before_range. apply in_codes. exact Hc. Qed.

(* parse is total by construction (a Gallina function into [outcome]); no Panic constructor exists. *)

Check C04_precedence : forall rs code ct,
  valid_rs rs = true -> (100 <= code <= 599)%N -> parse (gen rs) code ct = spec_parse rs code ct.
Check C04_no_cross_status : forall rs code ct,
  valid_rs rs = true -> (100 <= code <= 599)%N ->
  let k := o_key (parse (gen rs) code ct) in
  k = exact_key code \/ k = range_key code \/ k = "default" \/ k = "".
Check C04_exact_wins : forall rs code ct r,
  valid_rs rs = true -> (100 <= code <= 599)%N ->
  assoc (exact_key code) rs = Some r -> single_category (exact_key code) r = true ->
  o_key (parse (gen rs) code ct) = exact_key code.
Check C04_condition_table : forall k code,
  In k key_universe -> (100 <= code <= 599)%N ->
  cond_holds (tok_condition (tok_of_key k)) code = key_covers k code.

(* non-vacuity: a concrete non-trivial responses object satisfies the hypotheses, and the
   reading differs from "first declared": 200 and 2XX both cover 200 *)
Example C04_nonvacuous :
  let rs := [("200", [("application/json", SRef "Pet")]);
             ("2XX", [("text/plain", SPrim "String")]);
             ("404", []);
             ("4XX", [("application/json", SRef "Err"); ("text/plain", SPrim "String")]);
             ("default", [("application/json", SRef "Err")])] in
  valid_rs rs = true /\
  o_variant (parse (gen rs) 200 None) = "Ok" /\
  o_variant (parse (gen rs) 204 None) = "Success" /\
  o_variant (parse (gen rs) 404 (Some "text/plain")) = "NotFound" /\
  o_variant (parse (gen rs) 418 (Some "text/plain")) = "ClientErrorText" /\
  o_variant (parse (gen rs) 418 (Some "image/png")) = "Unknown" /\
  o_variant (parse (gen rs) 500 None) = "Unknown".
Proof. vm_compute. repeat split; reflexivity. Qed.

Print Assumptions C04_precedence.
Print Assumptions C04_no_cross_status.
Print Assumptions C04_exact_wins.
Print Assumptions C04_condition_table.
Print Assumptions C04_exact_sorts_before_range.
