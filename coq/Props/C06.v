(* C06 — client and server generated from one spec interoperate losslessly (response and status legs).
   A composition of the C04 and C05 models; no new model code. *)
From OAS Require Import Lib.Str Gen.StatusTable Model.HttpConsts Model.Responses Model.Server
  Proof.ResponsesSweeps Proof.Responses Proof.Server.
Local Open Scope list_scope.

(* For every valid responses object and every declared non-default status key whose response has one
   content category: the status the generated server sends for that variant is parsed by the generated
   client as the variant of the same key — unless the key is a range whose representative status is also
   declared exactly. *)
Theorem C06_response_roundtrip : forall rs k r ct code,
  valid_rs rs = true -> assoc k rs = Some r -> k <> "default" ->
  server_status (tok_of_key k) = Some code ->
  single_category k r = true ->
  (k = exact_key code \/ assoc (exact_key code) rs = None) ->
  o_key (parse (gen rs) code ct) = k.
Proof. exact response_roundtrip. Qed.

Check C06_response_roundtrip : forall rs k r ct code,
  valid_rs rs = true -> assoc k rs = Some r -> k <> "default" ->
  server_status (tok_of_key k) = Some code -> single_category k r = true ->
  (k = exact_key code \/ assoc (exact_key code) rs = None) ->
  o_key (parse (gen rs) code ct) = k.

(* the excluded class is real: with {200, 2XX} the 2XX variant is sent as 200 and comes back as the 200 variant *)
Theorem C06_refuted_range_vs_exact :
  let rs := [("200", [("application/json", SRef "A")]); ("2XX", [("application/json", SRef "B")])] in
  valid_rs rs = true /\ server_status (tok_of_key "2XX") = Some 200%N /\
  o_key (parse (gen rs) 200 None) = "200".
Proof. vm_compute. repeat split; reflexivity. Qed.

(* the default variant is sent as 200 OK, so it comes back as whatever covers 200 *)
Theorem C06_refuted_default :
  let rs := [("200", [("application/json", SRef "A")]); ("default", [("application/json", SRef "B")])] in
  server_status (tok_of_key "default") = Some 200%N /\ o_key (parse (gen rs) 200 None) = "200".
Proof. vm_compute. repeat split; reflexivity. Qed.

Example C06_nonvacuous :
  let rs := [("201", [("application/json", SRef "A")]); ("3XX", []); ("4XX", [("application/json", SRef "B")])] in
  valid_rs rs = true /\
  o_key (parse (gen rs) 201 None) = "201" /\ server_status (tok_of_key "4XX") = Some 400%N /\
  o_key (parse (gen rs) 400 None) = "4XX" /\ o_key (parse (gen rs) 300 None) = "3XX".
Proof. vm_compute. repeat split; reflexivity. Qed.

Print Assumptions C06_response_roundtrip.
Print Assumptions C06_refuted_range_vs_exact.
