(* C13 — type sharing is sound (PARTIAL: the two identity keys; the other sharing mechanisms are covered by the
   differential matrix of lib/c13.py). *)
From Coq Require Import List Bool String Ascii ZArith NArith Permutation.
From OAS Require Import Lib.Str Model.Sharing Proof.Sharing Model.Canon Proof.Canon Model.Dedup Proof.Dedup.
Import ListNotations.
Local Open Scope string_scope.

(* Two enums that share a key have the same set of wire names: the shared type accepts and writes exactly the
   values either of them lists (in the rendering the generator gives to values: strings verbatim, numbers and
   booleans by their JSON text). *)
Theorem C13_enum_key_sound : forall a b, enum_key a = enum_key b -> forall s, In s (wire_names a) <-> In s (wire_names b).
Proof. exact enum_key_sound. Qed.

(* Two unions that share a key consist of references only, to the same set of schemas, under the same
   discriminator property. *)
Theorem C13_union_key_sound : forall u1 u2 k, union_key u1 = Some k -> union_key u2 = Some k ->
  (forall v, In v (variants u1) <-> In v (variants u2)) /\ discriminator u1 = discriminator u2.
Proof. exact union_key_sound. Qed.

(* A union of values (const / enum variants) shares the enum key only when none of its variants is open (a plain
   integer, an object, a freeform string ...): two value unions under one key list exactly the same wire names and
   neither accepts anything else. *)
Theorem C13_value_union_key_sound : forall u1 u2 k, value_union_key u1 = Some k -> value_union_key u2 = Some k ->
  (forall v, In v u1 \/ In v u2 -> exists x vs, v = VValues (x :: vs))
  /\ (forall s, In s (wire_names (vu_values u1)) <-> In s (wire_names (vu_values u2))).
Proof. exact value_union_key_sound. Qed.

(* Response enums are merged when their signatures are equal (Model/Dedup.v): two merged enums have, as multisets,
   the same variants by (status code, variant name, media types), and each pair of corresponding variants has the same
   multiset of (content category, schema type) media types. *)
Theorem C13_response_signature_sound : forall a b, signature a = signature b -> Permutation (map vsig_of a) (map vsig_of b).
Proof. exact signature_sound. Qed.
Theorem C13_response_variant_media : forall v w, vsig_of v = vsig_of w ->
  status v = status w /\ vname v = vname w /\ Permutation (medias v) (medias w).
Proof. exact vsig_medias. Qed.

(* Canonical-schema identity: two schemas whose canonical forms are equal are the same JSON tree up to the order of
   object members and the order of all-string arrays directly under required / type / enum — nothing else (value
   sets, member types, descriptions, defaults, ...) is identified. *)
Theorem C13_canonical_sound : forall a b, norm a = norm b -> exists c, equiv a c /\ equiv b c.
Proof. exact canon_shared. Qed.

(* The keys as they were before the fix: commits are NOT sound; the witnesses are the replays of the findings. *)
Theorem C13_old_enum_key_refuted : exists a b s,
  enum_key_old a = enum_key_old b /\ In s (wire_names a) /\ ~ In s (wire_names b).
Proof.
  exists [JNum 1; JNum 2; JNum 3], [JNum 10; JNum 20], "1". vm_compute. split; [reflexivity|]. split; [tauto|].
  intros [H|[H|[]]]; discriminate.
Qed.

Theorem C13_old_union_key_refuted : exists u1 u2 k v,
  union_key_old u1 = Some k /\ union_key_old u2 = Some k /\ In v (variants u1) /\ ~ In v (variants u2).
Proof.
  exists {| variants := [VRef "A"; VRef "B"; VInline "{""type"":""string""}"]; discriminator := None |},
         {| variants := [VRef "A"; VRef "B"]; discriminator := None |},
         (["A"; "B"], None), (VInline "{""type"":""string""}").
  vm_compute. repeat split; try reflexivity; [tauto|]. intros [H|[H|[]]]; discriminate.
Qed.

(* before fix 286df18 the open variants were skipped: oneOf [const a, const b, integer] shared the type of enum [a, b] *)
Theorem C13_old_value_union_key_refuted : exists u1 u2 k c,
  value_union_key_old u1 = Some k /\ value_union_key_old u2 = Some k /\ In (VOpen c) u1 /\ ~ In (VOpen c) u2.
Proof.
  exists [VValues [JStr "a"]; VValues [JStr "b"]; VOpen "{""type"":""integer""}"], [VValues [JStr "a"; JStr "b"]],
         ["a"; "b"], "{""type"":""integer""}".
  vm_compute. repeat split; try reflexivity; [tauto|]. intros [H|[]]; discriminate.
Qed.

Check C13_response_signature_sound : forall a b, signature a = signature b -> Permutation (map vsig_of a) (map vsig_of b).
Check C13_value_union_key_sound : forall u1 u2 k, value_union_key u1 = Some k -> value_union_key u2 = Some k ->
  (forall v, In v u1 \/ In v u2 -> exists x vs, v = VValues (x :: vs))
  /\ (forall s, In s (wire_names (vu_values u1)) <-> In s (wire_names (vu_values u2))).
Check C13_enum_key_sound : forall a b, enum_key a = enum_key b -> forall s, In s (wire_names a) <-> In s (wire_names b).
Check C13_union_key_sound : forall u1 u2 k, union_key u1 = Some k -> union_key u2 = Some k ->
  (forall v, In v (variants u1) <-> In v (variants u2)) /\ discriminator u1 = discriminator u2.

(* non-vacuity: equal keys exist for differently written enums / unions; a mixed enum no longer shares the key of
   its string subset; a union with an inline variant has no reference key *)
Example C13_nonvacuous :
  enum_key [JStr "red"; JStr "green"] = enum_key [JStr "green"; JStr "red"; JNull]
  /\ enum_key [JNum 1; JNum 2] <> enum_key [JNum 10; JNum 20]
  /\ enum_key [JStr "on"; JNum 1] <> enum_key [JStr "on"]
  /\ union_key {| variants := [VRef "B"; VRef "A"]; discriminator := None |}
     = union_key {| variants := [VRef "A"; VRef "B"]; discriminator := None |}
  /\ union_key {| variants := [VRef "A"; VRef "B"]; discriminator := None |} = Some (["A"; "B"], None)
  /\ union_key {| variants := [VRef "A"; VRef "B"; VInline "s"]; discriminator := None |} = None
  /\ value_union_key [VValues [JStr "a"]; VValues [JStr "b"]] = value_union_key [VValues [JStr "b"; JStr "a"]]
  /\ value_union_key [VValues [JStr "a"]; VValues [JStr "b"]] = Some ["a"; "b"]
  /\ value_union_key [VValues [JStr "a"]; VValues [JStr "b"]; VOpen "i"] = None.
Proof. vm_compute. repeat split; try reflexivity; discriminate. Qed.

Example C13_signature_nonvacuous :
  let ok := {| status := 200; vname := "Ok"; medias := [(0%N, "Job"); (2%N, "String")] |} in
  let ok' := {| status := 200; vname := "Ok"; medias := [(2%N, "String"); (0%N, "Job")] |} in
  let nf := {| status := 404; vname := "NotFound"; medias := [] |} in
  let okv := {| status := 200; vname := "Ok"; medias := [(0%N, "Vec<Job>")] |} in
  signature [ok; nf] = signature [nf; ok'] /\ signature [ok; nf] <> signature [okv; nf].
Proof. vm_compute. split; [reflexivity | discriminate]. Qed.

Example C13_canonical_nonvacuous :
  norm (JO [("required", JA [JS "b"; JS "a"]); ("enum", JA [JS "x"; JN 1]); ("type", JS "object")])
  = norm (JO [("type", JS "object"); ("enum", JA [JS "x"; JN 1]); ("required", JA [JS "a"; JS "b"])])
  /\ norm (JO [("enum", JA [JN 1; JN 2])]) <> norm (JO [("enum", JA [JN 2; JN 1])])
  /\ norm (JO [("description", JS "a")]) <> norm (JO [("description", JS "b")]).
Proof. vm_compute. repeat split; try reflexivity; discriminate. Qed.

Print Assumptions C13_canonical_sound.
Print Assumptions C13_enum_key_sound.
Print Assumptions C13_union_key_sound.
Print Assumptions C13_old_enum_key_refuted.
Print Assumptions C13_old_union_key_refuted.
Print Assumptions C13_value_union_key_sound.
Print Assumptions C13_old_value_union_key_refuted.
Print Assumptions C13_response_signature_sound.
Print Assumptions C13_response_variant_media.
