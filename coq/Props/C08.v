(* C08 — operation selection: list, --only and --exclude agree and are exact.  Statements only. *)
From OAS Require Import Lib.Str Model.Registry Proof.Registry.
Local Open Scope list_scope.

(* Selection is by whole identifier on the operation's *base* id: for every list of operations and every
   filter, the emitted operations are exactly those whose base id is a member of the set, once each, in
   document order (no prefix/suffix matching, no dependence on other operations). *)
Theorem C08_selection_by_base : forall f bases,
  selected f bases = map fst (filter (fun ib => accepts f (snd ib)) (number 0 bases)).
Proof. exact selection_by_base. Qed.

(* --only S and --exclude S partition the operations *)
Theorem C08_partition : forall bases s i, (i < length bases)%nat ->
  (In i (selected (only s) bases) /\ ~ In i (selected (excl s) bases)) \/
  (~ In i (selected (only s) bases) /\ In i (selected (excl s) bases)).
Proof. exact only_exclude_partition. Qed.

(* The full property (every id printed by `list` denotes exactly its row under --only/--exclude) holds
   whenever `list` prints the base ids themselves: distinct base ids and no common affix to trim. *)
Theorem C08_exact_outside_known : forall bases s,
  nodup_strings bases = true -> trim_common_affixes bases = bases ->
  map snd (list_rows bases) = bases /\
  selected (only s) bases = denoted bases s /\
  selected (excl s) bases = map fst (filter (fun row => negb (mem (snd row) s)) (list_rows bases)).
Proof. exact exact_outside_known. Qed.

Check C08_selection_by_base : forall f bases,
  selected f bases = map fst (filter (fun ib => accepts f (snd ib)) (number 0 bases)).
Check C08_exact_outside_known : forall bases s,
  nodup_strings bases = true -> trim_common_affixes bases = bases ->
  map snd (list_rows bases) = bases /\ selected (only s) bases = denoted bases s /\
  selected (excl s) bases = map fst (filter (fun row => negb (mem (snd row) s)) (list_rows bases)).

(* ---- the full statement is false on the unchanged tree: two witness families *)
Definition C08_full : Prop := forall bases s, selected (only s) bases = denoted bases s.

(* F12a: `list` prints ids after common-affix trimming, --only compares before it *)
Theorem C08_refuted_trimmed :
  map snd (list_rows ["api_users_list"; "api_users_get"]) = ["list"; "get"] /\
  selected (only ["list"]) ["api_users_list"; "api_users_get"] = [] /\
  denoted ["api_users_list"; "api_users_get"] ["list"] = [0%nat].
Proof. vm_compute. repeat split; reflexivity. Qed.

(* F12b: ids made unique with _2 are printed by `list` but never accepted; the base id selects both *)
Theorem C08_refuted_uniquified :
  map snd (list_rows ["get_x"; "get_x"; "put_y"]) = ["get_x"; "get_x_2"; "put_y"] /\
  selected (only ["get_x_2"]) ["get_x"; "get_x"; "put_y"] = [] /\
  selected (only ["get_x"]) ["get_x"; "get_x"; "put_y"] = [0%nat; 1%nat].
Proof. vm_compute. repeat split; reflexivity. Qed.

Theorem C08_full_refuted : ~ C08_full.
Proof.
  intros H. specialize (H ["api_users_list"; "api_users_get"] ["list"]). vm_compute in H. discriminate.
Qed.

Example C08_nonvacuous :
  nodup_strings ["list_pets"; "create_pet"; "show_pet_by_id"] = true /\
  trim_common_affixes ["list_pets"; "create_pet"; "show_pet_by_id"] = ["list_pets"; "create_pet"; "show_pet_by_id"] /\
  trim_common_affixes ["get_item_1"; "get_item_2"] = ["get_item_1"; "get_item_2"] /\
  trim_common_affixes ["get_item_a1"; "get_item_b2"] = ["a1"; "b2"] /\
  selected (only ["create_pet"]) ["list_pets"; "create_pet"; "show_pet_by_id"] = [1%nat] /\
  selected (excl ["create_pet"]) ["list_pets"; "create_pet"; "show_pet_by_id"] = [0%nat; 2%nat].
Proof. vm_compute. repeat split; reflexivity. Qed.

Print Assumptions C08_selection_by_base.
Print Assumptions C08_partition.
Print Assumptions C08_exact_outside_known.
Print Assumptions C08_full_refuted.
