(* C10 — recursive schemas yield finite Rust types.
   PARTIAL: the size theorem is proved; Default's stack-safety and deep round trips are observed in the arena. *)
From Coq Require Import Relations List Bool NArith.
From OAS Require Import Model.Boxing Proof.Boxing.
Import ListNotations.

Section Abstract.
  Variable node : Type.
  Variable dep byval_pos : node -> node -> Prop.
  (* tie (checked by correspondence on every run): every by-value-capable mention is a recorded dependency *)
  Hypothesis collect_covers_byval : forall a b, byval_pos a b -> dep a b.

  Lemma byval_path_is_dep_path a b : clos_trans node (byval node dep byval_pos) a b -> clos_trans node dep a b.
  Proof.
    induction 1 as [x y [H _]|x y z _ IH1 _ IH2].
    - apply t_step. apply collect_covers_byval. exact H.
    - eapply t_trans; eauto.
  Qed.

  Lemma last_edge a b : clos_trans node (byval node dep byval_pos) a b -> exists c, byval node dep byval_pos c b.
  Proof. induction 1 as [x y H|x y z _ _ _ IH]; eauto. Qed.

  (* For EVERY reference graph: no type contains itself by value, directly or through any chain of by-value
     members, union variants or flattened parents — every containment cycle is broken by a Box. *)
  Theorem C10_finite_size_abstract : forall n, ~ clos_trans node (byval node dep byval_pos) n n.
  Proof.
    intros n H. destruct (last_edge n n H) as [c [_ Hnc]]. apply Hnc. unfold cyclic.
    apply byval_path_is_dep_path. exact H.
  Qed.
End Abstract.

(* The same for the executable model: for every list of component schemas, with the dependency edges computed by
   [collect] and the marks computed by [cyclicb], the relation "a mentions b in a by-value-capable position and b is
   not marked" has no cycle, whatever the by-value-capable mentions are, provided each is a collected dependency. *)
Definition byval_m (ss : list sch) (byval_pos : N -> N -> Prop) (a b : N) : Prop :=
  byval_pos a b /\ mark_of ss b = false.

Lemma byval_m_path ss bp a b :
  clos_trans N (byval_m ss bp) a b -> clos_trans N (byval N (edge (deps ss)) bp) a b.
Proof.
  induction 1 as [x y [H1 H2]|x y z _ IH1 _ IH2].
  - apply t_step. split; [exact H1|]. intros Hc. apply cyclicb_complete in Hc. unfold mark_of in H2. congruence.
  - eapply t_trans; eauto.
Qed.

Theorem C10_finite_size : forall (ss : list sch) (byval_pos : N -> N -> Prop),
  (forall a b, byval_pos a b -> edge (deps ss) a b) ->
  forall n, ~ clos_trans N (byval_m ss byval_pos) n n.
Proof.
  intros ss bp Hcov n H.
  apply (C10_finite_size_abstract N (edge (deps ss)) bp Hcov n). apply byval_m_path. exact H.
Qed.

(* the marking is exact: a schema is marked iff it lies on a cycle of the recorded dependencies (the saturation
   always closes within its fuel) *)
Theorem C10_marking_exact : forall es n, cyclicb es n = true <-> clos_trans N (edge es) n n.
Proof. exact cyclicb_exact. Qed.

Check C10_finite_size : forall (ss : list sch) (byval_pos : N -> N -> Prop),
  (forall a b, byval_pos a b -> edge (deps ss) a b) ->
  forall n, ~ clos_trans N (byval_m ss byval_pos) n n.
Check cyclicb_complete : forall es n, clos_trans N (edge es) n n -> cyclicb es n = true.
Check cyclicb_sound : forall es n,
  closedb es (saturate (length es) es (succs es [n])) = true -> cyclicb es n = true -> clos_trans N (edge es) n n.

(* non-vacuity: A{b: B} B{a: A} C{a: A, m: map<C>} — A and B are marked, C too (a map value is a dependency), and the fingerprint rule makes a named union U = oneOf[A,B] depend on itself *)
Example C10_nonvacuous :
  let A := SObj [SRef 1] [] [] [] None None false in
  let B := SObj [SRef 0] [] [] [] None None false in
  let C := SObj [SRef 0] [] [] [] None (Some (SRef 2)) false in
  let U := SObj [] [] [SRef 0; SRef 1] [] None None false in
  marks [A; B; C; U] = [(0, true); (1, true); (2, true); (3, true)]%N
  /\ deps [A; B; C; U] = [(0, 1); (1, 0); (2, 0); (2, 2); (3, 0); (3, 1); (3, 3)]%N.
Proof. vm_compute. split; reflexivity. Qed.

Print Assumptions C10_finite_size.
Print Assumptions C10_marking_exact.
Print Assumptions cyclicb_complete.
Print Assumptions cyclicb_sound.
