(* C01 — generated code compiles against its documented dependencies (partial: rustc is the oracle).
   What is proved here is the E0277 clause: the serde usage flags computed by the worklist propagation
   are closed downward along type dependencies, and the worklist always drains. *)
From Coq Require Import List Bool Arith Lia.
From OAS Require Import Model.SerdeUsage Proof.SerdeUsage.
Import ListNotations.

Theorem C01_serde_usage_closed : forall succ nodes fuel u0 u3,
  (forall a, ~ In a nodes -> succ a = []) ->
  propagate succ fuel nodes u0 = (u3, []) ->
  forall a b, In b (succ a) -> f_le (get u3 a) (get u3 b) = true.
Proof. exact serde_usage_closed. Qed.

(* for every finite type graph the worklist drains within |worklist| + 2|types| + 1 steps *)
Theorem C01_worklist_terminates : forall succ nodes, NoDup nodes ->
  (forall a b, In b (succ a) -> In b nodes) ->
  forall fuel u wl, length wl + 2 * length nodes < fuel + total nodes u -> snd (drain succ fuel u wl) = [].
Proof. exact drain_terminates. Qed.

Check C01_serde_usage_closed : forall succ nodes fuel u0 u3,
  (forall a, ~ In a nodes -> succ a = []) -> propagate succ fuel nodes u0 = (u3, []) ->
  forall a b, In b (succ a) -> f_le (get u3 a) (get u3 b) = true.

(* non-vacuity: a cyclic 4-type graph, seeds request-only on 0 and response-only on 2, type 3 orphan *)
Definition g (n : nat) : list nat := match n with 0 => [1] | 1 => [0; 2] | 2 => [] | 3 => [2] | _ => [] end.
Definition u0 : usage := fun n => match n with 0 => Some (true, false) | 2 => Some (false, true) | _ => None end.
Example C01_nonvacuous :
  let r := propagate g 20 [0; 1; 2; 3] u0 in
  snd r = [] /\ map (get (fst r)) [0; 1; 2; 3] = [(true, false); (true, false); (true, true); (true, true)].
Proof. vm_compute. split; reflexivity. Qed.

Print Assumptions C01_serde_usage_closed.
Print Assumptions C01_worklist_terminates.
