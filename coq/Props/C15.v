(* C15 — enum modes keep their documented accept/emit contracts.  Statements only. *)
From Coq Require Import ZArith.
From OAS Require Import Lib.Str Model.Ident Model.EnumCodec Proof.EnumCodec.
Local Open Scope list_scope.

(* merge: every declared value is accepted (under its textual form) ... *)
Theorem C15_merge_accepts : forall entries e n r,
  In e entries -> normalize e = Some (n, r) -> exists v, dec_strict (build_enum true entries) r = Some v.
Proof. exact merge_accepts. Qed.
(* ... and a string that is not a declared value is rejected *)
Theorem C15_merge_rejects : forall entries s,
  (forall e n, In e entries -> normalize e <> Some (n, s)) -> dec_strict (build_enum true entries) s = None.
Proof. exact merge_rejects. Qed.

(* preserve: every declared value decodes and encodes back to exactly itself; undeclared strings are rejected *)
Theorem C15_preserve_roundtrip : forall entries e n r,
  In e entries -> normalize e = Some (n, r) ->
  exists v, dec_strict (build_enum false entries) r = Some v /\ enc v = r.
Proof. exact preserve_roundtrip. Qed.
Theorem C15_preserve_rejects : forall entries s,
  (forall e n, In e entries -> normalize e <> Some (n, s)) -> dec_strict (build_enum false entries) s = None.
Proof. exact preserve_rejects. Qed.

(* relaxed: every ASCII letter-case spelling of a declared value is accepted and encodes as a declared value;
   a string that is not a declared value up to case is rejected (full statement: holds since the fix: commit
   that added the alias arms) *)
Theorem C15_relaxed_accepts : forall entries e n r s,
  In e entries -> normalize e = Some (n, r) -> lower_a s = lower_a r ->
  exists v, dec_relaxed (build_enum true entries) s = Some v /\ In (enc v) (acc (build_enum true entries)).
Proof. exact relaxed_accepts. Qed.
Theorem C15_relaxed_rejects : forall entries s,
  fallback (build_enum true entries) = None ->
  (forall e n r, In e entries -> normalize e = Some (n, r) -> lower_a r <> lower_a s) ->
  dec_relaxed (build_enum true entries) s = None.
Proof. exact relaxed_rejects. Qed.
(* the hypothesis on the fallback is needed: an enum one of whose values is named like `other` / `unknown` gets a
   catch-all arm in relaxed mode, so every undeclared string is accepted (recorded finding relaxed-fallback-swallows-unknown) *)
Theorem C15_relaxed_fallback_swallows : forall entries s fb,
  fallback (build_enum true entries) = Some fb -> exists v, dec_relaxed (build_enum true entries) s = Some v.
Proof. exact relaxed_fallback_swallows. Qed.
Theorem C15_relaxed_rejects_refuted : exists entries s,
  (forall e n r, In e entries -> normalize e = Some (n, r) -> lower_a r <> lower_a s)
  /\ option_map enc (dec_relaxed (build_enum true entries) s) = Some (la "other").
Proof.
  exists [JS (la "low"); JS (la "other"); JS (la "high")], (la "zzz"). split; [|vm_compute; reflexivity].
  intros e n r [<-|[<-|[<-|[]]]] Hn; vm_compute in Hn; injection Hn as _ <-; vm_compute; discriminate.
Qed.

Check C15_merge_accepts : forall entries e n r,
  In e entries -> normalize e = Some (n, r) -> exists v, dec_strict (build_enum true entries) r = Some v.
Check C15_preserve_roundtrip : forall entries e n r,
  In e entries -> normalize e = Some (n, r) -> exists v, dec_strict (build_enum false entries) r = Some v /\ enc v = r.

(* ---- refutations on the unchanged tree *)
(* F2: preserve-mode collision suffix = entry index can hit an existing variant name (rustc E0428) *)
Theorem C15_refuted_preserve_names :
  names_nodup (build_enum false [JS (la "a2"); JS (la "a"); JS (la "A")]) = false.
Proof. vm_compute. reflexivity. Qed.
(* (F9, fixed) merged values are accepted in relaxed mode *)
Theorem C15_relaxed_alias_accepted :
  option_map enc (dec_relaxed (build_enum true [JS (la "foo-bar"); JS (la "foo_bar")]) (la "FOO_BAR")) = Some (la "foo-bar").
Proof. vm_compute. reflexivity. Qed.
(* non-string values are turned into their text: JSON 3 is declared, only "3" is accepted *)
Theorem C15_refuted_nonstring : normalize (JI 3) = Some (la "Value3", la "3") /\ normalize (JB true) = Some (la "True", la "true").
Proof. vm_compute. split; reflexivity. Qed.

Example C15_nonvacuous :
  map v_name (build_enum true [JS (la "foo-bar"); JS (la "foo_bar"); JS (la "x")]) = [la "FooBar"; la "X"] /\
  map v_name (build_enum false [JS (la "foo-bar"); JS (la "foo_bar"); JS (la "x")]) = [la "FooBar"; la "FooBar1"; la "X"] /\
  option_map enc (dec_relaxed (build_enum true [JS (la "on"); JS (la "Off")]) (la "OFF")) = Some (la "Off").
Proof. vm_compute. repeat split; reflexivity. Qed.

Print Assumptions C15_merge_accepts.
Print Assumptions C15_merge_rejects.
Print Assumptions C15_preserve_roundtrip.
Print Assumptions C15_preserve_rejects.
Print Assumptions C15_relaxed_accepts.
Print Assumptions C15_relaxed_rejects.
Print Assumptions C15_relaxed_fallback_swallows.
Print Assumptions C15_relaxed_rejects_refuted.
