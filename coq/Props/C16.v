(* C16 — generated validation is sound w.r.t. declared constraints (PARTIAL: integer range bounds and the nested
   fix point; lengths, patterns, formats and float ranges are arena observations against a JSON Schema oracle). *)
From Coq Require Import List Bool ZArith NArith Lia Relations.
From Coq Require Import String.
From OAS Require Import Model.Boxing Proof.Boxing Model.Validation Proof.Validation Gen.IntRender.
Import ListNotations.
Local Open Scope Z_scope.

(* For every integer primitive, every combination of bounds that lie inside the primitive's range and every value:
   the emitted range attribute accepts exactly the values the schema allows. *)
Theorem C16_range_exact : forall p b v,
  bound_in p (bmin b) -> bound_in p (bmax b) -> bound_in p (bxmin b) -> bound_in p (bxmax b) ->
  sat (translate p b) v = sat b v.
Proof. exact range_exact. Qed.

(* For bounds outside the primitive's range (clamped to MIN / MAX): still sound for every value of the primitive,
   provided minimum / maximum can be met inside the primitive at all. *)
Theorem C16_range_sound : forall p b v, in_prim p v ->
  (forall m, bmin b = Some m -> m <= hi p) -> (forall m, bmax b = Some m -> lo p <= m) ->
  sat (translate p b) v = true -> sat b v = true.
Proof. exact range_sound. Qed.

(* ... but NOT complete: an exclusive bound beyond the primitive's range is clamped to MAX and rejects MAX, which the
   schema allows (known finding; the witness is the replay) *)
Theorem C16_exclusive_clamp_refuted : exists p b v, in_prim p v /\ sat b v = true /\ sat (translate p b) v = false.
Proof.
  exists i32, {| bmin := None; bmax := None; bxmin := None; bxmax := Some 1099511627776 |}, 2147483647.
  vm_compute. repeat split; discriminate.
Qed.

(* nested validation: every struct from which a directly constrained struct can be reached through fields is
   validated (so each field on the way carries `nested` and validate() reaches the constraint); and only those *)
Theorem C16_nested_reaches : forall ss t s,
  In t (direct_from 0 ss) -> clos_refl_trans N (edge (ref_edges ss)) t s -> In s (fst (validated ss)).
Proof.
  intros ss t s Ht Hts. eapply validated_closed; eauto; [apply validated_always_closed | apply validated_direct; exact Ht].
Qed.

Theorem C16_nested_minimal : forall ss s, In s (fst (validated ss)) ->
  exists t, In t (direct_from 0 ss) /\ clos_refl_trans N (edge (ref_edges ss)) t s.
Proof. exact validated_minimal. Qed.

Check C16_range_exact : forall p b v,
  bound_in p (bmin b) -> bound_in p (bmax b) -> bound_in p (bxmin b) -> bound_in p (bxmax b) ->
  sat (translate p b) v = sat b v.
Check C16_range_sound : forall p b v, in_prim p v ->
  (forall m, bmin b = Some m -> m <= hi p) -> (forall m, bmax b = Some m -> lo p <= m) ->
  sat (translate p b) v = true -> sat b v = true.
Check C16_nested_reaches : forall ss t s,
  In t (direct_from 0 ss) -> clos_refl_trans N (edge (ref_edges ss)) t s -> In s (fst (validated ss)).

(* tie to the source: Gen/IntRender.v is regenerated from ast/types.rs render_integer on every run (the translator
   accepts only `value <= MIN => MIN` / `value >= MAX => MAX` guards and fails closed otherwise); the primitives it
   clamps and their limits must be the model's *)
Definition rust_limit (s : string) : option Z :=
  if String.eqb s "i8::MIN" then Some (-128) else if String.eqb s "i8::MAX" then Some 127
  else if String.eqb s "i16::MIN" then Some (-32768) else if String.eqb s "i16::MAX" then Some 32767
  else if String.eqb s "i32::MIN" then Some (-2147483648) else if String.eqb s "i32::MAX" then Some 2147483647
  else None.
Definition model_prims : list (string * prim) := [("I8", i8); ("I16", i16); ("I32", i32)]%string.
Example C16_clamp_table_from_source :
  map (fun e => (fst (fst e), rust_limit (snd (fst e)), rust_limit (snd e))) render_integer_clamped
  = map (fun e => (fst e, Some (lo (snd e)), Some (hi (snd e)))) model_prims
  /\ render_integer_unclamped = ["I64"]%string.
Proof. vm_compute. split; reflexivity. Qed.

(* non-vacuity: Top{inner: Inner, wrap: Wrap} Inner{v <= 9} Wrap{deep: Inner, self: Wrap} Plain{} *)
Example C16_nonvacuous :
  let ss := [ {| direct := false; refs := [1; 2]%N |}; {| direct := true; refs := [] |};
              {| direct := false; refs := [1; 2]%N |}; {| direct := false; refs := [] |} ] in
  validated ss = ([1; 0; 2]%N, true) /\ nested_field ss 1%N = true /\ nested_field ss 3%N = false
  /\ sat (translate i32 {| bmin := Some 0; bmax := None; bxmin := None; bxmax := Some 150 |}) 149 = true
  /\ sat (translate i32 {| bmin := Some 0; bmax := None; bxmin := None; bxmax := Some 150 |}) 150 = false.
Proof. vm_compute. repeat split; reflexivity. Qed.

Print Assumptions C16_range_exact.
Print Assumptions C16_range_sound.
Print Assumptions C16_exclusive_clamp_refuted.
Print Assumptions C16_nested_reaches.
Print Assumptions C16_nested_minimal.
