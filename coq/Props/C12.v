(* C12 — generation always ends cleanly (partial: real stack depth, the OS and the oas3 parser are outside the
   model; the CLI runs under timeout are what exhibits a crash). *)
From Coq Require Import List Arith Lia Bool.
From OAS Require Import Model.Termination Proof.Termination Model.SerdeUsage Proof.SerdeUsage.
Import ListNotations.

(* the memoised inheritance-depth recursion ends whenever allOf is acyclic (a rank function exists) ... *)
Theorem C12_depth_terminates_on_acyclic_allof : forall parents rank,
  (forall n p, In p (parents n) -> rank p < rank n) ->
  forall fuel m n, rank n < fuel -> exists d m', depth parents fuel m n = Some (d, m').
Proof. exact depth_terminates. Qed.

(* ... and never ends on an allOf cycle: A allOf B allOf A exhausts any stack (F6) *)
Theorem C12_depth_diverges : forall fuel, depth cyc fuel empty_memo 0 = None.
Proof. exact compute_depth_diverges_on_allof_cycle. Qed.

(* the serde-usage worklist drains for every finite type graph (shared with C01) *)
Theorem C12_worklist_terminates : forall succ nodes, NoDup nodes ->
  (forall a b, In b (succ a) -> In b nodes) ->
  forall fuel u wl, length wl + 2 * length nodes < fuel + total nodes u -> snd (drain succ fuel u wl) = [].
Proof. exact drain_terminates. Qed.

(* when generation fails nothing is written; when everything succeeds every promised file is written *)
Theorem C12_no_write_on_generate_failure : forall mkdir_ok n w,
  files_written (generate_run false mkdir_ok n w) = [] /\ exit_ok (generate_run false mkdir_ok n w) = false.
Proof. exact no_write_on_generate_failure. Qed.
Theorem C12_all_files_on_success : forall n w, (forall i, i < n -> w i = true) ->
  generate_run true true n w = {| exit_ok := true; files_written := seq 0 n |}.
Proof. exact all_files_on_success. Qed.

(* F16: the output phase is not atomic — a failing second write leaves the first file behind *)
Theorem C12_atomic_refuted :
  generate_run true true 3 (fun k => negb (Nat.eqb k 1)) = {| exit_ok := false; files_written := [0] |}.
Proof. reflexivity. Qed.

Example C12_nonvacuous :
  let chain := fun n => match n with 0 => [] | S k => [k] end in
  (forall n p, In p (chain n) -> p < n) /\
  option_map fst (depth chain 10 empty_memo 5) = Some 5.
Proof. split; [intros [|n] p H; simpl in H; [tauto|destruct H as [<-|[]]; lia]|reflexivity]. Qed.

Print Assumptions C12_depth_terminates_on_acyclic_allof.
Print Assumptions C12_depth_diverges.
Print Assumptions C12_worklist_terminates.
Print Assumptions C12_all_files_on_success.
