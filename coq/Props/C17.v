(* C17 — schema defaults are honoured wherever a value is filled in.  Statements and their proofs
   (all by case analysis on the coercion table; no separate Proof file). *)
From Coq Require Import ZArith Lia.
From OAS Require Import Lib.Str Model.Defaults.
Local Open Scope list_scope.

(* a default of the member's own JSON type is rendered as a literal that means exactly that value:
   for every string, every boolean, every integer within i64 (signed types) / u64 (unsigned types) *)
Theorem C17_string : forall s, means (coerce (VStr s) PString) (VStr s) = true.
Proof. intros s. simpl. apply String.eqb_refl. Qed.
Theorem C17_bool : forall b, means (coerce (VBool b) PBool) (VBool b) = true.
Proof. intros []; reflexivity. Qed.
Theorem C17_int_signed : forall bits z, i64_ok z = true -> means (coerce (VInt z) (PInt bits true)) (VInt z) = true.
Proof. intros bits z H. simpl. rewrite H. simpl. apply Z.eqb_refl. Qed.
Theorem C17_int_unsigned : forall bits z, u64_ok z = true -> means (coerce (VInt z) (PInt bits false)) (VInt z) = true.
Proof. intros bits z H. simpl. rewrite H. simpl. apply Z.eqb_refl. Qed.

(* default: null => None *)
Theorem C17_null : forall p n, json_to_rust_literal VNull p n = DNone.
Proof. reflexivity. Qed.

(* the same expression is used for T::default() and (via #[serde(default)]) for an omitted member: both
   read the #[default(..)] attribute — one rendering, so the two always agree (shape checked by the
   correspondence); an Option member gets Some(literal) *)
Theorem C17_option_wraps : forall v p, v <> VNull -> json_to_rust_literal v p true = DSome (coerce v p).
Proof. intros [] p H; try reflexivity. congruence. Qed.

(* ---- refuted on the unchanged tree *)
(* F4: enum-typed, array, object, date/uuid members: the declared default is replaced by the type's default *)
Theorem C17_refuted_other : forall v, coerce v POther = LTypeDefault /\ means LTypeDefault v = false.
Proof. intros v. split; [reflexivity|destruct v; reflexivity]. Qed.
(* a default outside the member's integer width is rendered verbatim and rejected by rustc (C01) *)
Theorem C17_refuted_width : lit_fits (coerce (VInt 300) (PInt 8 true)) (PInt 8 true) = false.
Proof. vm_compute. reflexivity. Qed.
(* builders: every member with a default is an Option, and Option members get no builder default *)
Theorem C17_refuted_builder : builder_gets_default true false = false.
Proof. reflexivity. Qed.

Example C17_nonvacuous :
  coerce (VStr "12") (PInt 64 true) = LInt 12 /\ coerce (VStr "-5") (PInt 32 true) = LInt (-5) /\
  coerce (VStr "yes") PBool = LBool true /\ coerce (VInt 7) PString = LStr "7" /\
  json_to_rust_literal (VStr "hello") PString true = DSome (LStr "hello") /\
  lit_fits (coerce (VInt (-3)) (PInt 32 true)) (PInt 32 true) = true.
Proof. vm_compute. repeat split; reflexivity. Qed.

Print Assumptions C17_string.
Print Assumptions C17_int_signed.
Print Assumptions C17_int_unsigned.
Print Assumptions C17_bool.
Print Assumptions C17_refuted_other.
