(* C07 — output is closed under references for every selection of operations; default scoping is minimal. *)
From Coq Require Import Relations List Bool NArith.
From Coq Require Import String.
From OAS Require Import Model.Boxing Proof.Boxing Model.Dedup Proof.Dedup Gen.Dedup.
Import ListNotations.

(* closure: whatever the selection, an emitted schema type (a member of the expanded set) only mentions schema
   types of the expanded set — provided every mention of the emitted item follows recorded dependencies (tied by
   correspondence: mentions may pass through flattened allOf parents, hence the reflexive-transitive closure) *)
Theorem C07_closed : forall (ss : list sch) (ops : list op) (mentions : N -> N -> Prop),
  (forall a b, mentions a b -> clos_refl_trans N (edge (deps ss)) a b) ->
  forall a b, In a (fst (reach ss ops)) -> mentions a b -> In b (fst (reach ss ops)).
Proof. intros ss ops m Hm a b Ha Hab. eapply reach_closed; eauto. apply reach_always_closed. Qed.

(* every schema an operation's own parameter / body / response schemas refer to is in the expanded set *)
Theorem C07_operation_refs : forall ss ops x, In x (seeds (build_fp ss) ops) -> In x (fst (reach ss ops)).
Proof. exact reach_seeds. Qed.

(* minimality: every member of the expanded set is transitively used by some selected operation *)
Theorem C07_minimal : forall ss ops x, In x (fst (reach ss ops)) ->
  exists s, In s (seeds (build_fp ss) ops) /\ clos_refl_trans N (edge (deps ss)) s x.
Proof. exact reach_minimal. Qed.

(* selecting fewer operations never adds a type *)
Theorem C07_selection_monotone : forall ss ops ops', incl ops ops' ->
  incl (fst (reach ss ops)) (fst (reach ss ops')).
Proof. intros ss ops ops' H. apply reach_monotone; [exact H | apply reach_always_closed]. Qed.

(* the saturation that computes the expanded set always closes within its fuel (|edges| rounds) *)
Theorem C07_fuel_suffices : forall ss ops, snd (reach ss ops) = true.
Proof. exact reach_always_closed. Qed.

(* ---- the post-pass that merges response enums with equal signatures (Model/Dedup.v) keeps the output closed:
   removing the dropped items by index, distinct indices highest first, removes exactly the items at those indices and
   keeps all others in order — whatever the order in which the groups listed them *)
Theorem C07_dedup_removes_exactly : forall (A : Type) (idxs : list nat) (l : list A), dedup_remove idxs l = keep_unlisted idxs l.
Proof. exact @dedup_remove_exact. Qed.

(* the canonical member of a group is a member, is not dropped, and no dropped member carries its name: every
   reference rewritten to the canonical name still has an emitted definition *)
Theorem C07_dedup_canonical_kept : forall g c, canonical g = Some c ->
  In c g /\ ~ In c (doomed g) /\ (forall x, In x (doomed g) -> In x g /\ snd x <> snd c).
Proof. exact doomed_spec. Qed.

(* removing by index in an order that is not descending does NOT have that meaning (the seeded change C07-6) *)
Theorem C07_dedup_unordered_removal_refuted : exists (idxs : list nat) (l : list N), remove_all idxs l <> keep_unlisted idxs l.
Proof. exists [1; 3]%nat, [10; 11; 12; 13; 14]%N. vm_compute. discriminate. Qed.

Check C07_dedup_removes_exactly : forall (A : Type) (idxs : list nat) (l : list A), dedup_remove idxs l = keep_unlisted idxs l.
Check C07_dedup_canonical_kept : forall g c, canonical g = Some c ->
  In c g /\ ~ In c (doomed g) /\ (forall x, In x (doomed g) -> In x g /\ snd x <> snd c).
Check C07_closed : forall (ss : list sch) (ops : list op) (mentions : N -> N -> Prop),
  (forall a b, mentions a b -> clos_refl_trans N (edge (deps ss)) a b) ->
  forall a b, In a (fst (reach ss ops)) -> mentions a b -> In b (fst (reach ss ops)).
Check C07_operation_refs : forall ss ops x, In x (seeds (build_fp ss) ops) -> In x (fst (reach ss ops)).
Check C07_minimal : forall ss ops x, In x (fst (reach ss ops)) ->
  exists s, In s (seeds (build_fp ss) ops) /\ clos_refl_trans N (edge (deps ss)) s x.
Check C07_selection_monotone : forall ss ops ops', incl ops ops' -> incl (fst (reach ss ops)) (fst (reach ss ops')).
Check C07_fuel_suffices : forall ss ops, snd (reach ss ops) = true.

(* non-vacuity: Holder{t: map<Tgt>} Other{} Tgt{} Unused{}; one operation returning Holder *)
Example C07_nonvacuous :
  let Holder := SObj [SObj [] [] [] [] None (Some (SRef 2)) false] [] [] [] None None false in
  let Plain := SObj [] [] [] [] None None false in
  reach [Holder; Plain; Plain; Plain] [[SRef 0]] = ([0; 2]%N, true)
  /\ reach [Holder; Plain; Plain; Plain] [[SRef 0]; [SObj [] [] [] [] (Some (SRef 1)) None false]] = ([0; 1; 2]%N, true).
Proof. vm_compute. split; reflexivity. Qed.

(* tie of Model/Dedup.v to the source (Gen/Dedup.v is regenerated from postprocess/response_enum.rs on every run and
   fails closed): the indices are a set walked highest first, the canonical member is the minimum by (name length,
   name), groups of one are left alone — which is what dedup_remove / better / doomed compute *)
Example C07_dedup_shape_from_source :
  dedup_removal_order = "distinct indices, highest first"%string
  /\ dedup_canonical_order = ["name length"; "name"]%string
  /\ dedup_signature_parts = ["status_code"; "variant_name"; "sorted (category, schema type text)"]%string
  /\ dedup_min_group = 2
  /\ doomed [(0, "A"%string)] = [] /\ better (0, "Zz"%string) (1, "Aaa"%string) = true /\ better (0, "Ab"%string) (1, "Aa"%string) = false.
Proof. vm_compute. repeat split; reflexivity. Qed.

(* non-vacuity of the de-duplication theorems: two groups listed low-index group last *)
Example C07_dedup_nonvacuous :
  dedup_remove [4; 1; 4]%nat [10; 11; 12; 13; 14]%N = [10; 12; 13]%N
  /\ canonical [(2, "PeekQueueResponse"); (5, "PeekTailResponse"); (7, "PeekResponse")]%nat%string = Some (7, "PeekResponse"%string)
  /\ doomed [(2, "PeekQueueResponse"); (5, "PeekTailResponse"); (7, "PeekResponse")]%nat%string = [(2, "PeekQueueResponse"); (5, "PeekTailResponse")]%nat%string.
Proof. vm_compute. repeat split; reflexivity. Qed.

Print Assumptions C07_dedup_removes_exactly.
Print Assumptions C07_dedup_canonical_kept.
Print Assumptions C07_dedup_unordered_removal_refuted.
Print Assumptions C07_closed.
Print Assumptions C07_operation_refs.
Print Assumptions C07_minimal.
Print Assumptions C07_selection_monotone.
Print Assumptions C07_fuel_suffices.
