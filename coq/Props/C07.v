(* C07 — output is closed under references for every selection of operations; default scoping is minimal. *)
From Coq Require Import Relations List Bool NArith.
From OAS Require Import Model.Boxing Proof.Boxing.
Import ListNotations.

(* closure: whatever the selection, an emitted schema type (a member of the expanded set) only mentions schema
   types of the expanded set — provided every mention of the emitted item follows recorded dependencies (tied by
   correspondence: mentions may pass through flattened allOf parents, hence the reflexive-transitive closure) *)
Theorem C07_closed : forall (ss : list sch) (ops : list op) (mentions : N -> N -> Prop),
  (forall a b, mentions a b -> clos_refl_trans N (edge (deps ss)) a b) ->
  forall a b, In a (fst (reach ss ops)) -> mentions a b -> In b (fst (reach ss ops)).
Proof. intros ss ops m Hm a b Ha Hab. eapply reach_closed; eauto. apply reach_always_closed. Qed.

(* every schema an operation's own parameter / body / response schemas refer to is in the expanded set *)
Theorem C07_operation_refs : forall ss ops x, In x (seeds (build_fp ss) ops) -> In x (fst (reach ss ops)).
Proof. exact reach_seeds. Qed.

(* minimality: every member of the expanded set is transitively used by some selected operation *)
Theorem C07_minimal : forall ss ops x, In x (fst (reach ss ops)) ->
  exists s, In s (seeds (build_fp ss) ops) /\ clos_refl_trans N (edge (deps ss)) s x.
Proof. exact reach_minimal. Qed.

(* selecting fewer operations never adds a type *)
Theorem C07_selection_monotone : forall ss ops ops', incl ops ops' ->
  incl (fst (reach ss ops)) (fst (reach ss ops')).
Proof. intros ss ops ops' H. apply reach_monotone; [exact H | apply reach_always_closed]. Qed.

(* the saturation that computes the expanded set always closes within its fuel (|edges| rounds) *)
Theorem C07_fuel_suffices : forall ss ops, snd (reach ss ops) = true.
Proof. exact reach_always_closed. Qed.

Check C07_closed : forall (ss : list sch) (ops : list op) (mentions : N -> N -> Prop),
  (forall a b, mentions a b -> clos_refl_trans N (edge (deps ss)) a b) ->
  forall a b, In a (fst (reach ss ops)) -> mentions a b -> In b (fst (reach ss ops)).
Check C07_operation_refs : forall ss ops x, In x (seeds (build_fp ss) ops) -> In x (fst (reach ss ops)).
Check C07_minimal : forall ss ops x, In x (fst (reach ss ops)) ->
  exists s, In s (seeds (build_fp ss) ops) /\ clos_refl_trans N (edge (deps ss)) s x.
Check C07_selection_monotone : forall ss ops ops', incl ops ops' -> incl (fst (reach ss ops)) (fst (reach ss ops')).
Check C07_fuel_suffices : forall ss ops, snd (reach ss ops) = true.

(* non-vacuity: Holder{t: map<Tgt>} Other{} Tgt{} Unused{}; one operation returning Holder *)
Example C07_nonvacuous :
  let Holder := SObj [SObj [] [] [] [] None (Some (SRef 2)) false] [] [] [] None None false in
  let Plain := SObj [] [] [] [] None None false in
  reach [Holder; Plain; Plain; Plain] [[SRef 0]] = ([0; 2]%N, true)
  /\ reach [Holder; Plain; Plain; Plain] [[SRef 0]; [SObj [] [] [] [] (Some (SRef 1)) None false]] = ([0; 1; 2]%N, true).
Proof. vm_compute. split; reflexivity. Qed.

Print Assumptions C07_closed.
Print Assumptions C07_operation_refs.
Print Assumptions C07_minimal.
Print Assumptions C07_selection_monotone.
Print Assumptions C07_fuel_suffices.
