(* C02 — generated schema types are faithful JSON codecs (tier A fragment).  Statements only. *)
From Coq Require Import ZArith.
From OAS Require Import Lib.Str Model.Codec Proof.Codec.
Local Open Scope list_scope.

(* every document valid against the schema is accepted by the generated type *)
Theorem C02_accepts : forall s j, valid s j = true -> exists v, dec s j = Some v.
Proof. exact accepts. Qed.

(* re-serialising the decoded value yields a document that is valid again and carries the same value under
   the same wire name for every declared member and array element (absent = null for optional members) —
   outside the recorded class "a member that is required and nullable" *)
Theorem C02_roundtrip : forall s j v,
  wf_schema s = true -> no_req_nullable s = true -> dec s j = Some v ->
  valid s (enc v) = true /\ wire_eq s j (enc v) = true.
Proof. exact roundtrip. Qed.

(* shape violations are rejected rather than coerced *)
Theorem C02_rejects_missing_required : forall fs closed members f,
  In f fs -> freq f = true -> fnull f = false -> jassoc (fname f) members = None ->
  dec (SObj fs closed) (JObj members) = None.
Proof. exact rejects_missing_required. Qed.
Theorem C02_rejects_unknown_member : forall fs members k x,
  In (k, x) members -> (forall f, In f fs -> fname f <> k) -> dec (SObj fs true) (JObj members) = None.
Proof. exact rejects_unknown_member. Qed.
Theorem C02_rejects_wrong_member_type : forall fs closed members f x,
  In f fs -> jassoc (fname f) members = Some x -> x <> JNull -> dec (fsch f) x = None ->
  dec (SObj fs closed) (JObj members) = None.
Proof. exact rejects_wrong_member_type. Qed.

Check C02_accepts : forall s j, valid s j = true -> exists v, dec s j = Some v.
Check C02_roundtrip : forall s j v, wf_schema s = true -> no_req_nullable s = true -> dec s j = Some v ->
  valid s (enc v) = true /\ wire_eq s j (enc v) = true.

(* ---- F21: a required + nullable member is Option<T> without default: a document that misses it is accepted,
   and a null value is dropped on re-encoding, giving a document that is no longer valid *)
Definition s21 : schema := SObj [Field "a" true true SStr] false.
Theorem C02_refuted_required_nullable :
  valid s21 (JObj []) = false /\ dec s21 (JObj []) <> None /\
  valid s21 (JObj [("a", JNull)]) = true /\
  option_map (fun v => valid s21 (enc v)) (dec s21 (JObj [("a", JNull)])) = Some false.
Proof. vm_compute. split; [reflexivity|]. split; [discriminate|]. split; reflexivity. Qed.

Definition demo : schema :=
  SObj [Field "id" true false SInt; Field "name" false true SStr; Field "tags" false true (SArr SStr);
        Field "owner" false false (SObj [Field "k" true false SBool] true)] false.
Definition doc : json :=
  JObj [("name", JNull); ("id", JInt 7); ("extra", JStr "x"); ("owner", JObj [("k", JBool true)]); ("tags", JArr [JStr "a"; JStr "b"])].
Example C02_nonvacuous :
  wf_schema demo = true /\ no_req_nullable demo = true /\ valid demo doc = true /\
  option_map enc (dec demo doc) = Some (JObj [("id", JInt 7); ("tags", JArr [JStr "a"; JStr "b"]); ("owner", JObj [("k", JBool true)])]) /\
  dec demo (JObj [("id", JStr "7")]) = None.
Proof. vm_compute. repeat split; reflexivity. Qed.

Print Assumptions C02_accepts.
Print Assumptions C02_roundtrip.
Print Assumptions C02_rejects_missing_required.
Print Assumptions C02_rejects_unknown_member.
Print Assumptions C02_rejects_wrong_member_type.
