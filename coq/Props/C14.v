(* C14 — discriminated unions dispatch by tag (PARTIAL: the dispatch table; decoding / encoding of the variant
   payloads and the written tag are arena observations). *)
From Coq Require Import List Bool String.
From OAS Require Import Lib.Str Model.Discrim Proof.Discrim.
Import ListNotations.
Local Open Scope string_scope.
Local Open Scope list_scope.

(* base schema with a mapping: every mapped tag of a reachable child selects exactly that child *)
Theorem C14_base_dispatch : forall m reachable base t s,
  functional m -> In (t, s) m -> reachable s = true ->
  dispatch (base_enum m reachable base) (Some t) = Variant s.
Proof.
  intros m rc base t s F H R. unfold dispatch, base_enum. cbn [arms].
  rewrite (find_arm_group (filter (fun e => rc (snd e)) m) t s); [reflexivity | apply functional_filter; exact F |].
  apply filter_In. split; [exact H | exact R].
Qed.

(* an unmapped tag (or one whose child is filtered out) is rejected; a missing / non-string tag goes to the base *)
Theorem C14_base_unmapped : forall m reachable base t,
  (forall s, In (t, s) m -> reachable s = false) ->
  dispatch (base_enum m reachable base) (Some t) = ErrUnknown.
Proof.
  intros m rc base t H. unfold dispatch, base_enum. cbn [arms].
  rewrite find_arm_group_none; [reflexivity|]. intros s Hin. apply filter_In in Hin. destruct Hin as [Hin R].
  cbn [snd] in R. rewrite (H s Hin) in R. discriminate.
Qed.

Theorem C14_base_untagged : forall m reachable base, dispatch (base_enum m reachable base) None = Fallback base.
Proof. reflexivity. Qed.

(* every arm is reachable through each of its tags, and has at least one *)
Theorem C14_members_reachable : forall m reachable base s ts,
  functional m -> In (s, ts) (arms (base_enum m reachable base)) ->
  forall t, In t ts -> dispatch (base_enum m reachable base) (Some t) = Variant s.
Proof.
  intros m rc base s ts F Hin t Ht.
  assert (Hh : holds (group (filter (fun e => rc (snd e)) m)) s t) by (exists ts; auto).
  apply group_holds in Hh. apply filter_In in Hh. destruct Hh as [Hm R]. apply C14_base_dispatch; auto.
Qed.

(* oneOf / anyOf with a discriminator, when upgraded to tag dispatch *)
Theorem C14_union_dispatch : forall members m d t s,
  functional m -> upgrade members m = Some d -> In (t, s) m ->
  dispatch d (Some t) = Variant s /\ dispatch d None = ErrMissing.
Proof.
  intros members m d t s F U H. unfold upgrade in U.
  destruct (nonempty members && nonempty m && forallb (fun e => Str.mem (snd e) members) m) eqn:A; [|discriminate].
  injection U as <-. apply andb_true_iff in A. destruct A as [_ A].
  split; [|reflexivity]. unfold dispatch. cbn [arms]. cbv beta iota.
  rewrite forallb_forall in A. specialize (A (t, s) H). cbn [snd] in A. apply mem_In in A.
  destruct (find_arm (filter (fun a => Str.mem (fst a) members) (group m)) t) as [s1|] eqn:E.
  - apply find_arm_some in E. apply filter_holds in E. destruct E as [E _]. apply group_holds in E.
    f_equal. eapply F; eauto.
  - exfalso. apply (find_arm_none _ _ E s). apply filter_holds. split; [apply group_holds; exact H | exact A].
Qed.

(* implicit mapping (const-valued tag properties): when synthesis succeeds, the mapping is functional, EVERY member
   of the union gets a tag (so, by C14_union_dispatch, every member is reachable), and each tag is that member's const *)
Theorem C14_const_mapping : forall members consts m, synth members consts = Some m ->
  functional m /\ (forall s, In s members -> exists t, In (t, s) m)
  /\ (forall t s, In (t, s) m -> In s members /\ consts s = Some (Some t)).
Proof. exact synth_spec. Qed.

(* ... but a member of the union that the mapping does not mention gets no arm at all: it is dropped from the
   generated enum (known finding; the witness is the replay) *)
Theorem C14_unmapped_member_dropped_refuted : exists members m d v,
  upgrade members m = Some d /\ In v members /\ forall t, dispatch d (Some t) <> Variant v.
Proof.
  exists ["Circle"; "Square"; "Tri"], [("circle", "Circle"); ("sq", "Square")].
  eexists. exists "Tri". split; [vm_compute; reflexivity|]. split; [cbn; tauto|].
  intros t. unfold dispatch. cbn [arms find_arm].
  destruct (Str.mem t ["circle"]); [discriminate|]. destruct (Str.mem t ["sq"]); discriminate.
Qed.

Check C14_base_dispatch : forall m reachable base t s,
  functional m -> In (t, s) m -> reachable s = true -> dispatch (base_enum m reachable base) (Some t) = Variant s.
Check C14_base_unmapped : forall m reachable base t,
  (forall s, In (t, s) m -> reachable s = false) -> dispatch (base_enum m reachable base) (Some t) = ErrUnknown.
Check C14_union_dispatch : forall members m d t s,
  functional m -> upgrade members m = Some d -> In (t, s) m ->
  dispatch d (Some t) = Variant s /\ dispatch d None = ErrMissing.

(* non-vacuity: Pet {dog, hound -> Dog; cat -> Cat} *)
Example C14_nonvacuous :
  let m := [("cat", "Cat"); ("dog", "Dog"); ("hound", "Dog")] in
  arms (base_enum m (fun _ => true) "PetBase") = [("Cat", ["cat"]); ("Dog", ["dog"; "hound"])]
  /\ dispatch (base_enum m (fun _ => true) "PetBase") (Some "hound") = Variant "Dog"
  /\ dispatch (base_enum m (fun s => negb (String.eqb s "Dog")) "PetBase") (Some "hound") = ErrUnknown
  /\ dispatch (base_enum m (fun _ => true) "PetBase") (Some "bird") = ErrUnknown
  /\ functional m.
Proof.
  cbv zeta. repeat split; try (vm_compute; reflexivity).
  apply functionalb_sound. vm_compute. reflexivity.
Qed.

Print Assumptions C14_base_dispatch.
Print Assumptions C14_base_unmapped.
Print Assumptions C14_members_reachable.
Print Assumptions C14_union_dispatch.
Print Assumptions C14_const_mapping.
Print Assumptions C14_unmapped_member_dropped_refuted.
