(* C05 — generated server routes, extracts and responds as the spec says.  Statements only. *)
From Coq Require Import Permutation.
From OAS Require Import Lib.Str Gen.StatusTable Gen.Methods Model.HttpConsts Model.Responses Model.Path Model.Server Proof.Server.
Local Open Scope list_scope.

(* one (axum pattern, routing function, handler) entry per operation and nothing else — for every
   operation list (any number of operations per path, any order) *)
Theorem C05_route_table : forall ops,
  Permutation (flat_routes (route_table ops))
              (map (fun o => (so_path o, route_fn (so_method o), so_handler o)) ops).
Proof. exact route_table_exact. Qed.

(* the routing function is the method's own (regenerated table HttpMethodFragment) *)
Theorem C05_route_fn : forallb (fun m => String.eqb (route_fn m) (lower m))
  ["GET"; "PUT"; "POST"; "DELETE"; "OPTIONS"; "HEAD"; "PATCH"; "TRACE"] = true.
Proof. exact route_fn_faithful. Qed.

(* every response variant is sent with a status covered by the token it was declared for
   (all 66 unit tokens by computation over the regenerated tables; unlisted exact codes for all n) *)
Theorem C05_status_units : forallb status_roundtrip tok_units = true.
Proof. exact status_roundtrip_units. Qed.
Theorem C05_status_unknown : forall n, (100 <= n <= 999)%N -> status_roundtrip (Unknown n) = true.
Proof. exact status_roundtrip_unknown. Qed.

(* a handler error becomes a 500 (shape captured by the translator) *)
Theorem C05_error_is_500 : http_const handler_error_status = Some 500%N.
Proof. reflexivity. Qed.

(* axum patterns: literal parts and parameter names of every accepted template segment are brace-free,
   so the pattern contains only `{name}` placeholders *)
Theorem C05_pattern_wellformed : forall seg l, tokenize seg = Some l -> parts_ok l = true.
Proof. exact tokenize_brace_free. Qed.

(* the payload encoder follows the declared media type (since fix: commit for payload-always-json): a payload is written
   raw only when the variant's first media type is a text type and the payload a String, or a binary type and the
   payload bytes; a variant declared with a JSON media type is always sent as axum::Json *)
Theorem C05_media_by_category : forall cat ty plain,
  (payload_encoder cat ty plain = "raw" ->
     plain = true /\ ((cat = "Text" /\ ty = "String") \/ (cat = "Binary" /\ ty = "Bytes")))
  /\ (payload_encoder cat ty plain <> "raw" -> payload_encoder cat ty plain = "axum::Json")
  /\ payload_encoder "Json" ty plain = "axum::Json".
Proof.
  intros cat ty plain. unfold payload_encoder, server_raw_payload, server_payload_encoder. cbn [existsb fst snd].
  repeat split.
  - destruct plain; [reflexivity|]. cbn [andb]. discriminate.
  - destruct plain; cbn [andb] in H; [|discriminate].
    destruct (String.eqb "Text" cat) eqn:E1; destruct (String.eqb "String" ty) eqn:E2;
    destruct (String.eqb "Binary" cat) eqn:E3; destruct (String.eqb "Bytes" ty) eqn:E4; cbn [andb orb] in H; try discriminate;
    repeat match goal with Hq : String.eqb _ _ = true |- _ => apply String.eqb_eq in Hq end; subst; auto.
  - intros H. destruct (plain && _); [contradiction H; reflexivity | reflexivity].
  - destruct plain; reflexivity.
Qed.

Example C05_nonvacuous :
  flat_routes (route_table [ {| so_path := "/pets/{id}"; so_method := "GET"; so_handler := "show" |};
                             {| so_path := "/pets"; so_method := "POST"; so_handler := "create" |};
                             {| so_path := "/pets/{id}"; so_method := "DELETE"; so_handler := "remove" |} ])
  = [("/pets", "post", "create"); ("/pets/{id}", "get", "show"); ("/pets/{id}", "delete", "remove")]
  /\ (match parse_path "/pets/{pet-id}/x{n}y?z=1" with
      | Some segs => axum_path (fun n => if String.eqb n "pet-id" then "pet_id" else n) segs
      | None => "" end) = "/pets/{pet_id}/x{n}y"
  /\ server_status Redirection3XX = Some 300%N.
Proof. vm_compute. repeat split; reflexivity. Qed.

Print Assumptions C05_route_table.
Print Assumptions C05_status_units.
Print Assumptions C05_status_unknown.
Print Assumptions C05_pattern_wellformed.
Print Assumptions C05_media_by_category.
