(* C03 — the generated client emits exactly the request the operation describes (PARTIAL: the encodings; the
   request actually put on the wire is captured in the arena and judged with the decoder below). *)
From Coq Require Import List Bool NArith Lia.
From Coq Require Import String.
From OAS Require Import Model.Wire Proof.Wire Gen.Params Model.ParamMerge Proof.ParamMerge.
Import ListNotations.
Local Open Scope N_scope.

(* For EVERY byte string: a path-segment value encoded with the PATH_SEGMENT set decodes to the original value, and
   stays ONE segment (no '/', '?' or '#'), so the template's shape is preserved whatever the value contains. *)
Theorem C03_segment_roundtrip : forall bs, (forall b, In b bs -> b < 256) -> pct_decode (enc_segment bs) = bs.
Proof. exact decode_encode. Qed.

Theorem C03_segment_stays_one : forall bs, (forall b, In b bs -> b < 256) -> no_delims (enc_segment bs) = true.
Proof. exact encode_no_delims. Qed.

(* array parameters: exploded -> one pair per value under the exact name; otherwise one pair whose value is the
   values joined by the style's delimiter; absent -> nothing *)
Theorem C03_layout_exploded : forall st name vs, layout st true name (Some vs) = map (fun v => (name, v)) vs.
Proof. reflexivity. Qed.

Theorem C03_layout_joined : forall st name vs,
  vs <> [] -> (forall v, In v vs -> forallb (fun c => negb (N.eqb c (delimiter st))) v = true) ->
  exists joined, layout st false name (Some vs) = [(name, joined)] /\ split (delimiter st) joined = vs.
Proof.
  intros st name vs Hne Hall. exists (join (delimiter st) vs). split; [reflexivity|]. apply split_join; assumption.
Qed.

Theorem C03_layout_absent : forall st e name, layout st e name None = [].
Proof. reflexivity. Qed.

(* a value that contains the delimiter cannot be told apart after joining (so such values are outside what the
   non-exploded styles can carry; the harness does not use them as probes) *)
Theorem C03_joined_ambiguous_refuted : exists st vs vs', vs <> vs' /\ join (delimiter st) vs = join (delimiter st) vs'.
Proof. exists Form, [[97; 44; 98]], [[97]; [98]]. split; [discriminate | reflexivity]. Qed.

Check C03_segment_roundtrip : forall bs, (forall b, In b bs -> b < 256) -> pct_decode (enc_segment bs) = bs.
Check C03_segment_stays_one : forall bs, (forall b, In b bs -> b < 256) -> no_delims (enc_segment bs) = true.
Check C03_layout_joined : forall st name vs,
  vs <> [] -> (forall v, In v vs -> forallb (fun c => negb (N.eqb c (delimiter st))) v = true) ->
  exists joined, layout st false name (Some vs) = [(name, joined)] /\ split (delimiter st) joined = vs.

(* tie to the source: Gen/Params.v is regenerated on every run from converter/parameters.rs (default of `explode`) and
   ast/fields.rs (separator per style); the translator fails closed on any other shape.  The model's reading:
   explode defaults to true exactly for style form (or no style), and the delimiters are those of [delimiter]. *)
Definition explode_default (st : option style) : bool := match st with None | Some Form => true | _ => false end.
Example C03_explode_default_from_source :
  explode_default_true_styles = ["None"; "Form"]%string
  /\ separator_of_style = [("SpaceDelimited", "Space"); ("PipeDelimited", "Pipe")]%string /\ separator_default = "Comma"%string
  /\ explode_default None = true /\ explode_default (Some Form) = true
  /\ explode_default (Some SpaceDelimited) = false /\ explode_default (Some PipeDelimited) = false
  /\ delimiter SpaceDelimited = 32 /\ delimiter PipeDelimited = 124 /\ delimiter Form = 44.
Proof. vm_compute. repeat split; reflexivity. Qed.

(* non-vacuity: "a/b c" + U+00E9 *)
Example C03_nonvacuous :
  enc_segment [97; 47; 98; 32; 99; 195; 169] = [97; 37; 50; 70; 98; 37; 50; 48; 99; 37; 67; 51; 37; 65; 57]
  /\ pct_decode [97; 37; 50; 70; 98; 37; 50; 48; 99; 37; 67; 51; 37; 65; 57] = [97; 47; 98; 32; 99; 195; 169]
  /\ pct_decode [37; 50; 102; 37; 122; 122; 37] = [47; 37; 122; 122; 37]
  /\ layout PipeDelimited false [116] (Some [[97]; [98]]) = [([116], [97; 124; 98])]
  /\ split 124 [97; 124; 98] = [[97]; [98]].
Proof. vm_compute. repeat split; reflexivity. Qed.

(* ---- which parameter declarations an operation has (Model/ParamMerge.v, converter/parameters.rs collect_parameters):
   the path item's parameters, each replaced by an operation-level parameter of the same (location, name). *)
(* exact membership: a declaration survives iff it is the last operation-level declaration of its key, or a
   path-item declaration whose key no operation-level parameter has *)
Theorem C03_param_merge_spec : forall item ops q,
  In q (collect_parameters item ops) <->
  (exists pre post, ops = (pre ++ q :: post)%list /\ has_key q post = false) \/ (In q item /\ has_key q ops = false).
Proof. exact collect_spec. Qed.
(* no (location, name) is declared twice in the result when the path item's own list has no duplicate *)
Theorem C03_param_merge_unique : forall item ops, keys_nodup item = true -> keys_nodup (collect_parameters item ops) = true.
Proof. exact collect_nodup. Qed.
(* every operation-level parameter is kept; a path-item parameter with the same key is not (unless it is that very value) *)
Theorem C03_param_op_level_wins : forall item ops p, In p ops -> keys_nodup ops = true -> In p (collect_parameters item ops).
Proof. exact op_level_wins. Qed.
Theorem C03_param_item_level_overridden : forall item ops q p,
  In q item -> In p ops -> same_key q p = true -> In q (collect_parameters item ops) -> In q ops.
Proof. exact item_level_overridden. Qed.

Check C03_param_merge_spec : forall item ops q,
  In q (collect_parameters item ops) <->
  (exists pre post, ops = (pre ++ q :: post)%list /\ has_key q post = false) \/ (In q item /\ has_key q ops = false).

(* tie to the source: Gen/Params.v (regenerated, fails closed) records the shape of collect_parameters that add_param /
   collect_parameters mirror *)
Example C03_param_merge_from_source :
  param_merge_rule = ["path item first"; "operation level replaces same (location, name)"; "appended"]%string.
Proof. reflexivity. Qed.

Example C03_param_merge_nonvacuous :
  let P := fun l n k => {| p_loc := l; p_name := n; p_payload := k |} in
  map p_payload (collect_parameters [P 1%N "shared" 1%N; P 1%N "over" 2%N; P 2%N "over" 3%N] [P 1%N "over" 4%N; P 1%N "s" 5%N])
  = [1; 3; 4; 5]%N.
Proof. vm_compute. reflexivity. Qed.

Print Assumptions C03_segment_roundtrip.
Print Assumptions C03_segment_stays_one.
Print Assumptions C03_layout_joined.
Print Assumptions C03_joined_ambiguous_refuted.
Print Assumptions C03_param_merge_spec.
Print Assumptions C03_param_merge_unique.
Print Assumptions C03_param_op_level_wins.
Print Assumptions C03_param_item_level_overridden.
