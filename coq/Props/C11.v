(* C11 — generation is deterministic and independent of how the spec is written down (partial).
   Proved: the parse step erases key order (BTreeMap building is permutation-invariant) and the consumers
   of hash-container enumerations are order-irrelevant.  Clock, environment, terminal and the real hash
   seeds are outside any model: they are covered by repeated-process runs only. *)
From Coq Require Import Permutation.
From Coq Require Import ZArith.
From OAS Require Import Lib.Str Model.Order Proof.Order Model.Canon Proof.CanonOrder Proof.CanonDeep.
Local Open Scope list_scope.

(* every permutation of the members of an object (distinct keys) parses to the same map — for every
   object, at every nesting level, of any size *)
Theorem C11_btree_perm : forall (A : Type) (l1 l2 : list (string * A)),
  Permutation l1 l2 -> NoDup (map fst l1) -> build l1 = build l2.
Proof. exact build_perm. Qed.

(* the map is iterated in byte-lexicographic key order *)
Theorem C11_btree_sorted : forall (A : Type) (l : list (string * A)), sorted A (build l).
Proof. exact build_sorted. Qed.

(* the one HashSet enumeration that reaches generated state (extract_all_response_types -> mark_response_iter)
   is order-irrelevant *)
Theorem C11_marking_order_irrelevant : forall names1 names2 m,
  Permutation names1 names2 -> forall x, mark names1 m x = mark names2 m x.
Proof. exact marking_order_irrelevant. Qed.

(* the canonical form under which inline schemas are cached and named (CanonicalSchema, Model/Canon.v) is the same for
   every order of the members of an object with distinctly named members: the cache key, hence the sharing and naming
   decisions, do not depend on how the document orders its keys *)
Theorem C11_canonical_member_order : forall l l', Permutation l l' -> NoDup (map fst l) -> norm (JO l) = norm (JO l').
Proof. exact norm_member_order. Qed.

(* ... and at every depth: two documents that are the same tree up to the order of object members anywhere (inside
   nested objects, inside arrays) have the same canonical form, provided member names are distinct in every object *)
Theorem C11_canonical_order_deep : forall a b, mperm a b -> wf a -> norm a = norm b.
Proof. exact norm_mperm. Qed.

Check C11_canonical_order_deep : forall a b, mperm a b -> wf a -> norm a = norm b.
Check C11_canonical_member_order : forall l l', Permutation l l' -> NoDup (map fst l) -> norm (JO l) = norm (JO l').
Check C11_btree_perm : forall (A : Type) (l1 l2 : list (string * A)),
  Permutation l1 l2 -> NoDup (map fst l1) -> build l1 = build l2.

Example C11_nonvacuous :
  build [("b", 1); ("a", 2); ("c", 3)] = [("a", 2); ("b", 1); ("c", 3)] /\
  build [("c", 3); ("a", 2); ("b", 1)] = build [("b", 1); ("a", 2); ("c", 3)] /\
  build [("200", 0); ("2XX", 1); ("default", 2); ("404", 3)] = [("200", 0); ("2XX", 1); ("404", 3); ("default", 2)].
Proof. vm_compute. repeat split; reflexivity. Qed.

Example C11_canonical_nonvacuous :
  norm (JO [("type", JS "object"); ("properties", JO [("b", JO [("type", JS "string")]); ("a", JO [("maxLength", JN 3%Z); ("type", JS "string")])])])
  = norm (JO [("properties", JO [("a", JO [("type", JS "string"); ("maxLength", JN 3%Z)]); ("b", JO [("type", JS "string")])]); ("type", JS "object")]).
Proof. vm_compute. reflexivity. Qed.

(* the deep statement is not vacuous: a member order changed inside an object inside an array inside an object *)
Example C11_canonical_deep_nonvacuous :
  let inner := [("sku", JS "s"); ("qty", JN 1%Z)] in
  let inner' := [("qty", JN 1%Z); ("sku", JS "s")] in
  mperm (JO [("example", JA [JO inner; JS "x"]); ("type", JS "array")]) (JO [("type", JS "array"); ("example", JA [JO inner'; JS "x"])])
  /\ wf (JO [("example", JA [JO inner; JS "x"]); ("type", JS "array")]).
Proof.
  cbv zeta. split.
  - eapply (MP_obj _ _ [("example", JA [JO [("qty", JN 1%Z); ("sku", JS "s")]; JS "x"]); ("type", JS "array")]).
    + constructor; [split; [reflexivity|]|constructor; [split; [reflexivity | apply MP_same]|constructor]].
      apply MP_arr. constructor; [|constructor; [apply MP_same | constructor]].
      eapply (MP_obj _ _ [("sku", JS "s"); ("qty", JN 1%Z)]).
      * constructor; [split; [reflexivity | apply MP_same]|constructor; [split; [reflexivity | apply MP_same]|constructor]].
      * apply perm_swap.
    + apply perm_swap.
  - constructor.
    + cbn [map fst]. constructor; [intros [H|[]]; discriminate|constructor; [intros []|constructor]].
    + repeat constructor; cbn [map fst snd]; try (intros [H|[]]; discriminate); try (intros []).
Qed.

Print Assumptions C11_canonical_order_deep.
Print Assumptions C11_canonical_member_order.
Print Assumptions C11_btree_perm.
Print Assumptions C11_btree_sorted.
Print Assumptions C11_marking_order_irrelevant.
