(* C19 — text from the spec never turns into code (template-splice clause + inventory).  Statements only. *)
From OAS Require Import Lib.Str Model.Path Model.Splice Proof.Splice Proof.Server Model.DocLines Proof.DocLines Proof.DocTokens.
Local Open Scope list_scope.

(* Display of value enums: whatever the enum value contains, the emitted template prints exactly the value *)
Theorem C19_display_escaped : forall v, fmt_render (escape v) [] = Some v.
Proof. exact escape_renders. Qed.

(* what the escaping is for (the pre-fix behaviour, F3) *)
Theorem C19_display_unescaped_refuted : fmt_render "x{}y" [] = None /\ fmt_render "{{" [] = Some "{".
Proof. exact unescaped_refuted. Qed.

(* mixed path segments: for every template segment accepted by the tokenizer, literal parts render verbatim
   and each `{}` takes exactly one parameter value *)
Theorem C19_mixed_path : forall seg ps vals, tokenize seg = Some ps ->
  fmt_render (mixed_format ps) vals = subst_parts ps vals.
Proof. intros seg ps vals H. apply mixed_format_renders. eapply tokenize_brace_free. exact H. Qed.

(* doc comments: whatever CR / LF / CRLF mixture a description, summary, title or version carries, every
   emitted doc line is free of line breaks (so each `#[doc = ..]` prints as exactly one `///` line and no bare
   CR reaches rustc), and the lines, concatenated, are the text with nothing but its line breaks removed *)
Theorem C19_doc_lines_single : forall text, Forall (fun l => no_break l = true) (rust_lines (normalize_line_breaks text)).
Proof. exact rust_lines_normalized_no_break. Qed.

Theorem C19_doc_phys_lines_single : forall stored, Forall (fun l => no_break l = true) (phys_lines stored).
Proof. exact phys_lines_no_break. Qed.

Theorem C19_doc_phys_lines_content : forall stored, sconcat (phys_lines stored) = sfilter (fun c => negb (is_break c)) stored.
Proof. exact phys_lines_content. Qed.

(* Documentation::to_tokens for ANY stored lines (summary, description, `* Path:` line with the spec's path,
   "<status>: <response description>", pushed lines): every emitted `#[doc]` line is free of line breaks and
   the emitted lines, concatenated, are the stored text with nothing but line breaks removed *)
Theorem C19_doc_tokens_single : forall stored, Forall (fun l => no_break l = true) (flat_map phys_lines stored).
Proof. exact emitted_no_break. Qed.

Theorem C19_doc_tokens_content : forall stored,
  sconcat (flat_map phys_lines stored) = sfilter (fun c => negb (is_break c)) (sconcat stored).
Proof. exact emitted_content. Qed.

Check C19_doc_tokens_single : forall stored, Forall (fun l => no_break l = true) (flat_map phys_lines stored).

Check C19_doc_lines_single : forall text, Forall (fun l => no_break l = true) (rust_lines (normalize_line_breaks text)).
Check C19_doc_phys_lines_content : forall stored, sconcat (phys_lines stored) = sfilter (fun c => negb (is_break c)) stored.

(* what the normalisation is for (the pre-fix behaviour): `str::lines` alone leaves a lone CR inside a line *)
Theorem C19_doc_lines_unnormalized_refuted : exists text, ~ Forall (fun l => no_break l = true) (rust_lines text).
Proof. exists (String "a" (String CR (String "b" EmptyString))). intro H. inversion H as [|? ? H1 _]. vm_compute in H1. discriminate. Qed.

Example C19_doc_nonvacuous :
  phys_lines (String "a" (String CR (String LF (String CR (String "b" (String LF EmptyString)))))) = ["a"; ""; "b"]
  /\ phys_lines "" = [""] /\ rust_lines (normalize_line_breaks "") = [].
Proof. vm_compute. repeat split; reflexivity. Qed.

Check C19_display_escaped : forall v, fmt_render (escape v) [] = Some v.

Example C19_nonvacuous :
  escape "a{b}}c" = "a{{b}}}}c" /\
  option_map (fun ps => (mixed_format ps, subst_parts ps ["7"; "x"])) (tokenize "v{n}-{m}.json") = Some ("v{}-{}.json", Some "v7-x.json").
Proof. vm_compute. split; reflexivity. Qed.

Print Assumptions C19_display_escaped.
Print Assumptions C19_mixed_path.
Print Assumptions C19_doc_lines_single.
Print Assumptions C19_doc_phys_lines_single.
Print Assumptions C19_doc_phys_lines_content.
Print Assumptions C19_doc_tokens_single.
Print Assumptions C19_doc_tokens_content.
