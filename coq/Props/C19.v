(* C19 — text from the spec never turns into code (template-splice clause + inventory).  Statements only. *)
From OAS Require Import Lib.Str Model.Path Model.Splice Proof.Splice Proof.Server.
Local Open Scope list_scope.

(* Display of value enums: whatever the enum value contains, the emitted template prints exactly the value *)
Theorem C19_display_escaped : forall v, fmt_render (escape v) [] = Some v.
Proof. exact escape_renders. Qed.

(* what the escaping is for (the pre-fix behaviour, F3) *)
Theorem C19_display_unescaped_refuted : fmt_render "x{}y" [] = None /\ fmt_render "{{" [] = Some "{".
Proof. exact unescaped_refuted. Qed.

(* mixed path segments: for every template segment accepted by the tokenizer, literal parts render verbatim
   and each `{}` takes exactly one parameter value *)
Theorem C19_mixed_path : forall seg ps vals, tokenize seg = Some ps ->
  fmt_render (mixed_format ps) vals = subst_parts ps vals.
Proof. intros seg ps vals H. apply mixed_format_renders. eapply tokenize_brace_free. exact H. Qed.

Check C19_display_escaped : forall v, fmt_render (escape v) [] = Some v.

Example C19_nonvacuous :
  escape "a{b}}c" = "a{{b}}}}c" /\
  option_map (fun ps => (mixed_format ps, subst_parts ps ["7"; "x"])) (tokenize "v{n}-{m}.json") = Some ("v{}-{}.json", Some "v7-x.json").
Proof. vm_compute. split; reflexivity. Qed.

Print Assumptions C19_display_escaped.
Print Assumptions C19_mixed_path.
