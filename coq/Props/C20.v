(* C20 — the SSE stream yields every event exactly once, in order, however bytes arrive.
   Statements only; proofs in Proof/Sse*.v. *)
From Coq Require Import Ascii List NArith Bool Lia.
From OAS Require Import Model.Sse Proof.SseLine Proof.SseUtf8 Proof.SsePoll.
Import ListNotations.

(* The streaming line parser never revises a decision: once a line is complete, more input cannot
   change it (all inputs, all continuations). *)
Theorem C20_line_prefix_stable : forall s r l y, line s = LDone r l -> line (s ++ y) = LDone (r ++ y) l.
Proof. exact line_prefix_stable. Qed.

(* Every way of cutting a decoded string into pieces — any number of pieces, empty ones included —
   yields the same events in the same order and leaves the parser in the same state. *)
Theorem C20_string_chunking : forall cs1 cs2,
  concat cs1 = concat cs2 -> feed_all ([], []) cs1 = feed_all ([], []) cs2.
Proof. exact chunking_irrelevant. Qed.

(* Headline: for every well-formed UTF-8 byte stream and every two ways of cutting it into network
   chunks (cuts inside a scalar's encoding, inside CRLF, between field name and value; no bound on
   sizes or counts) the line layer receives the same text and delivers the same events, and no byte
   is left undecoded at the end. *)
Theorem C20_chunk_independent : forall cs1 cs2,
  concat cs1 = concat cs2 -> well_formed (concat cs1) = true ->
  events_of_chunks cs1 = events_of_chunks cs2.
Proof. exact events_chunk_independent. Qed.

Theorem C20_nothing_left_over : forall cs strs p,
  utf8_all [] cs = (strs, p) -> well_formed (concat cs) = true -> p = [] /\ concat strs = concat cs.
Proof. exact utf8_all_wellformed. Qed.

(* whatever the bytes (ill-formed included), the decoder forwards exactly what it received *)
Theorem C20_utf8_conservation : forall p cs strs p',
  utf8_all p cs = (strs, p') ->
  concat strs ++ p' = p ++ concat cs /\ well_formed (concat strs) = true /\ (cs <> [] -> valid_up_to p' = O).
Proof. exact utf8_all_spec. Qed.

(* a not-ready poll is a no-op on every layer *)
Theorem C20_pending_noop : forall f s rest,
  quiescent s -> run_fuel (S f) s (Pending :: rest) = run_fuel f s rest.
Proof. exact run_fuel_pending. Qed.

Check C20_chunk_independent : forall cs1 cs2,
  concat cs1 = concat cs2 -> well_formed (concat cs1) = true -> events_of_chunks cs1 = events_of_chunks cs2.
Check C20_string_chunking : forall cs1 cs2, concat cs1 = concat cs2 -> feed_all ([], []) cs1 = feed_all ([], []) cs2.

(* ---- the two classes on which the unchanged tree violates the property (witnesses, by computation) *)

Definition b (s : list N) : bytes := map ascii_of_N s.
(* "data: 1\n\n" *)
Definition ev1 : bytes := b [100;97;116;97;58;32;49;10;10].

(* F15a: a stream that starts with a UTF-8 BOM panics inside eventsource-stream *)
Theorem C20_refuted_bom : run [Chunk (BOM ++ ev1)] = [Panic].
Proof. vm_compute. reflexivity. Qed.

(* F15b: an event whose closing blank line is a lone CR at the very end of the stream is lost,
   although the HTML standard makes CR a line end *)
Definition ev_cr : bytes := b [100;97;116;97;58;32;49;13;13].
Theorem C20_refuted_trailing_cr : run [Chunk ev_cr] = [] /\ sse_spec ev_cr = [b [49]].
Proof. vm_compute. split; reflexivity. Qed.

(* outside those classes the poll-level machine agrees with the standard's reading on concrete streams:
   three events, CRLF, multi-line data, a comment, a 4-byte scalar cut in the middle *)
Definition demo : bytes :=
  b [100;97;116;97;58;32;49;13;10;13;10; 58;99;10; 100;97;116;97;58;240;159;145;141;10; 100;97;116;97;58;50;10;10; 100;97;116;97;10;10; 105;100;58;55;10;100;97;116;97;58;32;51;10;10].
Example C20_nonvacuous :
  well_formed demo = true /\
  run [Chunk demo] = map Item (sse_spec demo) /\
  run [Chunk (firstn 20 demo); Pending; Chunk (skipn 20 demo)] = run [Chunk demo] /\
  length (sse_spec demo) = 3%nat.
Proof. vm_compute. repeat split; reflexivity. Qed.

Print Assumptions C20_line_prefix_stable.
Print Assumptions C20_string_chunking.
Print Assumptions C20_chunk_independent.
Print Assumptions C20_nothing_left_over.
Print Assumptions C20_utf8_conservation.
Print Assumptions C20_pending_noop.
Print Assumptions C20_refuted_bom.
Print Assumptions C20_refuted_trailing_cr.
