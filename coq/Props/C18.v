(* C18 — presentation flags never change wire behaviour (partial: the factorisation gen = decorate . core is
   established by the exhaustive lattice comparison, not proved). *)
From OAS Require Import Lib.Str Model.Decor.
Local Open Scope list_scope.

Lemma filter_app_builder l b :
  forallb is_builder_attr b = true -> negb (existsb is_builder_attr l) = true ->
  filter (fun a => negb (is_builder_attr a)) (l ++ b) = l.
Proof.
  intros Hb Hl. rewrite filter_app.
  assert (H1 : filter (fun a => negb (is_builder_attr a)) l = l).
  { apply negb_true_iff in Hl. induction l as [|x l IH]; [reflexivity|]. simpl in *.
    apply orb_false_iff in Hl. destruct Hl as [Hx Hl]. rewrite Hx. simpl. f_equal. apply IH. exact Hl. }
  assert (H2 : filter (fun a => negb (is_builder_attr a)) b = []).
  { induction b as [|x b IH]; [reflexivity|]. simpl in *. apply andb_true_iff in Hb. destruct Hb as [Hx Hb].
    rewrite Hx. simpl. apply IH. exact Hb. }
  rewrite H1, H2. apply app_nil_r.
Qed.

(* whatever the flags, erasing the decorations of a decorated core item gives back the (erased) core item:
   two flag settings can only differ in the erased token classes *)
Theorem C18_erase_decorate : forall c battrs i,
  core_item i = true -> (forall m, forallb is_builder_attr (battrs m) = true) ->
  erase (decorate c battrs i) = erase i.
Proof.
  intros c battrs i Hc Hb. unfold core_item in Hc. apply andb_true_iff in Hc. destruct Hc as [Hd Hm].
  unfold erase, decorate. simpl. f_equal.
  - rewrite filter_app. destruct (c_builders c); simpl; rewrite ?app_nil_r; reflexivity.
  - rewrite map_map. apply map_ext_in. intros m Hin. unfold erase_member, decorate_member. simpl. f_equal.
    rewrite forallb_forall in Hm. specialize (Hm m Hin). unfold core_member in Hm.
    destruct (c_builders c).
    + rewrite filter_app_builder; [|apply Hb|exact Hm].
      clear -Hm. apply negb_true_iff in Hm. induction (m_attrs m) as [|x l IH]; [reflexivity|]. simpl in *.
      apply orb_false_iff in Hm. destruct Hm as [Hx Hl]. rewrite Hx. simpl. f_equal. apply IH. exact Hl.
    + rewrite app_nil_r. reflexivity.
Qed.

Corollary C18_settings_agree : forall c1 c2 battrs i,
  core_item i = true -> (forall m, forallb is_builder_attr (battrs m) = true) ->
  erase (decorate c1 battrs i) = erase (decorate c2 battrs i).
Proof. intros. rewrite !C18_erase_decorate; auto. Qed.

(* every decorated item carries exactly the requested visibility *)
Theorem C18_visibility : forall c battrs i,
  i_vis (decorate c battrs i) = c_vis c /\ forall m, In m (i_members (decorate c battrs i)) -> m_vis m = c_vis c.
Proof.
  intros c battrs i. split; [reflexivity|]. intros m Hin. simpl in Hin. apply in_map_iff in Hin.
  destruct Hin as [m0 [<- _]]. reflexivity.
Qed.

Example C18_nonvacuous :
  let i := {| i_vis := VPub; i_derives := ["Debug"; "Serialize"]; i_attrs := ["serde(default)"]; i_name := "Pet";
              i_members := [ {| m_vis := VPub; m_attrs := ["serde(rename=""pet-id"")"]; m_name := "pet_id"; m_ty := "String" |} ] |} in
  core_item i = true /\
  i_derives (decorate {| c_vis := VCrate; c_builders := true |} (fun _ => ["builder(default=1)"]) i) = ["Debug"; "Serialize"; "bon::Builder"] /\
  erase (decorate {| c_vis := VCrate; c_builders := true |} (fun _ => ["builder(default=1)"]) i) = erase i.
Proof. vm_compute. repeat split; reflexivity. Qed.

Print Assumptions C18_erase_decorate.
Print Assumptions C18_settings_agree.
Print Assumptions C18_visibility.
