(* C09 — every spec name becomes a valid, collision-free Rust identifier.  Statements only. *)
From OAS Require Import Lib.Str Gen.Keywords Model.Ident Proof.Ident.
Local Open Scope list_scope.

(* For EVERY name (any length, any characters) and EVERY any_ascii transliteration of its non-ASCII
   characters, the constant-name sanitiser yields a legal identifier. *)
Theorem C09_const_name_legal : forall n : name, legal_ident (to_rust_const_name n) = true.
Proof. exact const_name_legal. Qed.

(* Field names are legal except on the recorded class: the result `_` (empty / all-symbol names),
   or a verbatim `r#...` pass-through that is not a raw identifier. *)
Theorem C09_field_name_legal : forall n : name, legal_ident (to_rust_field_name n) || known_field n = true.
Proof. exact field_name_legal. Qed.

(* Type names are legal except when the result is `r#Self`. *)
Theorem C09_type_name_legal : forall n : name,
  legal_ident (to_rust_type_name n) || astr_eqb (to_rust_type_name n) (la "r#Self") = true.
Proof. exact type_name_legal. Qed.

(* the generator's keyword list covers the language's keywords (regenerated list vs. hand list) *)
Theorem C09_keywords_covered : forallb (fun k => mem k forbidden_identifiers) rust_keywords = true.
Proof. exact keywords_covered. Qed.

Check C09_const_name_legal : forall n : name, legal_ident (to_rust_const_name n) = true.
Check C09_field_name_legal : forall n : name, legal_ident (to_rust_field_name n) || known_field n = true.
Check C09_type_name_legal : forall n : name,
  legal_ident (to_rust_type_name n) || astr_eqb (to_rust_type_name n) (la "r#Self") = true.

(* ---- refutations on the unchanged tree (witnesses by computation) *)
Definition asc (s : string) : name := map Asc (la s).

Theorem C09_refuted_type_self : legal_ident (to_rust_type_name (asc "Self")) = false.
Proof. vm_compute. reflexivity. Qed.
(* repaired (fix: commit): `crate` and `super` get a trailing underscore like `self` *)
Example C09_field_crate_super_repaired :
  to_rust_field_name (asc "crate") = la "crate_" /\ to_rust_field_name (asc "super") = la "super_"
  /\ legal_ident (to_rust_field_name (asc "crate")) = true /\ legal_ident (to_rust_field_name (asc "Super")) = true.
Proof. vm_compute. repeat split; reflexivity. Qed.
Theorem C09_refuted_field_empty : legal_ident (to_rust_field_name (asc "@")) = false.
Proof. vm_compute. reflexivity. Qed.
Theorem C09_refuted_field_raw : legal_ident (to_rust_field_name (asc "r#1x")) = false.
Proof. vm_compute. reflexivity. Qed.

(* F1: the numeric-suffix de-duplication of struct fields can collide with an existing name *)
Definition rename_field (a : astr) : astr := to_rust_field_name (map Asc a).
Theorem C09_refuted_fields_nodup :
  deduplicate_names [(la "foo_bar", false); (la "foo_bar", false); (la "foo_bar_2", false)] rename_field
  = [la "foo_bar"; la "foo_bar_2"; la "foo_bar_2"].
Proof. vm_compute. reflexivity. Qed.

(* non-vacuity: ordinary names are legal and interesting ones are transformed *)
Example C09_nonvacuous :
  to_rust_field_name (asc "fooBar-baz") = la "foo_bar_baz" /\
  to_rust_type_name (asc "foo_bar") = la "FooBar" /\
  to_rust_type_name (asc "Vec") = la "VecType" /\
  to_rust_field_name (asc "type") = la "r#type" /\
  to_rust_field_name [Uni (la "e"); Asc "1"%char] = la "e1" /\
  to_rust_const_name (asc "1a-b") = la "_1A_B" /\
  legal_ident (to_rust_field_name (asc "type")) = true.
Proof. vm_compute. repeat split; reflexivity. Qed.

Print Assumptions C09_const_name_legal.
Print Assumptions C09_field_name_legal.
Print Assumptions C09_type_name_legal.
Print Assumptions C09_keywords_covered.
Print Assumptions C09_refuted_fields_nodup.
