(* Strings as the generator sees them: byte strings (Coq [string] = list of 8-bit [ascii]),
   ordered byte-lexicographically — which is Rust's [Ord for String] and hence the iteration
   order of every [BTreeMap<String, _>] in oas3 / oas3-gen. *)
From Coq Require Export String Ascii List NArith Bool Lia.
Export ListNotations.
Open Scope string_scope.
Open Scope N_scope.

Definition ascii_in (lo hi : N) (c : ascii) : bool :=
  let n := N_of_ascii c in (lo <=? n) && (n <=? hi).

Definition is_digit (c : ascii) : bool := ascii_in 48 57 c.
Definition is_upper (c : ascii) : bool := ascii_in 65 90 c.
Definition is_lower (c : ascii) : bool := ascii_in 97 122 c.
Definition is_alpha (c : ascii) : bool := is_upper c || is_lower c.
Definition is_alnum (c : ascii) : bool := is_alpha c || is_digit c.

Definition lower_ascii (c : ascii) : ascii :=
  if is_upper c then ascii_of_N (N_of_ascii c + 32) else c.
Definition upper_ascii (c : ascii) : ascii :=
  if is_lower c then ascii_of_N (N_of_ascii c - 32) else c.

Fixpoint smap (f : ascii -> ascii) (s : string) : string :=
  match s with EmptyString => EmptyString | String c r => String (f c) (smap f r) end.
Definition lower (s : string) : string := smap lower_ascii s.
Definition upper (s : string) : string := smap upper_ascii s.

Fixpoint sall (p : ascii -> bool) (s : string) : bool :=
  match s with EmptyString => true | String c r => p c && sall p r end.

Definition digit_val (c : ascii) : N := N_of_ascii c - 48.

(* decimal value of an all-digit string, most significant first *)
Fixpoint dec_val_acc (acc : N) (s : string) : N :=
  match s with EmptyString => acc | String c r => dec_val_acc (acc * 10 + digit_val c) r end.
Definition dec_val (s : string) : N := dec_val_acc 0 s.

(* Rust [u16::from_str]: optional leading '+', at least one digit, only digits, value <= 65535.
   (a string longer than 5 significant… any all-digit string whose value exceeds u16 overflows) *)
Definition parse_u16 (s : string) : option N :=
  let body := match s with String "+" r => r | _ => s end in
  match body with
  | EmptyString => None
  | _ => if sall is_digit body then
           let v := dec_val body in if v <=? 65535 then Some v else None
         else None
  end.

(* decimal printing of N (fuelled on the number of binary digits, always sufficient) *)
Fixpoint dec_of_N_fuel (fuel : nat) (n : N) (acc : string) : string :=
  match fuel with
  | O => acc
  | S f =>
      let d := String (ascii_of_N (48 + n mod 10)) acc in
      if n <? 10 then d else dec_of_N_fuel f (n / 10) d
  end.
Definition dec_of_N (n : N) : string := dec_of_N_fuel (S (N.to_nat (N.size n))) n "".

Fixpoint starts_with (p s : string) : bool :=
  match p, s with
  | EmptyString, _ => true
  | String a p', String b s' => Ascii.eqb a b && starts_with p' s'
  | _, EmptyString => false
  end.

Fixpoint contains (sub s : string) : bool :=
  starts_with sub s || match s with EmptyString => false | String _ r => contains sub r end.

Fixpoint srev_acc (s acc : string) : string :=
  match s with EmptyString => acc | String c r => srev_acc r (String c acc) end.
Definition srev (s : string) : string := srev_acc s "".
Definition ends_with (p s : string) : bool := starts_with (srev p) (srev s).

Fixpoint assoc {A} (k : string) (l : list (string * A)) : option A :=
  match l with
  | [] => None
  | (k', v) :: r => if String.eqb k k' then Some v else assoc k r
  end.

Fixpoint mem (k : string) (l : list string) : bool :=
  match l with [] => false | x :: r => String.eqb k x || mem k r end.

(* split at the first occurrence of [c] *)
Fixpoint split_at (c : ascii) (s : string) : option (string * string) :=
  match s with
  | EmptyString => None
  | String a r => if Ascii.eqb a c then Some ("", r)
                  else match split_at c r with Some (x, y) => Some (String a x, y) | None => None end
  end.

(* split at the last occurrence of [c] *)
Fixpoint rsplit_at (c : ascii) (s : string) : option (string * string) :=
  match s with
  | EmptyString => None
  | String a r =>
      match rsplit_at c r with
      | Some (x, y) => Some (String a x, y)
      | None => if Ascii.eqb a c then Some ("", r) else None
      end
  end.

Definition slen (s : string) : N := N.of_nat (String.length s).

(* strict sortedness of a key list under byte-lexicographic order *)
Fixpoint sorted_keys (l : list string) : bool :=
  match l with
  | [] => true
  | x :: r => forallb (fun y => String.ltb x y) r && sorted_keys r
  end.

Lemma ltb_asym a b : String.ltb a b = true -> String.ltb b a = false.
Proof.
  unfold String.ltb. rewrite (String.compare_antisym a b).
  destruct (String.compare b a); simpl; intros H; try discriminate H; reflexivity.
Qed.

Lemma ltb_irrefl a : String.ltb a a = false.
Proof. destruct (String.ltb a a) eqn:E; auto. pose proof (ltb_asym _ _ E). congruence. Qed.

Lemma ltb_neq a b : String.ltb a b = true -> a <> b.
Proof. intros H ->. rewrite ltb_irrefl in H. discriminate. Qed.
