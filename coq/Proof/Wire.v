From Coq Require Import List Bool NArith Lia.
From OAS Require Import Model.Wire.
Import ListNotations.
Local Open Scope N_scope.

(* finite facts about single bytes, by computation over 0..255 *)
Definition bytes256 : list N := map N.of_nat (seq 0 256).

Lemma bytes256_all b : b < 256 -> In b bytes256.
Proof.
  intros H. unfold bytes256. apply in_map_iff. exists (N.to_nat b). split; [apply N2Nat.id|].
  apply in_seq. lia.
Qed.

Definition byte_ok (b : N) : bool :=
  (* decoding what enc_byte produced gives the byte back, whatever follows; and it contains no delimiter *)
  match enc_byte b with
  | [c] => N.eqb c b && negb (N.eqb c 37) && no_delims [c]
  | [p; h; l] => N.eqb p 37
                 && match unhex h, unhex l with Some x, Some y => N.eqb (16 * x + y) b | _, _ => false end
                 && no_delims [p; h; l]
  | _ => false
  end.

Lemma byte_ok_all : forallb byte_ok bytes256 = true.
Proof. vm_compute. reflexivity. Qed.

Lemma byte_ok_spec b : b < 256 -> byte_ok b = true.
Proof. intros H. pose proof byte_ok_all as A. rewrite forallb_forall in A. apply A. apply bytes256_all. exact H. Qed.

Lemma enc_byte_cases b : b < 256 ->
  (enc_byte b = [b] /\ N.eqb b 37 = false /\ no_delims [b] = true)
  \/ (exists h l x y, enc_byte b = [37; h; l] /\ unhex h = Some x /\ unhex l = Some y /\ 16 * x + y = b /\ no_delims [37; h; l] = true).
Proof.
  intros Hb. pose proof (byte_ok_spec b Hb) as K. unfold byte_ok in K.
  destruct (enc_byte b) as [|c [|h [|l [|x t]]]] eqn:E; try discriminate.
  - left. apply andb_true_iff in K. destruct K as [K K3]. apply andb_true_iff in K. destruct K as [K1 K2].
    apply N.eqb_eq in K1. subst c. apply negb_true_iff in K2. auto.
  - right. apply andb_true_iff in K. destruct K as [K K3]. apply andb_true_iff in K. destruct K as [K1 K2].
    apply N.eqb_eq in K1. subst c.
    destruct (unhex h) as [x|] eqn:Eh; [|discriminate]. destruct (unhex l) as [y|] eqn:El; [|discriminate].
    apply N.eqb_eq in K2. exists h, l, x, y. auto.
Qed.

Lemma decode_enc_fuel bs : (forall b, In b bs -> b < 256) ->
  forall f, (length (enc_segment bs) < f)%nat -> pct_decode_fuel f (enc_segment bs) = bs.
Proof.
  induction bs as [|b r IH]; intros Hall f Hf.
  - destruct f; reflexivity.
  - assert (Hb : b < 256) by (apply Hall; left; reflexivity).
    assert (Hr : forall x, In x r -> x < 256) by (intros x Hx; apply Hall; right; exact Hx).
    change (enc_segment (b :: r)) with (enc_byte b ++ enc_segment r) in *.
    destruct (enc_byte_cases b Hb) as [[E [N37 _]]|[h [l [x [y [E [Hh [Hl [Hv _]]]]]]]]]; rewrite E in *.
    + cbn [app] in *. destruct f as [|f]; [cbn in Hf; lia|]. cbn [pct_decode_fuel]. rewrite N37.
      f_equal. apply IH; [exact Hr|]. cbn [length] in Hf. lia.
    + cbn [app] in *. destruct f as [|f]; [cbn in Hf; lia|]. cbn [pct_decode_fuel].
      rewrite N.eqb_refl, Hh, Hl, Hv. f_equal. apply IH; [exact Hr|]. cbn [length] in Hf. lia.
Qed.

Theorem decode_encode bs : (forall b, In b bs -> b < 256) -> pct_decode (enc_segment bs) = bs.
Proof. intros H. unfold pct_decode. apply decode_enc_fuel; [exact H | lia]. Qed.

Lemma no_delims_app a b : no_delims (a ++ b) = no_delims a && no_delims b.
Proof. unfold no_delims. apply forallb_app. Qed.

Theorem encode_no_delims bs : (forall b, In b bs -> b < 256) -> no_delims (enc_segment bs) = true.
Proof.
  induction bs as [|b r IH]; intros Hall; [reflexivity|].
  change (enc_segment (b :: r)) with (enc_byte b ++ enc_segment r). rewrite no_delims_app.
  assert (Hb : b < 256) by (apply Hall; left; reflexivity).
  rewrite IH by (intros x Hx; apply Hall; right; exact Hx).
  destruct (enc_byte_cases b Hb) as [[E [_ D]]|[h [l [x [y [E [_ [_ [_ D]]]]]]]]]; rewrite E, D; reflexivity.
Qed.

(* ---------- joining and splitting ---------- *)
Lemma split_acc_nodelim d s acc : forallb (fun c => negb (N.eqb c d)) s = true -> split_acc d s acc = [rev acc ++ s].
Proof.
  revert acc. induction s as [|c r IH]; intros acc H; cbn [split_acc].
  - rewrite app_nil_r. reflexivity.
  - cbn [forallb] in H. apply andb_true_iff in H. destruct H as [H1 H2]. apply negb_true_iff in H1. rewrite H1.
    rewrite IH by exact H2. cbn [rev]. rewrite <- app_assoc. reflexivity.
Qed.

Lemma split_acc_app d v r acc : forallb (fun c => negb (N.eqb c d)) v = true ->
  split_acc d (v ++ d :: r) acc = (rev acc ++ v) :: split_acc d r [].
Proof.
  revert acc. induction v as [|c v' IH]; intros acc H; cbn [app split_acc].
  - rewrite N.eqb_refl, app_nil_r. reflexivity.
  - cbn [forallb] in H. apply andb_true_iff in H. destruct H as [H1 H2]. apply negb_true_iff in H1. rewrite H1.
    rewrite IH by exact H2. cbn [rev]. rewrite <- app_assoc. reflexivity.
Qed.

(* a non-empty list of delimiter-free values survives join / split *)
Theorem split_join d vs : vs <> [] -> (forall v, In v vs -> forallb (fun c => negb (N.eqb c d)) v = true) ->
  split d (join d vs) = vs.
Proof.
  unfold split. induction vs as [|v r IH]; intros Hne Hall; [congruence|].
  destruct r as [|v2 r'].
  - cbn [join]. rewrite split_acc_nodelim by (apply Hall; left; reflexivity). reflexivity.
  - change (join d (v :: v2 :: r')) with (v ++ d :: join d (v2 :: r')).
    rewrite split_acc_app by (apply Hall; left; reflexivity). cbn [rev app]. f_equal.
    apply IH; [discriminate | intros x Hx; apply Hall; right; exact Hx].
Qed.
