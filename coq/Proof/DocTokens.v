(* C19 — Documentation::to_tokens over ANY stored lines (however the Documentation value was built:
   `documentation()` with summary / description / path line, `from_optional`, `from_lines`, `push`). *)
From OAS Require Import Lib.Str Model.DocLines Proof.DocLines.
Local Open Scope list_scope.

Definition emitted_doc_lines (stored : list string) : list string := flat_map phys_lines stored.

Lemma emitted_no_break stored : Forall (fun l => no_break l = true) (emitted_doc_lines stored).
Proof.
  unfold emitted_doc_lines. induction stored as [|s r IH]; cbn [flat_map]; [constructor|].
  apply Forall_app. split; [apply phys_lines_no_break|exact IH].
Qed.

Lemma sconcat_app a b : sconcat (a ++ b) = String.append (sconcat a) (sconcat b).
Proof.
  unfold sconcat. induction a as [|x a IH]; cbn [fold_right app]; [reflexivity|].
  rewrite IH. clear IH. induction x as [|c x IHx]; cbn; [reflexivity|rewrite IHx; reflexivity].
Qed.

Lemma sfilter_app p a b : sfilter p (String.append a b) = String.append (sfilter p a) (sfilter p b).
Proof. induction a as [|c a IH]; cbn [String.append sfilter]; [reflexivity|]. destruct (p c); cbn [String.append]; rewrite IH; reflexivity. Qed.

Lemma emitted_content stored : sconcat (emitted_doc_lines stored) = sfilter nb (sconcat stored).
Proof.
  unfold emitted_doc_lines. induction stored as [|s r IH]; cbn [flat_map]; [reflexivity|].
  rewrite sconcat_app, IH, phys_lines_content.
  change (sconcat (s :: r)) with (String.append s (sconcat r)). rewrite sfilter_app. reflexivity.
Qed.
