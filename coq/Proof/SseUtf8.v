(* C20 lemmas, UTF-8 layer: the decoder forwards exactly the bytes it was given, whatever the cuts,
   and on a well-formed stream nothing is left over at the end. *)
From Coq Require Import Ascii List NArith Bool Lia Wf_nat Arith.
From OAS Require Import Model.Sse Proof.SseLine.
Import ListNotations.

Lemma skipn_add {A} (a b : nat) (l : list A) : skipn (a + b) l = skipn b (skipn a l).
Proof.
  revert l. induction a as [|a IH]; intros l; [reflexivity|].
  destruct l as [|x l]; [simpl; rewrite skipn_nil; reflexivity|]. simpl. apply IH.
Qed.

Ltac break_ifs :=
  repeat match goal with
         | |- context [if ?c then _ else _] => destruct c
         end.

Lemma scalar_len_bounds s n : scalar_len s = Some n -> (1 <= n <= length s)%nat.
Proof.
  unfold scalar_len. destruct s as [|b0 [|b1 [|b2 [|b3 r]]]]; try discriminate;
    break_ifs; intros H; inversion H; subst; simpl; lia.
Qed.

Lemma scalar_len_app s n y : scalar_len s = Some n -> scalar_len (s ++ y) = Some n.
Proof.
  unfold scalar_len. destruct s as [|b0 [|b1 [|b2 [|b3 r]]]]; try discriminate; cbn [app]; cbv beta iota;
    break_ifs; intros H; try discriminate H; exact H.
Qed.

Lemma vut_fuel_indep f1 f2 s :
  (length s <= f1)%nat -> (length s <= f2)%nat -> valid_up_to_fuel f1 s = valid_up_to_fuel f2 s.
Proof.
  revert f2 s. induction f1 as [|f1 IH]; intros f2 s H1 H2.
  - destruct s; [|simpl in H1; lia]. destruct f2; reflexivity.
  - destruct f2 as [|f2].
    + destruct s; [reflexivity|simpl in H2; lia].
    + simpl. destruct (scalar_len s) as [n|] eqn:E; [|reflexivity].
      pose proof (scalar_len_bounds _ _ E) as B.
      f_equal. apply IH; rewrite skipn_length; lia.
Qed.

Lemma vut_unfold s :
  valid_up_to s = match scalar_len s with Some n => (n + valid_up_to (skipn n s))%nat | None => O end.
Proof.
  unfold valid_up_to. destruct s as [|c r]; [reflexivity|].
  change (length (c :: r)) with (S (length r)). cbn [valid_up_to_fuel].
  destruct (scalar_len (c :: r)) as [n|] eqn:E; [|reflexivity].
  pose proof (scalar_len_bounds _ _ E) as B. simpl in B.
  f_equal. apply vut_fuel_indep; rewrite skipn_length; cbn [length]; lia.
Qed.

Lemma vut_le s : (valid_up_to s <= length s)%nat.
Proof.
  remember (length s) as k eqn:Hk. revert s Hk.
  induction k as [k IH] using lt_wf_ind. intros s Hk. rewrite vut_unfold.
  destruct (scalar_len s) as [n|] eqn:E; [|lia].
  pose proof (scalar_len_bounds _ _ E) as B.
  specialize (IH (length (skipn n s))). rewrite skipn_length in IH.
  specialize (IH ltac:(lia) (skipn n s)). rewrite skipn_length in IH. specialize (IH eq_refl). lia.
Qed.

(* the remainder after the valid prefix starts with an ill-formed or incomplete sequence *)
Lemma vut_rest_stuck s : scalar_len (skipn (valid_up_to s) s) = None.
Proof.
  remember (length s) as k eqn:Hk. revert s Hk.
  induction k as [k IH] using lt_wf_ind. intros s Hk. rewrite vut_unfold.
  destruct (scalar_len s) as [n|] eqn:E; [|exact E].
  pose proof (scalar_len_bounds _ _ E) as B.
  rewrite skipn_add.
  apply (IH (length (skipn n s))); [rewrite skipn_length; lia|reflexivity].
Qed.

Lemma vut_stuck_zero s : scalar_len s = None -> valid_up_to s = O.
Proof. intros H. rewrite vut_unfold, H. reflexivity. Qed.

Lemma vut_rest_zero s : valid_up_to (skipn (valid_up_to s) s) = O.
Proof. apply vut_stuck_zero. apply vut_rest_stuck. Qed.

(* a well-formed prefix is consumed entirely, whatever follows *)
Lemma vut_app a b : well_formed a = true -> valid_up_to (a ++ b) = (length a + valid_up_to b)%nat.
Proof.
  unfold well_formed. remember (length a) as k eqn:Hk. revert a Hk.
  induction k as [k IH] using lt_wf_ind. intros a Hk Hw. apply Nat.eqb_eq in Hw.
  destruct a as [|c r].
  - simpl in Hk. subst k. reflexivity.
  - rewrite vut_unfold in Hw.
    destruct (scalar_len (c :: r)) as [n|] eqn:E; [|simpl in Hk; lia].
    pose proof (scalar_len_bounds _ _ E) as B.
    rewrite (vut_unfold ((c :: r) ++ b)), (scalar_len_app _ _ b E).
    rewrite skipn_app. replace (n - length (c :: r))%nat with O by lia. rewrite skipn_O.
    rewrite (IH (length (skipn n (c :: r)))).
    + rewrite skipn_length. lia.
    + rewrite skipn_length. lia.
    + reflexivity.
    + apply Nat.eqb_eq. pose proof (vut_le (skipn n (c :: r))) as L. rewrite skipn_length in *. lia.
Qed.

Lemma well_formed_firstn s : well_formed (firstn (valid_up_to s) s) = true.
Proof.
  unfold well_formed. apply Nat.eqb_eq.
  remember (length s) as k eqn:Hk. revert s Hk.
  induction k as [k IH] using lt_wf_ind. intros s Hk.
  rewrite (vut_unfold s).
  destruct (scalar_len s) as [n|] eqn:E.
  - pose proof (scalar_len_bounds _ _ E) as B.
    rewrite <- (firstn_skipn n s) at 2 4.
    assert (Hfl : length (firstn n s) = n) by (rewrite firstn_length; lia).
    rewrite firstn_app, Hfl. replace (n + valid_up_to (skipn n s) - n)%nat with (valid_up_to (skipn n s)) by lia.
    rewrite firstn_all2 by (rewrite Hfl; lia).
    assert (Hs : scalar_len (firstn n s) = Some n).
    { clear -E B. unfold scalar_len in *.
      destruct s as [|b0 [|b1 [|b2 [|b3 r]]]]; try discriminate;
        repeat match type of E with
               | context [if ?c then _ else _] => destruct c eqn:?
               end; inversion E; subst; simpl; rewrite ?Heqb, ?Heqb0, ?Heqb1, ?Heqb2, ?Heqb3, ?Heqb4; try reflexivity; simpl in B; try lia. }
    assert (Hw1 : well_formed (firstn n s) = true).
    { unfold well_formed. apply Nat.eqb_eq. rewrite vut_unfold, Hs. rewrite Hfl.
      rewrite skipn_all2 by lia. unfold valid_up_to. simpl. lia. }
    rewrite vut_app by exact Hw1. rewrite app_length, Hfl.
    f_equal. apply (IH (length (skipn n s))); [rewrite skipn_length; lia|reflexivity].
  - reflexivity.
Qed.

Lemma well_formed_app a b : well_formed a = true -> well_formed b = true -> well_formed (a ++ b) = true.
Proof.
  unfold well_formed. intros Ha Hb. apply Nat.eqb_eq. rewrite vut_app by exact Ha.
  apply Nat.eqb_eq in Hb. rewrite Hb, app_length. reflexivity.
Qed.

(* ------------------------------------------------------------------ the decoder as a re-chunker *)

Lemma utf8_feed_spec p c s p' :
  utf8_feed p c = (s, p') -> s ++ p' = p ++ c /\ well_formed s = true /\ valid_up_to p' = O.
Proof.
  unfold utf8_feed. intros [= <- <-]. split; [apply firstn_skipn|]. split.
  - apply well_formed_firstn.
  - apply vut_rest_zero.
Qed.

Lemma utf8_all_spec p cs strs p' :
  utf8_all p cs = (strs, p') ->
  concat strs ++ p' = p ++ concat cs /\ well_formed (concat strs) = true /\ (cs <> [] -> valid_up_to p' = O).
Proof.
  revert p strs p'. induction cs as [|c cs IH]; cbn [utf8_all concat]; intros p strs p' H.
  - inversion H; subst. simpl. rewrite app_nil_r. repeat split; congruence.
  - destruct (utf8_feed p c) as [s p1] eqn:E1. destruct (utf8_all p1 cs) as [ss p2] eqn:E2.
    inversion H; subst. destruct (utf8_feed_spec _ _ _ _ E1) as [A [B C]].
    destruct (IH _ _ _ E2) as [A2 [B2 C2]]. cbn [concat]. split; [|split].
    + rewrite <- app_assoc, A2, app_assoc, A, <- app_assoc. reflexivity.
    + apply well_formed_app; assumption.
    + intros _. destruct cs as [|c' cs']; [inversion E2; subst; exact C|apply C2; discriminate].
Qed.

(* On a well-formed byte stream nothing is left undecoded at the end, and the strings handed to the
   line layer concatenate to exactly the stream. *)
Theorem utf8_all_wellformed cs strs p' :
  utf8_all [] cs = (strs, p') -> well_formed (concat cs) = true ->
  p' = [] /\ concat strs = concat cs.
Proof.
  intros H Hw. destruct (utf8_all_spec _ _ _ _ H) as [A [B C]]. simpl in A.
  destruct cs as [|c cs].
  - inversion H; subst. auto.
  - assert (Hp : valid_up_to p' = O) by (apply C; discriminate).
    assert (Hlen : valid_up_to (concat strs ++ p') = (length (concat strs) + valid_up_to p')%nat) by (apply vut_app; exact B).
    rewrite A in Hlen. unfold well_formed in Hw. apply Nat.eqb_eq in Hw. rewrite Hw, <- A, app_length, Hp in Hlen.
    assert (p' = []) by (destruct p'; [reflexivity|simpl in Hlen; lia]). subst p'.
    rewrite app_nil_r in A. auto.
Qed.

(* C20 core: every chunking of a well-formed byte stream delivers the same events. *)
Theorem events_chunk_independent cs1 cs2 :
  concat cs1 = concat cs2 -> well_formed (concat cs1) = true ->
  events_of_chunks cs1 = events_of_chunks cs2.
Proof.
  intros Hc Hw. unfold events_of_chunks.
  destruct (utf8_all [] cs1) as [s1 p1] eqn:E1. destruct (utf8_all [] cs2) as [s2 p2] eqn:E2.
  destruct (utf8_all_wellformed _ _ _ E1 Hw) as [-> C1].
  rewrite Hc in Hw. destruct (utf8_all_wellformed _ _ _ E2 Hw) as [-> C2].
  rewrite (chunking_irrelevant s1 s2) by congruence. reflexivity.
Qed.

Corollary events_one_chunk cs :
  well_formed (concat cs) = true -> events_of_chunks cs = events_of_chunks [concat cs].
Proof.
  intros Hw. apply events_chunk_independent; [simpl; rewrite app_nil_r; reflexivity|exact Hw].
Qed.
