(* C11 / C13 — the canonical form does not depend on member order at ANY depth (objects inside objects, inside arrays). *)
From Coq Require Import List Bool String ZArith Permutation Sorted.
From OAS Require Import Lib.Str Model.Sharing Model.Canon Proof.Order Proof.CanonOrder.
Import ListNotations.
Local Open Scope string_scope.
Local Open Scope list_scope.

(* the same tree up to the order of object members, at every level *)
Inductive mperm : jt -> jt -> Prop :=
| MP_same t : mperm t t
| MP_arr l l' : Forall2 mperm l l' -> mperm (JA l) (JA l')
| MP_obj l l' m : Forall2 (fun a b => fst a = fst b /\ mperm (snd a) (snd b)) l m -> Permutation m l' -> mperm (JO l) (JO l').

(* well-formed documents: member names are distinct in every object *)
Inductive wf : jt -> Prop :=
| WS s : wf (JS s) | WN z : wf (JN z) | WB b : wf (JB b) | W0 : wf J0
| WA l : Forall wf l -> wf (JA l)
| WO l : NoDup (map fst l) -> Forall (fun kv => wf (snd kv)) l -> wf (JO l).

Section MpermInd.
  Variable P : jt -> jt -> Prop.
  Hypothesis Hsame : forall t, P t t.
  Hypothesis Harr : forall l l', Forall2 mperm l l' -> Forall2 P l l' -> P (JA l) (JA l').
  Hypothesis Hobj : forall l l' m,
    Forall2 (fun a b => fst a = fst b /\ mperm (snd a) (snd b)) l m ->
    Forall2 (fun a b => fst a = fst b /\ P (snd a) (snd b)) l m -> Permutation m l' -> P (JO l) (JO l').
  Fixpoint mperm_ind' a b (H : mperm a b) {struct H} : P a b :=
    match H in mperm a0 b0 return P a0 b0 with
    | MP_same t => Hsame t
    | MP_arr l l' F =>
        Harr l l' F ((fix go l l' (F : Forall2 mperm l l') {struct F} : Forall2 P l l' :=
                        match F in Forall2 _ l0 l0' return Forall2 P l0 l0' with
                        | Forall2_nil _ => Forall2_nil _
                        | Forall2_cons _ _ h t => Forall2_cons _ _ (mperm_ind' _ _ h) (go _ _ t)
                        end) l l' F)
    | MP_obj l l' m F Pm =>
        Hobj l l' m F ((fix go l m (F : Forall2 (fun a b => fst a = fst b /\ mperm (snd a) (snd b)) l m) {struct F}
                          : Forall2 (fun a b => fst a = fst b /\ P (snd a) (snd b)) l m :=
                          match F in Forall2 _ l0 m0 return Forall2 (fun a b => fst a = fst b /\ P (snd a) (snd b)) l0 m0 with
                          | Forall2_nil _ => Forall2_nil _
                          | Forall2_cons _ _ h t => Forall2_cons _ _ (match h with conj hk hm => conj hk (mperm_ind' _ _ hm) end) (go _ _ t)
                          end) l m F) Pm
    end.
End MpermInd.

(* a string is related only to itself *)
Lemma mperm_JS s t : mperm (JS s) t -> t = JS s.
Proof. intros H. inversion H; reflexivity. Qed.
Lemma mperm_notJS a b : mperm a b -> (forall s, a <> JS s) -> forall s, b <> JS s.
Proof. intros H Ha s E. subst b. inversion H; subst; eapply Ha; reflexivity. Qed.

Lemma strings_of_mperm l l' : Forall2 mperm l l' -> strings_of l = strings_of l'.
Proof.
  induction 1 as [|x y l l' Hxy F IH]; [reflexivity|].
  destruct x as [s|z|b| |a|o].
  - apply mperm_JS in Hxy. subst y. cbn [strings_of]. rewrite IH. reflexivity.
  - inversion Hxy; subst; reflexivity.
  - inversion Hxy; subst; reflexivity.
  - inversion Hxy; subst; reflexivity.
  - inversion Hxy; subst; reflexivity.
  - inversion Hxy; subst; reflexivity.
Qed.

Lemma strings_of_some_eq l l' ss : Forall2 mperm l l' -> strings_of l = Some ss -> l' = l.
Proof.
  intros F. revert ss. induction F as [|x y l l' Hxy F IH]; intros ss E; [reflexivity|].
  destruct x as [s|z|b| |a|o]; cbn [strings_of] in E; try discriminate.
  destruct (strings_of l) as [t|] eqn:E2; [|discriminate].
  apply mperm_JS in Hxy. subst y. f_equal. eapply IH. reflexivity.
Qed.

(* the per-member function of norm *)
Definition nmember (kv : string * jt) : string * jt :=
  match kv with
  | (k, v) => (k, match v with
                  | JA items => match (if set_key k then strings_of items else None) with
                                | Some ss => JA (map JS (ssort ss))
                                | None => JA (map norm items)
                                end
                  | _ => norm v
                  end)
  end.
Lemma norm_JO l : norm (JO l) = JO (ksort (map nmember l)).
Proof. reflexivity. Qed.
Lemma nmember_fst kv : fst (nmember kv) = fst kv.
Proof. destruct kv; reflexivity. Qed.

Lemma Forall2_map_eq {A B} (f : A -> B) (R : A -> A -> Prop) l l' :
  Forall2 R l l' -> (forall a b, R a b -> In a l -> f a = f b) -> map f l = map f l'.
Proof.
  induction 1 as [|x y l l' Hxy F IH]; intros H; [reflexivity|]. cbn [map]. f_equal.
  - apply H; [exact Hxy | left; reflexivity].
  - apply IH. intros a b Hab Hin. apply H; [exact Hab | right; exact Hin].
Qed.

Lemma nmember_eq k v v' : mperm v v' -> (wf v -> norm v = norm v') -> wf v -> nmember (k, v) = nmember (k, v').
Proof.
  intros Mxy Hv Wx. unfold nmember. f_equal.
  destruct v as [s|z|bb| |items|o].
  - apply mperm_JS in Mxy. subst v'. reflexivity.
  - inversion Mxy; subst; reflexivity.
  - inversion Mxy; subst; reflexivity.
  - inversion Mxy; subst; reflexivity.
  - (* arrays: both are sorted string sets (then the arrays are equal) or both are normalised elementwise *)
    inversion Mxy as [|li li' Fi|]; subst; [reflexivity|].
    specialize (Hv Wx). cbn [norm] in Hv.
    destruct (set_key k); [|exact Hv].
    rewrite <- (strings_of_mperm _ _ Fi). destruct (strings_of items) as [ss|] eqn:Es; [reflexivity | exact Hv].
  - specialize (Hv Wx). inversion Mxy; subst; [reflexivity | exact Hv].
Qed.

Lemma members_eq l m :
  Forall2 (fun a b => fst a = fst b /\ mperm (snd a) (snd b)) l m ->
  Forall2 (fun a b => fst a = fst b /\ (wf (snd a) -> norm (snd a) = norm (snd b))) l m ->
  Forall (fun kv => wf (snd kv)) l -> map nmember l = map nmember m.
Proof.
  intros F. induction F as [|x y l m [Hk Mxy] F IH]; intros G Wl; [reflexivity|].
  inversion G as [|? ? ? ? [_ Hv] Grest]; subst. apply Forall_cons_iff in Wl. destruct Wl as [Wx Wr].
  cbn [map]. f_equal; [|apply IH; assumption].
  destruct x as [k v], y as [k' v']. cbn [fst snd] in *. subst k'. apply nmember_eq; assumption.
Qed.

Theorem norm_mperm a b : mperm a b -> wf a -> norm a = norm b.
Proof.
  intros H. induction H as [t|l l' F IH|l l' m F IH Pm] using mperm_ind'; intros W.
  - reflexivity.
  - cbn [norm]. f_equal. inversion W as [| | | |l0 Wl|]; subst.
    clear F W. induction IH as [|x y l l' Hxy F2 IH2]; [reflexivity|].
    cbn [map]. apply Forall_cons_iff in Wl. destruct Wl as [Wx Wr]. f_equal; [apply Hxy; exact Wx | apply IH2; exact Wr].
  - rewrite !norm_JO. f_equal. inversion W as [| | | | |l0 Nd Wl]; subst.
    rewrite (members_eq l m F IH Wl). apply ksort_perm_invariant; [apply Permutation_map; exact Pm|].
    rewrite map_map. rewrite (map_ext (fun x => fst (nmember x)) fst nmember_fst).
    assert (K : map fst l = map fst m).
    { clear -F. induction F as [|x y l m [Hk _] F IH]; [reflexivity|]. cbn [map]. rewrite Hk, IH. reflexivity. }
    rewrite <- K. exact Nd.
Qed.
