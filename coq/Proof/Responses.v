(* Lemmas for C04 (structural part): precedence exact > range > default. *)
From OAS Require Import Lib.Str Gen.StatusTable Gen.Content Model.HttpConsts Model.Media Model.Responses Proof.ResponsesSweeps.
Local Open Scope list_scope.

(* ------------------------------------------------------------------ variants of one entry *)

Lemma split_variants_tok key t base ms v :
  In v (split_variants key t base ms) -> v_tok v = t /\ v_key v = key.
Proof.
  unfold split_variants. destruct (group_media ms) as [|g gs] eqn:E.
  - intros [<-|[]]. simpl. auto.
  - intros H. apply in_map_iff in H. destruct H as [kt [<- _]]. simpl. auto.
Qed.

Lemma split_variants_nonempty key t base ms : split_variants key t base ms <> [].
Proof.
  unfold split_variants. destruct (group_media ms) as [|g gs]; simpl; discriminate.
Qed.

Lemma variants_of_entry_tok e v : In v (variants_of_entry e) -> v_tok v = tok_of_key (fst e) /\ v_key v = fst e.
Proof. unfold variants_of_entry. apply split_variants_tok. Qed.

Lemma variants_of_entry_nonempty e : variants_of_entry e <> [].
Proof. unfold variants_of_entry. apply split_variants_nonempty. Qed.

(* ------------------------------------------------------------------ filtering homogeneous chunks *)

Lemma filter_all {A} (p : A -> bool) l : (forall x, In x l -> p x = true) -> filter p l = l.
Proof.
  induction l as [|x l IH]; simpl; intros H; [reflexivity|].
  rewrite (H x (or_introl eq_refl)). f_equal. apply IH. intros y Hy. apply H. right. exact Hy.
Qed.

Lemma filter_none {A} (p : A -> bool) l : (forall x, In x l -> p x = false) -> filter p l = [].
Proof.
  induction l as [|x l IH]; simpl; intros H; [reflexivity|].
  rewrite (H x (or_introl eq_refl)). apply IH. intros y Hy. apply H. right. exact Hy.
Qed.

Lemma filter_flat_map_entries (p : tok -> bool) es :
  filter (fun v => p (v_tok v)) (flat_map variants_of_entry es)
  = flat_map variants_of_entry (filter (fun e => p (tok_of_key (fst e))) es).
Proof.
  induction es as [|e es IH]; simpl; [reflexivity|].
  rewrite filter_app, IH.
  destruct (p (tok_of_key (fst e))) eqn:E; simpl.
  - f_equal. apply filter_all. intros v Hv. destruct (variants_of_entry_tok e v Hv) as [-> _]. exact E.
  - rewrite filter_none; [reflexivity|]. intros v Hv. destruct (variants_of_entry_tok e v Hv) as [-> _]. exact E.
Qed.

(* ------------------------------------------------------------------ grouping by token *)

Definition chunk_of (e : string * response) : tok * list variant := (tok_of_key (fst e), variants_of_entry e).

Lemma tgroup_insert_new v gs :
  (forall g, In g gs -> tok_eqb (v_tok v) (fst g) = false) ->
  tgroup_insert v gs = gs ++ [(v_tok v, [v])].
Proof.
  induction gs as [|[t vs] gs IH]; simpl; intros H; [reflexivity|].
  pose proof (H (t, vs) (or_introl eq_refl)) as E. simpl in E. rewrite E.
  f_equal. apply IH. intros g Hg. apply H. right. exact Hg.
Qed.

Lemma tgroup_insert_last v gs t vs :
  (forall g, In g gs -> tok_eqb (v_tok v) (fst g) = false) ->
  tok_eqb (v_tok v) t = true ->
  tgroup_insert v (gs ++ [(t, vs)]) = gs ++ [(t, vs ++ [v])].
Proof.
  induction gs as [|[t' vs'] gs IH]; simpl; intros H E.
  - rewrite E. reflexivity.
  - pose proof (H (t', vs') (or_introl eq_refl)) as E'. simpl in E'. rewrite E'.
    f_equal. apply IH; [|exact E]. intros g Hg. apply H. right. exact Hg.
Qed.

Lemma fold_insert_chunk t vs gs pre :
  (forall v, In v vs -> v_tok v = t) ->
  (forall g, In g gs -> tok_eqb t (fst g) = false) ->
  tok_eqb t t = true ->
  fold_left (fun gs v => tgroup_insert v gs) vs (gs ++ [(t, pre)]) = gs ++ [(t, pre ++ vs)].
Proof.
  revert pre. induction vs as [|v vs IH]; simpl; intros pre Hv Hg Ht.
  - rewrite app_nil_r. reflexivity.
  - rewrite tgroup_insert_last with (t := t) (vs := pre).
    + rewrite IH; auto. rewrite <- app_assoc. reflexivity.
    + intros g Hgin. rewrite (Hv v (or_introl eq_refl)). apply Hg. exact Hgin.
    + rewrite (Hv v (or_introl eq_refl)). exact Ht.
Qed.

Lemma group_chunks es gs :
  (forall e, In e es -> In (fst e) key_universe) ->
  NoDup (map fst es) ->
  (forall e g, In e es -> In g gs -> tok_eqb (tok_of_key (fst e)) (fst g) = false) ->
  fold_left (fun gs v => tgroup_insert v gs) (flat_map variants_of_entry es) gs = gs ++ map chunk_of es.
Proof.
  revert gs. induction es as [|e es IH]; simpl; intros gs Hu Hnd Hg.
  - rewrite app_nil_r. reflexivity.
  - rewrite fold_left_app.
    destruct (variants_of_entry e) as [|v vs] eqn:Ev; [exfalso; eapply variants_of_entry_nonempty; eauto|].
    assert (Htok : forall x, In x (v :: vs) -> v_tok x = tok_of_key (fst e)).
    { intros x Hx. rewrite <- Ev in Hx. apply variants_of_entry_tok in Hx. tauto. }
    simpl. rewrite tgroup_insert_new.
    2:{ intros g Hgin. rewrite (Htok v (or_introl eq_refl)). apply Hg; auto. }
    rewrite (Htok v (or_introl eq_refl)).
    rewrite fold_insert_chunk with (t := tok_of_key (fst e)).
    + inversion Hnd as [|? ? Hnotin Hnd']; subst.
      rewrite IH.
      * rewrite <- app_assoc. simpl. unfold chunk_of at 2. rewrite Ev. reflexivity.
      * intros e' He'. apply Hu. right. exact He'.
      * exact Hnd'.
      * intros e' g He' Hgin. apply in_app_or in Hgin. destruct Hgin as [Hgin|[<-|[]]].
        -- apply Hg; auto.
        -- simpl. rewrite tok_eqb_keys.
           ++ apply String.eqb_neq. intros Heq. apply Hnotin. rewrite <- Heq. apply in_map. exact He'.
           ++ apply Hu. right. exact He'.
           ++ apply Hu. left. reflexivity.
    + intros x Hx. apply Htok. right. exact Hx.
    + intros g Hgin. apply Hg; auto.
    + apply tok_eqb_refl.
Qed.

Lemma group_by_tok_entries es :
  (forall e, In e es -> In (fst e) key_universe) ->
  NoDup (map fst es) ->
  group_by_tok (flat_map variants_of_entry es) = map chunk_of es.
Proof.
  intros Hu Hnd. unfold group_by_tok. rewrite group_chunks with (gs := []); auto.
  intros e g _ [].
Qed.

(* ------------------------------------------------------------------ sorted key lists *)

Lemma sorted_keys_nodup l : sorted_keys l = true -> NoDup l.
Proof.
  induction l as [|x l IH]; simpl; intros H; [constructor|].
  apply andb_true_iff in H. destruct H as [Hx Hl]. constructor; [|auto].
  intros Hin. rewrite forallb_forall in Hx. specialize (Hx x Hin). rewrite ltb_irrefl in Hx. discriminate.
Qed.

Lemma assoc_notin {A} k (l : list (string * A)) : ~ In k (map fst l) -> assoc k l = None.
Proof.
  induction l as [|[k' v] l IH]; simpl; intros H; [reflexivity|].
  destruct (String.eqb_spec k k') as [->|Hne]; [exfalso; apply H; left; reflexivity|].
  apply IH. intros Hin. apply H. right. exact Hin.
Qed.

Lemma assoc_none_notin {A} k (l : list (string * A)) : assoc k l = None -> ~ In k (map fst l).
Proof.
  induction l as [|[k' v] l IH]; cbn [assoc map fst]; intros H Hin; [destruct Hin|].
  destruct (String.eqb_spec k k') as [->|Hne]; [discriminate|].
  destruct Hin as [Hin|Hin]; [congruence|]. apply IH; assumption.
Qed.

Lemma assoc_in {A} k (l : list (string * A)) v : assoc k l = Some v -> In (k, v) l.
Proof.
  induction l as [|[k' v'] l IH]; simpl; [discriminate|].
  destruct (String.eqb_spec k k') as [->|Hne].
  - intros [= ->]. left. reflexivity.
  - intros H. right. apply IH. exact H.
Qed.

(* ------------------------------------------------------------------ walking the handlers *)

Definition handler_of (e : string * response) : handler :=
  {| h_tok := tok_of_key (fst e); h_disp := dispatch_of_entry e |}.

Definition covers2 (ke kr k : string) : bool := String.eqb k ke || String.eqb k kr.

Fixpoint first_cover (ke kr : string) (es : responses) (ct : option string) : option outcome :=
  match es with
  | [] => None
  | e :: r => if covers2 ke kr (fst e) then
                match run_dispatch (dispatch_of_entry e) ct with
                | Some o => Some o
                | None => first_cover ke kr r ct
                end
              else first_cover ke kr r ct
  end.

Lemma walk_handlers es code ct :
  (forall e, In e es -> In (fst e) key_universe /\ fst e <> "default") ->
  In code codes ->
  parse_handlers (map handler_of es) code ct = first_cover (exact_key code) (range_key code) es ct.
Proof.
  intros Hu Hc. induction es as [|e es IH]; simpl; [reflexivity|].
  destruct (Hu e (or_introl eq_refl)) as [Hk Hnd].
  rewrite cond_covers by assumption. unfold key_covers, covers2.
  apply String.eqb_neq in Hnd. rewrite Hnd, orb_false_r.
  rewrite IH; [reflexivity|]. intros e' He'. apply Hu. right. exact He'.
Qed.

Lemma first_cover_none ke kr es ct :
  ~ In ke (map fst es) -> ~ In kr (map fst es) -> first_cover ke kr es ct = None.
Proof.
  induction es as [|[k r] es IH]; simpl; intros H1 H2; [reflexivity|].
  unfold covers2. simpl.
  destruct (String.eqb_spec k ke) as [->|N1]; [exfalso; apply H1; left; reflexivity|].
  destruct (String.eqb_spec k kr) as [->|N2]; [exfalso; apply H2; left; reflexivity|].
  simpl. apply IH; intros Hin; [apply H1|apply H2]; right; exact Hin.
Qed.

Definition try_entry (es : responses) (k : string) (ct : option string) : option outcome :=
  match assoc k es with
  | Some r => run_dispatch (dispatch_of_entry (k, r)) ct
  | None => None
  end.

Lemma sorted_tail_gt x l y : sorted_keys (x :: l) = true -> In y l -> String.ltb x y = true.
Proof.
  simpl. intros H Hy. apply andb_true_iff in H. destruct H as [H _]. rewrite forallb_forall in H. auto.
Qed.

Lemma first_cover_sorted ke kr es ct :
  String.ltb ke kr = true ->
  sorted_keys (map fst es) = true ->
  first_cover ke kr es ct =
  match try_entry es ke ct with Some o => Some o | None => try_entry es kr ct end.
Proof.
  intros Hlt. induction es as [|[k r] es IH]; intros Hs; [reflexivity|].
  pose proof Hs as Hs0. simpl in Hs. apply andb_true_iff in Hs. destruct Hs as [Hhead Htail].
  simpl first_cover. unfold covers2, try_entry. simpl fst. simpl assoc.
  destruct (String.eqb_spec k ke) as [->|N1].
  - (* the exact entry is at the head *)
    simpl. rewrite String.eqb_refl.
    destruct (run_dispatch (dispatch_of_entry (ke, r)) ct) as [o|] eqn:D; [reflexivity|].
    assert (Hne : String.eqb kr ke = false) by (apply String.eqb_neq; intros ->; rewrite ltb_irrefl in Hlt; discriminate).
    rewrite Hne. rewrite IH by exact Htail. unfold try_entry.
    rewrite assoc_notin; [reflexivity|].
    intros Hin. pose proof (sorted_tail_gt _ _ _ Hs0 Hin) as Hx. simpl in Hx. rewrite ltb_irrefl in Hx. discriminate.
  - assert (E1 : String.eqb ke k = false) by (apply String.eqb_neq; congruence).
    rewrite E1. simpl.
    destruct (String.eqb_spec k kr) as [->|N2].
    + (* the range entry is at the head: the exact key cannot follow it *)
      rewrite String.eqb_refl.
      assert (Hke : ~ In ke (map fst es)).
      { intros Hin. pose proof (sorted_tail_gt _ _ _ Hs0 Hin) as Hx. simpl in Hx.
        rewrite (ltb_asym _ _ Hlt) in Hx. discriminate. }
      assert (Hkr : ~ In kr (map fst es)).
      { intros Hin. pose proof (sorted_tail_gt _ _ _ Hs0 Hin) as Hx. simpl in Hx. rewrite ltb_irrefl in Hx. discriminate. }
      rewrite (assoc_notin ke es Hke).
      destruct (run_dispatch (dispatch_of_entry (kr, r)) ct) as [o|]; [reflexivity|].
      apply first_cover_none; assumption.
    + assert (E2 : String.eqb kr k = false) by (apply String.eqb_neq; congruence).
      rewrite E2. apply IH. exact Htail.
Qed.

(* ------------------------------------------------------------------ default handling *)

Lemma filter_default_entries (es : responses) :
  (forall e, In e es -> In (fst e) key_universe) ->
  NoDup (map fst es) ->
  filter (fun e => tok_is_default (tok_of_key (fst e))) es
  = match assoc "default" es with Some r => [("default", r)] | None => [] end.
Proof.
  induction es as [|[k r] es IH]; intros Hu Hnd; [reflexivity|].
  cbn [filter assoc fst map] in *.
  inversion Hnd as [|? ? Hnotin Hnd']; subst.
  rewrite is_default_key by (apply (Hu (k, r)); left; reflexivity).
  rewrite (String.eqb_sym "default" k).
  destruct (String.eqb_spec k "default") as [->|Hne].
  - f_equal. rewrite IH; auto.
    + rewrite assoc_notin; auto.
    + intros e He. apply Hu. right. exact He.
  - apply IH; auto. intros e He. apply Hu. right. exact He.
Qed.

Lemma filter_nondefault_entries (es : responses) :
  (forall e, In e es -> In (fst e) key_universe) ->
  forall e, In e (filter (fun e => negb (tok_is_default (tok_of_key (fst e)))) es) ->
  In (fst e) key_universe /\ fst e <> "default".
Proof.
  intros Hu e He. apply filter_In in He. destruct He as [Hin Hnd]. split; [auto|].
  rewrite is_default_key in Hnd by auto. apply negb_true_iff in Hnd. apply String.eqb_neq. exact Hnd.
Qed.

Lemma sorted_filter (p : string * response -> bool) (es : responses) :
  sorted_keys (map fst es) = true -> sorted_keys (map fst (filter p es)) = true.
Proof.
  induction es as [|e es IH]; simpl; intros H; [reflexivity|].
  apply andb_true_iff in H. destruct H as [Hx Hs].
  destruct (p e); simpl; [|auto]. rewrite IH by exact Hs. rewrite andb_true_r.
  rewrite forallb_forall in *. intros y Hy. apply Hx.
  apply in_map_iff in Hy. destruct Hy as [e' [<- He']]. apply filter_In in He'. apply in_map. tauto.
Qed.

Lemma assoc_filter (p : string * response -> bool) (es : responses) k :
  (forall r, p (k, r) = true) ->
  assoc k (filter p es) = assoc k es.
Proof.
  intros Hp. induction es as [|[k' r] es IH]; simpl; [reflexivity|].
  destruct (String.eqb_spec k k') as [->|Hne].
  - rewrite Hp. simpl. rewrite String.eqb_refl. reflexivity.
  - destruct (p (k', r)); simpl; [|exact IH]. apply String.eqb_neq in Hne. rewrite Hne. exact IH.
Qed.

(* ------------------------------------------------------------------ main theorem *)

Lemma valid_rs_facts rs :
  valid_rs rs = true ->
  sorted_keys (map fst rs) = true /\ NoDup (map fst rs) /\ (forall e, In e rs -> In (fst e) key_universe).
Proof.
  unfold valid_rs. intros H. apply andb_true_iff in H. destruct H as [Hs Hu].
  split; [exact Hs|]. split; [apply sorted_keys_nodup; exact Hs|].
  intros e He. rewrite forallb_forall in Hu. specialize (Hu (fst e) (in_map fst _ _ He)).
  clear -Hu. induction key_universe as [|x l IH]; simpl in *; [discriminate|].
  apply orb_true_iff in Hu. destruct Hu as [Hu|Hu]; [left; symmetry; apply String.eqb_eq; exact Hu|right; auto].
Qed.

Lemma nondefault_key_universe code : In code codes ->
  tok_is_default (tok_of_key (exact_key code)) = false /\ tok_is_default (tok_of_key (range_key code)) = false.
Proof.
  intros Hc. pose proof (forallb_In nd_cell codes code sweep_nd_ok Hc) as H'. unfold nd_cell in H'.
  apply andb_true_iff in H'. destruct H' as [A B]. apply negb_true_iff in A. apply negb_true_iff in B. auto.
Qed.

Lemma with_default_nonempty vs : vs <> [] ->
  with_default_variant vs = if existsb (fun v => tok_is_default (v_tok v)) vs then vs else vs ++ [unknown_variant].
Proof. destruct vs; [congruence|reflexivity]. Qed.

Theorem precedence rs code ct :
  valid_rs rs = true -> In code codes ->
  parse (gen rs) code ct = spec_parse rs code ct.
Proof.
  intros Hv Hc. destruct (valid_rs_facts rs Hv) as [Hs [Hnd Hu]].
  destruct rs as [|e0 rs0] eqn:Ers; [reflexivity|]. rewrite <- Ers in *.
  assert (Hne : flat_map variants_of_entry rs <> []).
  { rewrite Ers. simpl. intros H. apply app_eq_nil in H. destruct H as [H _]. eapply variants_of_entry_nonempty; eauto. }
  set (nd := filter (fun e => negb (tok_is_default (tok_of_key (fst e)))) rs).
  (* the handler list *)
  assert (Hhandlers : forall vs' : list variant,
            (forall v, In v vs' -> tok_is_default (v_tok v) = true) ->
            fst (build_handlers (flat_map variants_of_entry rs ++ vs')) = map handler_of nd).
  { intros vs' Hd. unfold build_handlers. simpl fst.
    rewrite filter_app. rewrite (filter_none _ vs').
    2:{ intros v Hv'. rewrite (Hd v Hv'). reflexivity. }
    rewrite app_nil_r.
    rewrite (filter_flat_map_entries (fun t => negb (tok_is_default t))). fold nd.
    rewrite group_by_tok_entries.
    - rewrite map_map. reflexivity.
    - intros e He. apply filter_In in He. apply Hu. tauto.
    - apply NoDup_map_inv with (f := fun x => x). rewrite map_id.
      clear -Hnd. induction rs as [|e rs IH]; simpl in *; [constructor|].
      inversion Hnd; subst. destruct (negb _); simpl; auto. constructor; auto.
      intros Hin. apply in_map_iff in Hin. destruct Hin as [e' [Ee He']]. apply filter_In in He'.
      apply H1. rewrite <- Ee. apply in_map. tauto. }
  assert (Hwalk : parse_handlers (map handler_of nd) code ct =
                  match try_key rs (exact_key code) ct with Some o => Some o | None => try_key rs (range_key code) ct end).
  { rewrite walk_handlers; [|apply filter_nondefault_entries; exact Hu|exact Hc].
    rewrite first_cover_sorted; [|apply exact_sorts_before_range; exact Hc|apply sorted_filter; exact Hs].
    destruct (nondefault_key_universe code Hc) as [D1 D2].
    unfold try_entry, try_key, nd.
    rewrite !assoc_filter; [reflexivity| |]; intros r; simpl; [rewrite D2|rewrite D1]; reflexivity. }
  unfold parse, gen, all_variants, spec_parse. rewrite with_default_nonempty by exact Hne.
  destruct (existsb (fun v => tok_is_default (v_tok v)) (flat_map variants_of_entry rs)) eqn:Eex.
  - (* a default response is declared *)
    pose proof (Hhandlers [] (fun v (H : In v []) => match H with end)) as Hh. rewrite app_nil_r in Hh.
    rewrite Hh, Hwalk.
    destruct (try_key rs (exact_key code) ct) as [o|]; [reflexivity|].
    destruct (try_key rs (range_key code) ct) as [o|]; [reflexivity|].
    unfold build_handlers. simpl snd.
    rewrite (filter_flat_map_entries tok_is_default), filter_default_entries by assumption.
    unfold default_outcome.
    destruct (assoc "default" rs) as [r|] eqn:Ea.
    + simpl. rewrite app_nil_r.
      destruct (variants_of_entry ("default", r)) as [|v vs] eqn:Ev; [exfalso; eapply variants_of_entry_nonempty; eauto|].
      reflexivity.
    + (* impossible: some variant is default, so the key "default" is present *)
      exfalso. apply existsb_exists in Eex. destruct Eex as [v [Hin Hd]].
      apply in_flat_map in Hin. destruct Hin as [e [He Hve]].
      destruct (variants_of_entry_tok e v Hve) as [Ht _]. rewrite Ht in Hd.
      rewrite is_default_key in Hd by auto. apply String.eqb_eq in Hd.
      apply (assoc_none_notin _ _ Ea). rewrite <- Hd. apply in_map. exact He.
  - (* no default declared: the synthetic Unknown variant is appended *)
    rewrite Hhandlers by (intros v [<-|[]]; reflexivity). rewrite Hwalk.
    destruct (try_key rs (exact_key code) ct) as [o|]; [reflexivity|].
    destruct (try_key rs (range_key code) ct) as [o|]; [reflexivity|].
    unfold build_handlers. simpl snd. rewrite filter_app.
    rewrite (filter_flat_map_entries tok_is_default), filter_default_entries by assumption.
    unfold default_outcome.
    destruct (assoc "default" rs) as [r|] eqn:Ea.
    + (* impossible: then a default variant would exist *)
      exfalso. apply assoc_in in Ea.
      destruct (variants_of_entry ("default", r)) as [|v vs] eqn:Ev; [eapply variants_of_entry_nonempty; eauto|].
      assert (Hin : In v (flat_map variants_of_entry rs)).
      { apply in_flat_map. exists ("default", r). split; [exact Ea|]. rewrite Ev. left. reflexivity. }
      assert (Hd : tok_is_default (v_tok v) = true).
      { destruct (variants_of_entry_tok ("default", r) v) as [Ht _]; [rewrite Ev; left; reflexivity|].
        rewrite Ht. reflexivity. }
      assert (Hex : existsb (fun v => tok_is_default (v_tok v)) (flat_map variants_of_entry rs) = true).
      { apply existsb_exists. exists v. auto. }
      congruence.
    + simpl. rewrite Ers. reflexivity.
Qed.

(* ------------------------------------------------------------------ corollaries *)

(* the chosen variant always comes from a key that covers the status (never a different status) *)
Lemma run_dispatch_key e ct o :
  run_dispatch (dispatch_of_entry e) ct = Some o -> o_key o = fst e.
Proof.
  unfold dispatch_of_entry, from_variants.
  assert (Hall : forall v, In v (variants_of_entry e) -> v_key v = fst e)
    by (intros v Hv; apply variants_of_entry_tok in Hv; tauto).
  assert (Hfc : forall (p : vcase -> bool) l c, first_case p l = Some c -> In c l).
  { intros p l. induction l as [|x l IH]; simpl; [discriminate|]. intros c. destruct (p x); [intros [= ->]; auto|auto]. }
  assert (Hct : forall g, (forall v, In v g -> v_key v = fst e) ->
                forall o, run_dispatch (from_content_types g) ct = Some o -> o_key o = fst e).
  { intros g Hg o0. unfold from_content_types, run_dispatch.
    set (all := flat_map _ g). set (u := vc_unique all []).
    assert (Hu : forall c, In c u -> v_key (vc_var c) = fst e).
    { assert (Hall' : forall c, In c all -> v_key (vc_var c) = fst e).
      { intros c Hc. apply in_flat_map in Hc. destruct Hc as [v [Hv Hc]]. apply in_app_or in Hc.
        destruct Hc as [Hc|Hc].
        - destruct (v_media v); [destruct Hc as [<-|[]]; simpl; auto|destruct Hc].
        - apply in_map_iff in Hc. destruct Hc as [m [<- _]]. simpl. auto. }
      clear -Hall'. unfold u. generalize (@nil vcase). induction all as [|x l IH]; simpl; intros seen c Hc; [tauto|].
      destruct (vc_mem _ _ seen).
      - eapply IH; eauto. intros c' Hc'. apply Hall'. right. exact Hc'.
      - destruct Hc as [<-|Hc]; [apply Hall'; left; reflexivity|].
        eapply IH; eauto. intros c' Hc'. apply Hall'. right. exact Hc'. }
    destruct (first_case _ (filter _ u)) as [c|] eqn:E1.
    - intros [= <-]. simpl. apply Hu. apply Hfc in E1. apply filter_In in E1. tauto.
    - destruct (first_case _ (filter (fun c => negb _) u)) as [c|] eqn:E2; [|discriminate].
      intros [= <-]. simpl. apply Hu. apply Hfc in E2. apply filter_In in E2. tauto. }
  destruct (variants_of_entry e) as [|v [|v' vs]] eqn:Ev.
  - apply Hct. intros v [].
  - destruct (Nat.leb _ 1).
    + simpl. intros [= <-]. simpl. apply Hall. left. reflexivity.
    + apply Hct. exact Hall.
  - apply Hct. exact Hall.
Qed.

Theorem no_cross_status rs code ct :
  valid_rs rs = true -> In code codes ->
  let k := o_key (parse (gen rs) code ct) in
  k = exact_key code \/ k = range_key code \/ k = "default" \/ k = "".
Proof.
  intros Hv Hc. rewrite precedence by assumption. unfold spec_parse, try_key.
  destruct (assoc (exact_key code) rs) as [r|] eqn:E1.
  - destruct (run_dispatch _ ct) as [o|] eqn:D1; [left; apply run_dispatch_key in D1; exact D1|].
    destruct (assoc (range_key code) rs) as [r2|] eqn:E2.
    + destruct (run_dispatch (dispatch_of_entry (range_key code, r2)) ct) as [o|] eqn:D2;
        [right; left; apply run_dispatch_key in D2; exact D2|].
      right. right. unfold default_outcome.
      destruct (assoc "default" rs) as [rd|].
      * destruct (variants_of_entry ("default", rd)) as [|v vs] eqn:Ev; [right; reflexivity|].
        left. simpl. destruct (variants_of_entry_tok ("default", rd) v) as [_ Hk]; [rewrite Ev; left; reflexivity|]. exact Hk.
      * destruct rs; right; reflexivity.
    + right. right. unfold default_outcome.
      destruct (assoc "default" rs) as [rd|].
      * destruct (variants_of_entry ("default", rd)) as [|v vs] eqn:Ev; [right; reflexivity|].
        left. simpl. destruct (variants_of_entry_tok ("default", rd) v) as [_ Hk]; [rewrite Ev; left; reflexivity|]. exact Hk.
      * destruct rs; right; reflexivity.
  - destruct (assoc (range_key code) rs) as [r2|] eqn:E2.
    + destruct (run_dispatch (dispatch_of_entry (range_key code, r2)) ct) as [o|] eqn:D2;
        [right; left; apply run_dispatch_key in D2; exact D2|].
      right. right. unfold default_outcome.
      destruct (assoc "default" rs) as [rd|].
      * destruct (variants_of_entry ("default", rd)) as [|v vs] eqn:Ev; [right; reflexivity|].
        left. simpl. destruct (variants_of_entry_tok ("default", rd) v) as [_ Hk]; [rewrite Ev; left; reflexivity|]. exact Hk.
      * destruct rs; right; reflexivity.
    + right. right. unfold default_outcome.
      destruct (assoc "default" rs) as [rd|].
      * destruct (variants_of_entry ("default", rd)) as [|v vs] eqn:Ev; [right; reflexivity|].
        left. simpl. destruct (variants_of_entry_tok ("default", rd) v) as [_ Hk]; [rewrite Ev; left; reflexivity|]. exact Hk.
      * destruct rs; right; reflexivity.
Qed.

(* a status declared with a single content category wins for every Content-Type *)
Definition single_category (k : string) (r : response) : bool :=
  match variants_of_entry (k, r) with
  | [v] => Nat.leb (cats_unique_count (map mt_cat (v_media v)) []) 1
  | _ => false
  end.

Theorem exact_single_wins rs code ct r :
  valid_rs rs = true -> In code codes ->
  assoc (exact_key code) rs = Some r -> single_category (exact_key code) r = true ->
  o_key (parse (gen rs) code ct) = exact_key code.
Proof.
  intros Hv Hc Ha Hs. rewrite precedence by assumption. unfold spec_parse, try_key. rewrite Ha.
  unfold single_category in Hs. unfold dispatch_of_entry, from_variants.
  destruct (variants_of_entry (exact_key code, r)) as [|v [|v' vs]] eqn:Ev; try discriminate.
  rewrite Hs. simpl. destruct (variants_of_entry_tok (exact_key code, r) v) as [_ Hk]; [rewrite Ev; left; reflexivity|].
  exact Hk.
Qed.
