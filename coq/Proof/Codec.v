From Coq Require Import ZArith Lia Wf_nat.
From OAS Require Import Lib.Str Model.Codec.
Local Open Scope list_scope.
Local Open Scope nat_scope.

(* ---------------------------------------------------------------- named forms of the inner loops *)

Definition field_here (members : list (string * json)) (f : field) : option (option value) :=
  match jassoc (fname f) members with
  | None => if is_option f then Some None else None
  | Some JNull => if is_option f then Some None else
                    (match dec (fsch f) JNull with Some v => Some (Some v) | None => None end)
  | Some x => match dec (fsch f) x with Some v => Some (Some v) | None => None end
  end.

Fixpoint dec_fields (members : list (string * json)) (fl : list field) : option (list (string * option value)) :=
  match fl with
  | [] => Some []
  | f :: r => match field_here members f, dec_fields members r with
              | Some h, Some rest => Some ((fname f, h) :: rest)
              | _, _ => None
              end
  end.

Definition members_known (fs : list field) (members : list (string * json)) : bool :=
  forallb (fun kv => existsb (fun f => String.eqb (fst kv) (fname f)) fs) members.

Lemma dec_obj fs closed members :
  dec (SObj fs closed) (JObj members) =
  if negb (negb closed || members_known fs members) then None else option_map VStruct (dec_fields members fs).
Proof.
  cbn [dec]. unfold members_known. destruct (negb (negb closed || _)); [reflexivity|]. f_equal.
  induction fs as [|f r IH]; [reflexivity|]. cbn [dec_fields]. unfold field_here at 1. rewrite <- IH. reflexivity.
Qed.

Fixpoint enc_members (l : list (string * option value)) : list (string * json) :=
  match l with
  | [] => []
  | (k, Some x) :: r => (k, enc x) :: enc_members r
  | (k, None) :: r => enc_members r
  end.

Lemma enc_struct l : enc (VStruct l) = JObj (enc_members l).
Proof. reflexivity. Qed.

Definition field_valid (members : list (string * json)) (f : field) : bool :=
  match jassoc (fname f) members with
  | None => negb (freq f)
  | Some JNull => fnull f || valid (fsch f) JNull
  | Some x => valid (fsch f) x
  end.

Lemma valid_obj fs closed members :
  valid (SObj fs closed) (JObj members) =
  keys_nodup members && (negb closed || members_known fs members) && forallb (field_valid members) fs.
Proof.
  simpl. unfold members_known. f_equal.
Qed.

(* ---------------------------------------------------------------- size induction over schemas *)

Fixpoint ssize (s : schema) : nat :=
  match s with
  | SArr it => S (ssize it)
  | SObj fs _ => S ((fix go (fl : list field) : nat :=
                       match fl with [] => O | f :: r => (match f with Field _ _ _ s' => ssize s' end) + go r end) fs)
  | _ => 1
  end.

Fixpoint fields_size (fl : list field) : nat :=
  match fl with [] => O | f :: r => ssize (fsch f) + fields_size r end.

Lemma ssize_obj fs c : ssize (SObj fs c) = S (fields_size fs).
Proof.
  cbn [ssize]. f_equal. induction fs as [|f r IH]; [reflexivity|]. cbn [fields_size]. rewrite <- IH. destruct f; reflexivity.
Qed.

Lemma field_size_le f fs : In f fs -> ssize (fsch f) <= fields_size fs.
Proof. induction fs as [|g r IH]; [intros []|]. intros [->|H]; cbn [fields_size]; [lia|]. specialize (IH H). lia. Qed.

Lemma schema_ind_size (P : schema -> Prop) :
  (forall s, (forall s', ssize s' < ssize s -> P s') -> P s) -> forall s, P s.
Proof.
  intros H s. remember (ssize s) as n eqn:E. revert s E.
  induction n as [n IH] using lt_wf_ind. intros s ->. apply H. intros s' Hlt. eapply IH; [exact Hlt|reflexivity].
Qed.

(* ---------------------------------------------------------------- C02_accepts *)

Lemma dec_all_forall (f : json -> option value) (p : json -> bool) l :
  (forall j, In j l -> p j = true -> exists v, f j = Some v) -> forallb p l = true -> exists vs, dec_all f l = Some vs.
Proof.
  induction l as [|x r IH]; simpl; intros H Hp; [eauto|].
  apply andb_true_iff in Hp. destruct Hp as [Hx Hr].
  destruct (H x (or_introl eq_refl) Hx) as [v ->].
  destruct (IH (fun j Hj => H j (or_intror Hj)) Hr) as [vs ->]. eauto.
Qed.

Theorem accepts : forall s j, valid s j = true -> exists v, dec s j = Some v.
Proof.
  induction s as [s IH] using schema_ind_size. intros j Hv.
  destruct s as [| | |it|fs closed].
  - destruct j; try discriminate. simpl. eauto.
  - destruct j; try discriminate. simpl in *. rewrite Hv. eauto.
  - destruct j; try discriminate. simpl. eauto.
  - destruct j; try discriminate. cbn [valid] in Hv. cbn [dec].
    destruct (dec_all_forall (dec it) (valid it) l) as [vs ->]; [|exact Hv|eauto].
    intros j _ Hj. apply IH; [simpl; lia|exact Hj].
  - destruct j as [| | | | |members]; try discriminate. rewrite valid_obj in Hv. rewrite dec_obj.
    apply andb_true_iff in Hv. destruct Hv as [Hv Hfs]. apply andb_true_iff in Hv. destruct Hv as [_ Hk].
    rewrite Hk. cbn [negb].
    assert (Hall : forall fl, (forall f, In f fl -> In f fs) -> forallb (field_valid members) fl = true ->
                              exists r, dec_fields members fl = Some r).
    { induction fl as [|f r IHf]; intros Hsub Hf; [simpl; eauto|].
      cbn [forallb] in Hf. apply andb_true_iff in Hf. destruct Hf as [Hf Hr]. cbn [dec_fields].
      destruct (IHf (fun g Hg => Hsub g (or_intror Hg)) Hr) as [rest ->].
      assert (Hsz : ssize (fsch f) < ssize (SObj fs closed)).
      { rewrite ssize_obj. pose proof (field_size_le f fs (Hsub f (or_introl eq_refl))). lia. }
      unfold field_valid in Hf. unfold field_here. unfold is_option.
      destruct (jassoc (fname f) members) as [x|].
      - destruct x; try (destruct (IH _ Hsz _ Hf) as [v ->]; eauto).
        destruct (negb (freq f) || fnull f) eqn:Eo; [eauto|].
        apply orb_false_iff in Eo. destruct Eo as [_ En]. rewrite En in Hf. simpl in Hf.
        destruct (IH _ Hsz _ Hf) as [v ->]. eauto.
      - rewrite Hf. simpl. eauto. }
    destruct (Hall fs (fun f H => H) Hfs) as [r ->]. simpl. eauto.
Qed.

(* ---------------------------------------------------------------- C02_roundtrip *)

(* the known class F21: a member that is both required and nullable *)
Fixpoint no_req_nullable (s : schema) : bool :=
  match s with
  | SArr it => no_req_nullable it
  | SObj fs _ => (fix go (fl : list field) : bool :=
                    match fl with [] => true | f :: r => negb (freq f && fnull f) && no_req_nullable (fsch f) && go r end) fs
  | _ => true
  end.

Definition fields_ok (fl : list field) : bool :=
  forallb (fun f => negb (freq f && fnull f) && no_req_nullable (fsch f)) fl.
Lemma nrn_obj fs c : no_req_nullable (SObj fs c) = fields_ok fs.
Proof. cbn [no_req_nullable]. unfold fields_ok. induction fs as [|f r IH]; [reflexivity|]. cbn [forallb]. rewrite <- IH. reflexivity. Qed.

Definition fields_wf (fl : list field) : bool := forallb (fun f => wf_schema (fsch f)) fl.
Lemma wf_obj fs c : wf_schema (SObj fs c) = field_names_nodup fs && fields_wf fs.
Proof. simpl. f_equal. Qed.

Lemma enc_not_null v : enc v <> JNull.
Proof. destruct v; discriminate. Qed.

Lemma dec_fields_names members fl r : dec_fields members fl = Some r -> map fst r = map fname fl.
Proof.
  revert r. induction fl as [|f fr IH]; cbn [dec_fields]; intros r H; [inversion H; reflexivity|].
  destruct (field_here members f) as [h|]; [|discriminate]. destruct (dec_fields members fr) as [rest|]; [|discriminate].
  inversion H; subst. simpl. f_equal. apply IH. reflexivity.
Qed.

Lemma jassoc_enc_members_notin k r : ~ In k (map fst r) -> jassoc k (enc_members r) = None.
Proof.
  induction r as [|[k' [x|]] r IH]; cbn [enc_members jassoc map fst]; intros H; [reflexivity| |].
  - destruct (String.eqb_spec k k') as [->|Hne]; [exfalso; apply H; left; reflexivity|]. apply IH. intros Hin. apply H. right. exact Hin.
  - apply IH. intros Hin. apply H. right. exact Hin.
Qed.

Lemma enc_members_keys r k : In k (map fst (enc_members r)) -> In k (map fst r).
Proof.
  induction r as [|[k' [x|]] r IH]; cbn [enc_members map fst]; [tauto| |].
  - intros [->|H]; [left; reflexivity|right; apply IH; exact H].
  - intros H. right. apply IH. exact H.
Qed.

Lemma names_nodup_notin f fr : field_names_nodup (f :: fr) = true -> ~ In (fname f) (map fname fr).
Proof.
  cbn [field_names_nodup]. intros H Hin. apply andb_true_iff in H. destruct H as [H _]. apply negb_true_iff in H.
  apply in_map_iff in Hin. destruct Hin as [g [Eg Hg]].
  assert (existsb (fun g0 => String.eqb (fname f) (fname g0)) fr = true).
  { apply existsb_exists. exists g. split; [exact Hg|]. rewrite Eg. apply String.eqb_refl. }
  congruence.
Qed.

Lemma keys_nodup_enc_members r : NoDup (map fst r) -> keys_nodup (enc_members r) = true.
Proof.
  induction r as [|[k [x|]] r IH]; cbn [enc_members map fst]; intros Hnd; [reflexivity| |]; inversion Hnd as [|? ? Hnotin Hnd']; subst.
  - cbn [keys_nodup]. rewrite IH by exact Hnd'. rewrite andb_true_r. apply negb_true_iff.
    destruct (existsb (fun kv => String.eqb k (fst kv)) (enc_members r)) eqn:E; [|reflexivity]. exfalso.
    apply existsb_exists in E. destruct E as [[k' y] [Hin Heq]]. apply String.eqb_eq in Heq. simpl in Heq. subst k'.
    apply Hnotin. apply enc_members_keys. apply in_map_iff. exists (k, y). auto.
  - apply IH. exact Hnd'.
Qed.

Lemma nodup_names fs : field_names_nodup fs = true -> NoDup (map fname fs).
Proof.
  induction fs as [|f r IH]; intros H; [constructor|]. constructor; [apply names_nodup_notin; exact H|].
  apply IH. cbn [field_names_nodup] in H. apply andb_true_iff in H. tauto.
Qed.

Theorem roundtrip : forall s j v,
  wf_schema s = true -> no_req_nullable s = true -> dec s j = Some v ->
  valid s (enc v) = true /\ wire_eq s j (enc v) = true.
Proof.
  induction s as [s IH] using schema_ind_size. intros j v Hwf Hnrn Hd.
  destruct s as [| | |it|fs closed].
  - destruct j; try discriminate. inversion Hd; subst. simpl. rewrite String.eqb_refl. auto.
  - destruct j; try discriminate. simpl in Hd. destruct (in_i64 z) eqn:E; [|discriminate]. inversion Hd; subst.
    simpl. rewrite E, Z.eqb_refl. auto.
  - destruct j; try discriminate. inversion Hd; subst. simpl. destruct b; auto.
  - destruct j as [| | | |l|]; try discriminate. cbn [dec] in Hd.
    destruct (dec_all (dec it) l) as [vs|] eqn:E; [|discriminate]. inversion Hd; subst v. clear Hd. cbn [enc valid wire_eq].
    simpl in Hwf, Hnrn.
    revert vs E. induction l as [|x r IHl]; intros vs E; simpl in E.
    + inversion E; subst. simpl. auto.
    + destruct (dec it x) as [vx|] eqn:Ex; [|discriminate]. destruct (dec_all (dec it) r) as [vr|] eqn:Er; [|discriminate].
      inversion E; subst. destruct (IH it ltac:(simpl; lia) x vx Hwf Hnrn Ex) as [A B].
      destruct (IHl vr eq_refl) as [C D]. simpl. rewrite A, B. simpl. split; [exact C|exact D].
  - destruct j as [| | | | |members]; try discriminate. rewrite dec_obj in Hd.
    destruct (negb (negb closed || members_known fs members)) eqn:Ek; [discriminate|].
    destruct (dec_fields members fs) as [r|] eqn:Edf; [|discriminate]. inversion Hd; subst v. clear Hd.
    rewrite enc_struct, valid_obj. rewrite wf_obj in Hwf. rewrite nrn_obj in Hnrn.
    apply andb_true_iff in Hwf. destruct Hwf as [Hnd Hfwf].
    pose proof (dec_fields_names _ _ _ Edf) as Hnames.
    assert (Hkn : keys_nodup (enc_members r) = true).
    { apply keys_nodup_enc_members. rewrite Hnames. apply nodup_names. exact Hnd. }
    assert (Hknown : members_known fs (enc_members r) = true).
    { unfold members_known. apply forallb_forall. intros [k y] Hin. apply existsb_exists.
      assert (Hk : In k (map fname fs)).
      { rewrite <- Hnames. apply enc_members_keys. apply in_map_iff. exists (k, y). auto. }
      apply in_map_iff in Hk. destruct Hk as [f [Ef Hf]]. exists f. split; [exact Hf|]. simpl. rewrite Ef. apply String.eqb_refl. }
    rewrite Hkn, Hknown, orb_true_r. cbn [andb].
    (* per-field statement, by induction over a suffix of the field list *)
    assert (Hfields : forall fl rl,
              (forall f, In f fl -> In f fs) -> field_names_nodup fl = true -> fields_wf fl = true -> fields_ok fl = true ->
              dec_fields members fl = Some rl ->
              forallb (field_valid (enc_members rl)) fl = true /\
              (forall f, In f fl ->
                 match jassoc (fname f) members, jassoc (fname f) (enc_members rl) with
                 | None, None | Some JNull, None | None, Some JNull | Some JNull, Some JNull => true
                 | Some x, Some y => wire_eq (fsch f) x y
                 | _, _ => false
                 end = true)).
    { induction fl as [|f fr IHf]; intros rl Hsub Hnd' Hwf' Hok Hdf.
      - inversion Hdf; subst. split; [reflexivity|intros f []].
      - cbn [dec_fields] in Hdf. destruct (field_here members f) as [h|] eqn:Eh; [|discriminate].
        destruct (dec_fields members fr) as [rest|] eqn:Er; [|discriminate]. inversion Hdf; subst rl. clear Hdf.
        cbn [fields_wf forallb] in Hwf'. apply andb_true_iff in Hwf'. destruct Hwf' as [Hwf_f Hwf_r].
        unfold fields_ok in Hok. cbn [forallb] in Hok. apply andb_true_iff in Hok. destruct Hok as [Hok_f Hok_r].
        apply andb_true_iff in Hok_f. destruct Hok_f as [Hrn Hnrn_f].
        pose proof (names_nodup_notin f fr Hnd') as Hnotin.
        assert (Hnd_r : field_names_nodup fr = true) by (cbn [field_names_nodup] in Hnd'; apply andb_true_iff in Hnd'; tauto).
        destruct (IHf rest (fun g Hg => Hsub g (or_intror Hg)) Hnd_r Hwf_r Hok_r eq_refl) as [IHv IHw].
        assert (Hsz : ssize (fsch f) < ssize (SObj fs closed)).
        { rewrite ssize_obj. pose proof (field_size_le f fs (Hsub f (or_introl eq_refl))). lia. }
        pose proof (dec_fields_names _ _ _ Er) as Hn_r.
        assert (Hnotin_rest : ~ In (fname f) (map fst rest)) by (rewrite Hn_r; exact Hnotin).
        (* how the tail behaves when the head entry is added in front *)
        assert (Htail_v : forallb (field_valid (enc_members ((fname f, h) :: rest))) fr = true).
        { apply forallb_forall. intros g Hg. rewrite forallb_forall in IHv. specialize (IHv g Hg).
          unfold field_valid in *. destruct h as [x|]; cbn [enc_members jassoc]; [|exact IHv].
          destruct (String.eqb_spec (fname g) (fname f)) as [E|_]; [|exact IHv].
          exfalso. apply Hnotin. rewrite <- E. apply in_map. exact Hg. }
        assert (Hjf : jassoc (fname f) (enc_members ((fname f, h) :: rest)) = match h with Some x => Some (enc x) | None => None end).
        { destruct h as [x|]; cbn [enc_members jassoc]; [rewrite String.eqb_refl; reflexivity|].
          apply jassoc_enc_members_notin. exact Hnotin_rest. }
        split.
        + cbn [forallb]. rewrite Htail_v, andb_true_r. unfold field_valid. rewrite Hjf.
          unfold field_here in Eh. unfold is_option in Eh.
          destruct (jassoc (fname f) members) as [x|] eqn:Ej.
          * destruct x; try (destruct (dec (fsch f) _) as [vx|] eqn:Ex in Eh; [|discriminate]; inversion Eh; subst h;
              destruct (IH _ Hsz _ _ Hwf_f Hnrn_f Ex) as [A _]; destruct (enc vx) eqn:Ee; try exact A; exfalso; eapply enc_not_null; eauto).
            destruct (negb (freq f) || fnull f) eqn:Eo.
            -- inversion Eh; subst h. apply negb_true_iff in Hrn. destruct (freq f), (fnull f); simpl in *; try discriminate; reflexivity.
            -- destruct (dec (fsch f) JNull) as [vx|] eqn:Ex; [|discriminate]. inversion Eh; subst h.
               destruct (IH _ Hsz _ _ Hwf_f Hnrn_f Ex) as [A _]. destruct (enc vx) eqn:Ee; try exact A. exfalso; eapply enc_not_null; eauto.
          * destruct (negb (freq f) || fnull f) eqn:Eo; [|discriminate]. inversion Eh; subst h.
            apply negb_true_iff in Hrn. destruct (freq f), (fnull f); simpl in *; try discriminate; reflexivity.
        + intros g [<-|Hg].
          * rewrite Hjf. unfold field_here in Eh. unfold is_option in Eh.
            destruct (jassoc (fname f) members) as [x|] eqn:Ej.
            -- destruct x; try (destruct (dec (fsch f) _) as [vx|] eqn:Ex in Eh; [|discriminate]; inversion Eh; subst h;
                 destruct (IH _ Hsz _ _ Hwf_f Hnrn_f Ex) as [_ B]; destruct (enc vx) eqn:Ee; try exact B; exfalso; eapply enc_not_null; eauto).
               destruct (negb (freq f) || fnull f) eqn:Eo.
               ++ inversion Eh; subst h. reflexivity.
               ++ destruct (dec (fsch f) JNull) as [vx|] eqn:Ex; [|discriminate]. inversion Eh; subst h.
                  destruct (IH _ Hsz _ _ Hwf_f Hnrn_f Ex) as [_ B]. destruct (enc vx) eqn:Ee; try exact B; try reflexivity.
            -- destruct (negb (freq f) || fnull f) eqn:Eo; [|discriminate]. inversion Eh; subst h. reflexivity.
          * specialize (IHw g Hg). destruct h as [x|]; cbn [enc_members jassoc]; [|exact IHw].
            destruct (String.eqb_spec (fname g) (fname f)) as [E|_]; [|exact IHw].
            exfalso. apply Hnotin. rewrite <- E. apply in_map. exact Hg. }
    destruct (Hfields fs r (fun f H => H) Hnd Hfwf Hnrn Edf) as [HV HW]. split; [exact HV|].
    cbn [wire_eq].
    assert (Hgo : forall fl, (forall f, In f fl -> In f fs) ->
              (fix go (fl0 : list field) : bool :=
                 match fl0 with
                 | [] => true
                 | f :: r0 =>
                     match jassoc (fname f) members, jassoc (fname f) (enc_members r) with
                     | None, None | Some JNull, None | None, Some JNull | Some JNull, Some JNull => true
                     | Some x, Some y => wire_eq (fsch f) x y
                     | _, _ => false
                     end && go r0
                 end) fl = true).
    { induction fl as [|f fr IHf]; intros Hsub; [reflexivity|].
      rewrite (HW f (Hsub f (or_introl eq_refl))). simpl. apply IHf. intros g Hg. apply Hsub. right. exact Hg. }
    apply Hgo. auto.
Qed.

(* ---------------------------------------------------------------- C02_rejects *)

Lemma dec_fields_missing members fl f :
  In f fl -> is_option f = false -> jassoc (fname f) members = None -> dec_fields members fl = None.
Proof.
  induction fl as [|g r IH]; [intros []|]. intros [->|Hin] Ho Hj; cbn [dec_fields].
  - unfold field_here. rewrite Hj, Ho. reflexivity.
  - rewrite (IH Hin Ho Hj). destruct (field_here members g); reflexivity.
Qed.

(* a required, non-nullable member that is missing: rejected *)
Theorem rejects_missing_required fs closed members f :
  In f fs -> freq f = true -> fnull f = false -> jassoc (fname f) members = None ->
  dec (SObj fs closed) (JObj members) = None.
Proof.
  intros Hin Hr Hn Hj. rewrite dec_obj. destruct (negb _); [reflexivity|].
  rewrite (dec_fields_missing members fs f Hin); [reflexivity| |exact Hj]. unfold is_option. rewrite Hr, Hn. reflexivity.
Qed.

(* an unknown member under additionalProperties: false: rejected *)
Theorem rejects_unknown_member fs members k x :
  In (k, x) members -> (forall f, In f fs -> fname f <> k) -> dec (SObj fs true) (JObj members) = None.
Proof.
  intros Hin Hno. rewrite dec_obj. cbn [negb orb].
  assert (members_known fs members = false).
  { unfold members_known. destruct (forallb _ members) eqn:E; [|reflexivity]. exfalso.
    rewrite forallb_forall in E. specialize (E (k, x) Hin). apply existsb_exists in E. destruct E as [f [Hf Heq]].
    apply String.eqb_eq in Heq. simpl in Heq. apply (Hno f Hf). symmetry. exact Heq. }
  rewrite H. reflexivity.
Qed.

(* a member of the wrong JSON type: rejected (stated for the scalar types) *)
Lemma dec_wrong_scalar s j :
  match s, j with
  | SStr, (JInt _ | JBool _ | JArr _ | JObj _ | JNull) | SInt, (JStr _ | JBool _ | JArr _ | JObj _ | JNull)
  | SBool, (JStr _ | JInt _ | JArr _ | JObj _ | JNull) | SArr _, (JStr _ | JInt _ | JBool _ | JObj _ | JNull)
  | SObj _ _, (JStr _ | JInt _ | JBool _ | JArr _ | JNull) => dec s j = None
  | _, _ => True
  end.
Proof. destruct s, j; simpl; auto. Qed.

Theorem rejects_wrong_member_type fs closed members f x :
  In f fs -> jassoc (fname f) members = Some x -> x <> JNull -> dec (fsch f) x = None ->
  dec (SObj fs closed) (JObj members) = None.
Proof.
  intros Hin Hj Hx Hd. rewrite dec_obj. destruct (negb _); [reflexivity|].
  assert (dec_fields members fs = None).
  { clear -Hin Hj Hx Hd. induction fs as [|g r IH]; [destruct Hin|]. cbn [dec_fields]. destruct Hin as [->|Hin].
    - unfold field_here. rewrite Hj. destruct x; try congruence; rewrite Hd; reflexivity.
    - rewrite (IH Hin). destruct (field_here members g); reflexivity. }
  rewrite H. reflexivity.
Qed.
