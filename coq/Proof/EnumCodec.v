From Coq Require Import ZArith.
From OAS Require Import Lib.Str Model.Ident Model.EnumCodec Proof.Ident.
Local Open Scope list_scope.

Definition acc (vs : list variant) : list astr := flat_map (fun v => v_rename v :: v_alias v) vs.

Lemma astr_mem_In x l : astr_mem x l = true <-> In x l.
Proof.
  induction l as [|y l IH]; simpl; [split; [discriminate|tauto]|].
  rewrite orb_true_iff, IH, astr_eqb_eq. split; intros [H|H]; auto.
Qed.

Lemma dec_some_iff vs s : (exists v, dec_strict vs s = Some v) <-> In s (acc vs).
Proof.
  unfold dec_strict, acc. induction vs as [|v r IH]; simpl.
  - split; [intros [v H]; discriminate|tauto].
  - destruct (astr_eqb (v_rename v) s || astr_mem s (v_alias v)) eqn:E.
    + split; [intros _|eauto]. apply orb_true_iff in E. destruct E as [E|E].
      * apply astr_eqb_eq in E. left. exact E.
      * apply astr_mem_In in E. right. apply in_or_app. left. exact E.
    + apply orb_false_iff in E. destruct E as [E1 E2]. rewrite IH. split.
      * intros H. right. apply in_or_app. right. exact H.
      * intros [H|H]; [subst; rewrite (proj2 (astr_eqb_eq _ _) eq_refl) in E1; discriminate|].
        apply in_app_or in H. destruct H as [H|H]; [|exact H].
        apply astr_mem_In in H. congruence.
Qed.

Lemma acc_app a b : acc (a ++ b) = acc a ++ acc b.
Proof. unfold acc. apply flat_map_app. Qed.

Lemma acc_add_alias name al vs s :
  has_name name vs = true -> (In s (acc (add_alias name al vs)) <-> In s (acc vs) \/ s = al).
Proof.
  induction vs as [|v r IH]; simpl; [discriminate|].
  destruct (astr_eqb (v_name v) name) eqn:E; simpl.
  - intros _. unfold acc. simpl. rewrite !in_app_iff. simpl. fold (acc r). intuition (subst; auto).
  - intros H. unfold acc in *. simpl. rewrite !in_app_iff. fold (acc r) (acc (add_alias name al r)). rewrite IH by exact H.
    intuition.
Qed.

(* the strings accepted by the built enum are exactly the rename texts of the entries (merge mode) *)
Lemma acc_build_merge entries i vs s :
  In s (acc (build true entries i vs)) <-> In s (acc vs) \/ exists e n, In e entries /\ normalize e = Some (n, s).
Proof.
  revert i vs. induction entries as [|e r IH]; intros i vs; simpl.
  - split; [auto|intros [H|[e [n [[] _]]]]; exact H].
  - destruct (normalize e) as [[name ren]|] eqn:En.
    + destruct (has_name name vs) eqn:Eh.
      * rewrite IH, acc_add_alias by exact Eh. split.
        -- intros [[H|H]|[e' [n [Hin Hn]]]]; [left; exact H|subst; right; exists e, name; auto|right; exists e', n; auto].
        -- intros [H|[e' [n [[<-|Hin] Hn]]]]; [left; left; exact H| |right; eauto].
           rewrite En in Hn. inversion Hn; subst. left. right. reflexivity.
      * rewrite IH, acc_app. unfold acc at 2. simpl. rewrite in_app_iff. simpl. split.
        -- intros [[H|[H|[]]]|[e' [n [Hin Hn]]]]; [left; exact H|subst; right; exists e, name; auto|right; exists e', n; auto].
        -- intros [H|[e' [n [[<-|Hin] Hn]]]]; [left; left; exact H| |right; eauto].
           rewrite En in Hn. inversion Hn; subst. left. right. left. reflexivity.
    + rewrite IH. split.
      * intros [H|[e' [n [Hin Hn]]]]; [left; exact H|right; exists e', n; auto].
      * intros [H|[e' [n [[<-|Hin] Hn]]]]; [left; exact H|congruence|right; eauto].
Qed.

(* same for preserve mode *)
Lemma acc_build_preserve entries i vs s :
  In s (acc (build false entries i vs)) <-> In s (acc vs) \/ exists e n, In e entries /\ normalize e = Some (n, s).
Proof.
  revert i vs. induction entries as [|e r IH]; intros i vs; simpl.
  - split; [auto|intros [H|[e [n [[] _]]]]; exact H].
  - destruct (normalize e) as [[name ren]|] eqn:En.
    + destruct (has_name name vs) eqn:Eh; rewrite IH, acc_app; unfold acc at 2; simpl; rewrite in_app_iff; simpl; split.
      * intros [[H|[H|[]]]|[e' [n [Hin Hn]]]]; [left; exact H|subst; right; exists e, name; auto|right; exists e', n; auto].
      * intros [H|[e' [n [[<-|Hin] Hn]]]]; [left; left; exact H| |right; eauto].
        rewrite En in Hn. inversion Hn; subst. left. right. left. reflexivity.
      * intros [[H|[H|[]]]|[e' [n [Hin Hn]]]]; [left; exact H|subst; right; exists e, name; auto|right; exists e', n; auto].
      * intros [H|[e' [n [[<-|Hin] Hn]]]]; [left; left; exact H| |right; eauto].
        rewrite En in Hn. inversion Hn; subst. left. right. left. reflexivity.
    + rewrite IH. split.
      * intros [H|[e' [n [Hin Hn]]]]; [left; exact H|right; exists e', n; auto].
      * intros [H|[e' [n [[<-|Hin] Hn]]]]; [left; exact H|congruence|right; eauto].
Qed.

Theorem merge_accepts entries e n r :
  In e entries -> normalize e = Some (n, r) -> exists v, dec_strict (build_enum true entries) r = Some v.
Proof.
  intros Hin Hn. apply dec_some_iff. unfold build_enum. apply acc_build_merge. right. eauto.
Qed.

Theorem merge_rejects entries s :
  (forall e n, In e entries -> normalize e <> Some (n, s)) -> dec_strict (build_enum true entries) s = None.
Proof.
  intros H. destruct (dec_strict (build_enum true entries) s) as [v|] eqn:E; [|reflexivity]. exfalso.
  assert (Hin : In s (acc (build_enum true entries))) by (apply dec_some_iff; eauto).
  unfold build_enum in Hin. apply acc_build_merge in Hin. destruct Hin as [[]|[e [n [He Hn]]]]. eapply H; eauto.
Qed.

(* preserve mode never creates aliases, so a decoded value re-encodes to exactly itself *)
Lemma build_preserve_no_alias entries i vs :
  (forall v, In v vs -> v_alias v = []) -> forall v, In v (build false entries i vs) -> v_alias v = [].
Proof.
  revert i vs. induction entries as [|e r IH]; intros i vs H; simpl; [exact H|].
  destruct (normalize e) as [[name ren]|]; [|apply IH; exact H].
  destruct (has_name name vs); apply IH; intros v Hv; apply in_app_or in Hv; destruct Hv as [Hv|[<-|[]]]; auto.
Qed.

Theorem preserve_roundtrip entries e n r :
  In e entries -> normalize e = Some (n, r) ->
  exists v, dec_strict (build_enum false entries) r = Some v /\ enc v = r.
Proof.
  intros Hin Hn.
  assert (Hex : exists v, dec_strict (build_enum false entries) r = Some v).
  { apply dec_some_iff. unfold build_enum. apply acc_build_preserve. right. eauto. }
  destruct Hex as [v Hv]. exists v. split; [exact Hv|].
  unfold dec_strict in Hv. apply find_some in Hv. destruct Hv as [Hvin Hp].
  rewrite (build_preserve_no_alias entries 0 [] (fun v (H : In v []) => match H with end) v Hvin) in Hp.
  simpl in Hp. rewrite orb_false_r in Hp. apply astr_eqb_eq in Hp. exact Hp.
Qed.

Theorem preserve_rejects entries s :
  (forall e n, In e entries -> normalize e <> Some (n, s)) -> dec_strict (build_enum false entries) s = None.
Proof.
  intros H. destruct (dec_strict (build_enum false entries) s) as [v|] eqn:E; [|reflexivity]. exfalso.
  assert (Hin : In s (acc (build_enum false entries))) by (apply dec_some_iff; eauto).
  unfold build_enum in Hin. apply acc_build_preserve in Hin. destruct Hin as [[]|[e [n [He Hn]]]]. eapply H; eauto.
Qed.

(* relaxed mode: every letter-case spelling of a declared value is accepted and encodes as a declared value *)
Theorem relaxed_accepts entries e n r s :
  In e entries -> normalize e = Some (n, r) -> lower_a s = lower_a r ->
  exists v, dec_relaxed (build_enum true entries) s = Some v /\ In (enc v) (acc (build_enum true entries)).
Proof.
  intros Hin Hn Hl.
  destruct (merge_accepts entries e n r Hin Hn) as [v0 Hv0].
  unfold dec_strict in Hv0. apply find_some in Hv0. destruct Hv0 as [Hv0in Hp].
  assert (Hacc : astr_mem (lower_a s) (accepted_lower v0) = true).
  { apply astr_mem_In. unfold accepted_lower. apply in_map_iff. exists r. split; [symmetry; exact Hl|].
    apply orb_true_iff in Hp. destruct Hp as [Hp|Hp]; [apply astr_eqb_eq in Hp; left; exact Hp|right; apply astr_mem_In; exact Hp]. }
  unfold dec_relaxed.
  destruct (find (fun v => astr_mem (lower_a s) (accepted_lower v)) (build_enum true entries)) as [v|] eqn:F.
  - exists v. split; [reflexivity|]. apply find_some in F. destruct F as [Fin _].
    unfold acc. apply in_flat_map. exists v. split; [exact Fin|left; reflexivity].
  - exfalso. pose proof (find_none _ _ F v0 Hv0in) as Hc. cbv beta in Hc. congruence.
Qed.

(* ... and a string that is not a declared value up to ASCII case is rejected *)
Theorem relaxed_rejects entries s :
  fallback (build_enum true entries) = None ->
  (forall e n r, In e entries -> normalize e = Some (n, r) -> lower_a r <> lower_a s) ->
  dec_relaxed (build_enum true entries) s = None.
Proof.
  intros Hfb H. unfold dec_relaxed.
  destruct (find (fun v => astr_mem (lower_a s) (accepted_lower v)) (build_enum true entries)) as [v|] eqn:F; [|exact Hfb].
  exfalso. apply find_some in F. destruct F as [Fin Fp]. apply astr_mem_In in Fp.
  unfold accepted_lower in Fp. apply in_map_iff in Fp. destruct Fp as [r [Hr Hrin]].
  assert (Hacc : In r (acc (build_enum true entries))) by (unfold acc; apply in_flat_map; exists v; auto).
  unfold build_enum in Hacc. apply acc_build_merge in Hacc. destruct Hacc as [[]|[e [n [He Hn]]]].
  apply (H e n r He Hn). exact Hr.
Qed.

(* with a variant named Unknown / Other every undeclared string is accepted (as that variant) *)
Theorem relaxed_fallback_swallows entries s fb :
  fallback (build_enum true entries) = Some fb ->
  exists v, dec_relaxed (build_enum true entries) s = Some v.
Proof.
  intros Hfb. unfold dec_relaxed.
  destruct (find (fun v => astr_mem (lower_a s) (accepted_lower v)) (build_enum true entries)) as [v|]; eauto.
Qed.
