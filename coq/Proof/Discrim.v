From Coq Require Import List Bool String Lia.
From OAS Require Import Lib.Str Model.Discrim.
Import ListNotations.
Local Open Scope string_scope.
Local Open Scope list_scope.

Lemma mem_In x l : Str.mem x l = true <-> In x l.
Proof.
  induction l as [|y r IH]; cbn [Str.mem In]; [split; [discriminate | tauto]|].
  destruct (String.eqb x y) eqn:E.
  - apply String.eqb_eq in E. subst. intuition.
  - apply String.eqb_neq in E. rewrite IH. intuition congruence.
Qed.

(* which (schema, tag) pairs an arm list holds *)
Definition holds (a : list (string * list string)) (s t : string) : Prop := exists ts, In (s, ts) a /\ In t ts.

Lemma add_tag_holds s t a s' t' : holds (add_tag s t a) s' t' <-> (s' = s /\ t' = t) \/ holds a s' t'.
Proof.
  induction a as [|[s0 ts0] r IH]; cbn [add_tag].
  - unfold holds. cbn [In]. split.
    + intros [ts [[Eq|[]] Ht]]. injection Eq as <- <-. destruct Ht as [<-|[]]. left. auto.
    + intros [[-> ->]|[ts [[] _]]]. exists [t]. cbn [In]. auto.
  - destruct (String.eqb s s0) eqn:E.
    + apply String.eqb_eq in E. subst s0. unfold holds. cbn [In]. split.
      * intros [ts [[Eq|Hin] Ht]].
        -- injection Eq as <- <-. apply in_app_or in Ht. destruct Ht as [Ht|[<-|[]]]; [right; exists ts0; auto | left; auto].
        -- right. exists ts. auto.
      * intros [[-> ->]|[ts [[Eq|Hin] Ht]]].
        -- exists (ts0 ++ [t]). split; [left; reflexivity | apply in_or_app; right; left; reflexivity].
        -- injection Eq as <- <-. exists (ts0 ++ [t]). split; [left; reflexivity | apply in_or_app; left; exact Ht].
        -- exists ts. auto.
    + destruct (String.ltb s s0).
      * unfold holds. cbn [In]. split.
        -- intros [ts [[Eq|Hin] Ht]]; [injection Eq as <- <-; destruct Ht as [<-|[]]; left; auto | right; exists ts; auto].
        -- intros [[-> ->]|[ts [Hin Ht]]]; [exists [t]; cbn [In]; auto | exists ts; auto].
      * unfold holds in *. cbn [In]. split.
        -- intros [ts [[Eq|Hin] Ht]].
           ++ right. exists ts. auto.
           ++ destruct (proj1 IH (ex_intro _ ts (conj Hin Ht))) as [H|[ts' [H1 H2]]]; [left; exact H | right; exists ts'; auto].
        -- intros [H|[ts [[Eq|Hin] Ht]]].
           ++ destruct (proj2 IH (or_introl H)) as [ts' [H1 H2]]. exists ts'. auto.
           ++ exists ts. auto.
           ++ destruct (proj2 IH (or_intror (ex_intro _ ts (conj Hin Ht)))) as [ts' [H1 H2]]. exists ts'. auto.
Qed.

Lemma group_holds_gen m : forall acc s t,
  holds (fold_left (fun acc e => add_tag (snd e) (fst e) acc) m acc) s t <-> In (t, s) m \/ holds acc s t.
Proof.
  induction m as [|[t0 s0] r IH]; intros acc s t; cbn [fold_left In].
  - tauto.
  - rewrite IH. cbn [fst snd]. rewrite add_tag_holds. split.
    + intros [H|[[-> ->]|H]]; auto.
    + intros [[E|H]|H]; auto. injection E as -> ->. auto.
Qed.

Lemma group_holds m s t : holds (group m) s t <-> In (t, s) m.
Proof.
  unfold group. rewrite group_holds_gen. split; [|auto]. intros [H|[ts [[] _]]]. exact H.
Qed.

Lemma find_arm_some a t s : find_arm a t = Some s -> holds a s t.
Proof.
  induction a as [|[s0 ts0] r IH]; cbn [find_arm]; [discriminate|].
  destruct (Str.mem t ts0) eqn:E.
  - intros H. injection H as <-. exists ts0. split; [left; reflexivity | apply mem_In; exact E].
  - intros H. destruct (IH H) as [ts [H1 H2]]. exists ts. split; [right; exact H1 | exact H2].
Qed.

Lemma find_arm_none a t : find_arm a t = None -> forall s, ~ holds a s t.
Proof.
  induction a as [|[s0 ts0] r IH]; cbn [find_arm]; intros H s [ts [Hin Ht]]; [destruct Hin|].
  destruct (Str.mem t ts0) eqn:E; [discriminate|].
  destruct Hin as [Eq|Hin].
  - injection Eq as <- <-. apply mem_In in Ht. congruence.
  - apply (IH H s). exists ts. auto.
Qed.

Definition functional (m : mapping) : Prop := forall t s s', In (t, s) m -> In (t, s') m -> s = s'.

Lemma find_arm_group m t s : functional m -> In (t, s) m -> find_arm (group m) t = Some s.
Proof.
  intros F H. destruct (find_arm (group m) t) as [s0|] eqn:E.
  - apply find_arm_some in E. apply group_holds in E. f_equal. eapply F; eauto.
  - exfalso. apply (find_arm_none _ _ E s). apply group_holds. exact H.
Qed.

Lemma find_arm_group_none m t : (forall s, ~ In (t, s) m) -> find_arm (group m) t = None.
Proof.
  intros H. destruct (find_arm (group m) t) as [s0|] eqn:E; [|reflexivity].
  apply find_arm_some in E. apply group_holds in E. destruct (H _ E).
Qed.

Lemma functional_filter m p : functional m -> functional (filter p m).
Proof. intros F t s s' H1 H2. apply filter_In in H1, H2. eapply F; [apply H1 | apply H2]. Qed.

Lemma filter_holds (members : list string) a s t :
  holds (filter (fun x => Str.mem (fst x) members) a) s t <-> holds a s t /\ In s members.
Proof.
  unfold holds. split.
  - intros [ts [Hin Ht]]. apply filter_In in Hin. destruct Hin as [Hin Hm]. cbn [fst] in Hm. apply mem_In in Hm.
    split; [exists ts; auto | exact Hm].
  - intros [[ts [Hin Ht]] Hm]. exists ts. split; [|exact Ht]. apply filter_In. split; [exact Hin|]. cbn [fst]. apply mem_In. exact Hm.
Qed.

Definition functionalb (m : mapping) : bool :=
  forallb (fun e => forallb (fun e' => implb (String.eqb (fst e) (fst e')) (String.eqb (snd e) (snd e'))) m) m.

Lemma functionalb_sound m : functionalb m = true -> functional m.
Proof.
  unfold functionalb. rewrite forallb_forall. intros H t s s' H1 H2.
  specialize (H (t, s) H1). rewrite forallb_forall in H. specialize (H (t, s') H2). cbn [fst snd] in H.
  rewrite String.eqb_refl in H. cbn [implb] in H. apply String.eqb_eq in H. exact H.
Qed.

(* ---------- implicit mapping ---------- *)
Lemma synth_acc_spec members consts : forall seen acc m,
  synth_acc members consts seen acc = Some m ->
  (forall t s, In (t, s) acc -> In t seen) ->
  (forall t s, In (t, s) m -> In (t, s) acc \/ (In s members /\ consts s = Some (Some t)))
  /\ (forall s, In s members -> exists t, In (t, s) m)
  /\ (forall t s, In (t, s) acc -> In (t, s) m)
  /\ (functional acc -> functional m).
Proof.
  induction members as [|x r IH]; intros seen acc m H Hseen; cbn [synth_acc] in H.
  - injection H as <-. repeat split; auto. intros s [].
  - destruct (consts x) as [[v|]|] eqn:Cx; try discriminate.
    destruct (Str.mem v seen) eqn:Mv; [discriminate|].
    assert (Hseen' : forall t s, In (t, s) (acc ++ [(v, x)]) -> In t (v :: seen)).
    { intros t s Hin. apply in_app_or in Hin. destruct Hin as [Hin|[E|[]]]; [right; eapply Hseen; eauto | injection E as <- <-; left; reflexivity]. }
    destruct (IH (v :: seen) (acc ++ [(v, x)]) m H Hseen') as [A [B [C D]]].
    repeat split.
    + intros t s Hin. destruct (A t s Hin) as [Hacc|[Hr Hc]].
      * apply in_app_or in Hacc. destruct Hacc as [Hacc|[E|[]]]; [left; exact Hacc|].
        injection E as <- <-. right. split; [left; reflexivity | exact Cx].
      * right. split; [right; exact Hr | exact Hc].
    + intros s [<-|Hs].
      * exists v. apply C. apply in_or_app. right. left. reflexivity.
      * apply B. exact Hs.
    + intros t s Hin. apply C. apply in_or_app. left. exact Hin.
    + intros F. apply D. intros t s s' H1 H2. apply in_app_or in H1, H2.
      destruct H1 as [H1|[E1|[]]], H2 as [H2|[E2|[]]].
      * eapply F; eauto.
      * injection E2 as <- <-. exfalso. apply Hseen in H1. apply mem_In in H1. congruence.
      * injection E1 as <- <-. exfalso. apply Hseen in H2. apply mem_In in H2. congruence.
      * congruence.
Qed.

Theorem synth_spec members consts m : synth members consts = Some m ->
  functional m /\ (forall s, In s members -> exists t, In (t, s) m)
  /\ (forall t s, In (t, s) m -> In s members /\ consts s = Some (Some t)).
Proof.
  unfold synth. destruct members as [|x r] eqn:E; [discriminate|]. rewrite <- E. intros H.
  destruct (synth_acc_spec members consts [] [] m H) as [A [B [_ D]]]; [intros t s []|].
  repeat split.
  - apply D. intros t s s' [].
  - exact B.
  - destruct (A t s H0) as [[]|[H1 H2]]; exact H1.
  - destruct (A t s H0) as [[]|[H1 H2]]; exact H2.
Qed.
