From Coq Require Import List Bool Arith Lia.
From OAS Require Import Model.SerdeUsage.
Import ListNotations.

Section Proofs.
  Variable succ : nat -> list nat.

  (* one flag bit at a time *)
  Variable pi : flags -> bool.
  Hypothesis pi_or : forall a b, pi (f_or a b) = pi a || pi b.
  Hypothesis pi_eq : forall a b, f_eqb a b = true -> pi a = pi b.
  Hypothesis pi_ff : pi (false, false) = false.
  Hypothesis pi_tt : pi (true, true) = true.

  Definition Inv (u : usage) (wl : list (nat * flags)) : Prop :=
    forall a, pi (get u a) = true ->
      (forall b, In b (succ a) -> pi (get u b) = true) \/ (exists f, In (a, f) wl /\ pi f = true).

  Lemma get_set_same u k f : get (set u k f) k = f.
  Proof. unfold get, set. rewrite Nat.eqb_refl. reflexivity. Qed.
  Lemma get_set_other u k f x : x <> k -> get (set u k f) x = get u x.
  Proof. intros H. unfold get, set. apply Nat.eqb_neq in H. rewrite H. reflexivity. Qed.

  (* relax only grows the flags, keeps the old worklist, and covers every newly set bit by a push *)
  Lemma relax_spec deps f u wl u' wl' :
    relax deps f u wl = (u', wl') ->
    (forall x, pi (get u x) = true -> pi (get u' x) = true) /\
    (forall d, In d deps -> pi f = true -> pi (get u' d) = true) /\
    (forall e, In e wl -> In e wl') /\
    (forall x, pi (get u' x) = true -> pi (get u x) = true \/ exists g, In (x, g) wl' /\ pi g = true).
  Proof.
    revert u wl u' wl'. induction deps as [|d r IH]; intros u wl u' wl' H; simpl in H.
    - inversion H; subst. split; [auto|]. split; [intros d []|]. split; auto.
    - set (prev := get u d) in *. set (nw := f_or prev f) in *. set (u1 := set u d nw) in *.
      assert (Hmono1 : forall x, pi (get u x) = true -> pi (get u1 x) = true).
      { intros x Hx. unfold u1. destruct (Nat.eq_dec x d) as [->|Hne].
        - rewrite get_set_same. unfold nw, prev. rewrite pi_or, Hx. reflexivity.
        - rewrite get_set_other by exact Hne. exact Hx. }
      destruct (f_eqb nw prev) eqn:E.
      + destruct (IH _ _ _ _ H) as [M [A [K N]]]. repeat split.
        * intros x Hx. apply M. apply Hmono1. exact Hx.
        * intros d0 [<-|Hin] Hf; [|apply A; assumption].
          apply M. unfold u1. rewrite get_set_same. unfold nw. rewrite pi_or, Hf. apply orb_true_r.
        * exact K.
        * intros x Hx. destruct (N x Hx) as [Hx1|Hex]; [|right; exact Hex].
          unfold u1 in Hx1. destruct (Nat.eq_dec x d) as [->|Hne].
          -- rewrite get_set_same in Hx1. rewrite (pi_eq _ _ E) in Hx1. left. exact Hx1.
          -- rewrite get_set_other in Hx1 by exact Hne. left. exact Hx1.
      + destruct (IH _ _ _ _ H) as [M [A [K N]]]. repeat split.
        * intros x Hx. apply M. apply Hmono1. exact Hx.
        * intros d0 [<-|Hin] Hf; [|apply A; assumption].
          apply M. unfold u1. rewrite get_set_same. unfold nw. rewrite pi_or, Hf. apply orb_true_r.
        * intros e He. apply K. apply in_or_app. left. exact He.
        * intros x Hx. destruct (N x Hx) as [Hx1|Hex]; [|right; exact Hex].
          unfold u1 in Hx1. destruct (Nat.eq_dec x d) as [->|Hne].
          -- rewrite get_set_same in Hx1. right. exists nw. split; [|exact Hx1].
             apply K. apply in_or_app. right. left. reflexivity.
          -- rewrite get_set_other in Hx1 by exact Hne. left. exact Hx1.
  Qed.

  Lemma drain_inv fuel u wl u' wl' : drain succ fuel u wl = (u', wl') -> Inv u wl -> Inv u' wl'.
  Proof.
    revert u wl u' wl'. induction fuel as [|k IH]; intros u wl u' wl' H HI; simpl in H.
    - inversion H; subst. exact HI.
    - destruct wl as [|[n fl] rest]; [inversion H; subst; exact HI|].
      destruct (relax (succ n) fl u rest) as [u1 wl1] eqn:R.
      apply (IH _ _ _ _ H). destruct (relax_spec _ _ _ _ _ _ R) as [M [A [K N]]].
      intros a Ha. destruct (N a Ha) as [Hold|Hnew]; [|right; exact Hnew].
      destruct (HI a Hold) as [Hall|[g [Hin Hg]]].
      + left. intros b Hb. apply M. apply Hall. exact Hb.
      + destruct Hin as [Heq|Hin].
        * inversion Heq; subst. left. intros b Hb. apply A; assumption.
        * right. exists g. split; [apply K; exact Hin|exact Hg].
  Qed.

  Lemma drain_mono fuel u wl u' wl' x :
    drain succ fuel u wl = (u', wl') -> pi (get u x) = true -> pi (get u' x) = true.
  Proof.
    revert u wl u' wl'. induction fuel as [|k IH]; intros u wl u' wl' H Hx; simpl in H.
    - inversion H; subst. exact Hx.
    - destruct wl as [|[n fl] rest]; [inversion H; subst; exact Hx|].
      destruct (relax (succ n) fl u rest) as [u1 wl1] eqn:R.
      apply (IH _ _ _ _ H). destruct (relax_spec _ _ _ _ _ _ R) as [M _]. apply M. exact Hx.
  Qed.

  Variable nodes : list nat.
  Hypothesis outside_no_succ : forall a, ~ In a nodes -> succ a = [].

  Lemma seeds_inv u : Inv u (seeds_worklist nodes u).
  Proof.
    intros a Ha. destruct (in_dec Nat.eq_dec a nodes) as [Hin|Hout].
    - right. exists (get u a). split; [|exact Ha].
      unfold seeds_worklist. apply in_flat_map. exists a. split; [exact Hin|].
      unfold get in *. destruct (u a) as [f|]; [left; reflexivity|]. rewrite pi_ff in Ha. discriminate.
    - left. rewrite (outside_no_succ a Hout). intros b [].
  Qed.

  Lemma mark_orphans_get os u x :
    get (mark_orphans os u) x = if existsb (Nat.eqb x) os then (true, true) else get u x.
  Proof.
    revert u. induction os as [|o r IH]; intros u; simpl; [reflexivity|].
    unfold mark_orphans in *. simpl. rewrite IH.
    destruct (existsb (Nat.eqb x) r) eqn:E; [rewrite orb_true_r; reflexivity|]. rewrite orb_false_r.
    destruct (Nat.eqb x o) eqn:Eo.
    - apply Nat.eqb_eq in Eo. subst. apply get_set_same.
    - apply Nat.eqb_neq in Eo. apply get_set_other. exact Eo.
  Qed.

  Lemma orphan_inv u : Inv u [] -> Inv (mark_orphans (orphans nodes u) u) (map (fun n => (n, (true, true))) (orphans nodes u)).
  Proof.
    intros HI a Ha. rewrite mark_orphans_get in Ha.
    destruct (existsb (Nat.eqb a) (orphans nodes u)) eqn:E.
    - right. exists (true, true). split; [|exact pi_tt].
      apply existsb_exists in E. destruct E as [o [Ho Eo]]. apply Nat.eqb_eq in Eo. subst o.
      apply in_map_iff. exists a. auto.
    - destruct (HI a Ha) as [Hall|[f [[] _]]]. left. intros b Hb.
      rewrite mark_orphans_get. destruct (existsb (Nat.eqb b) _); [exact pi_tt|apply Hall; exact Hb].
  Qed.

  (* after both passes, with the worklists drained: the bit is closed downward *)
  Lemma propagate_bit fuel u0 u3 :
    propagate succ fuel nodes u0 = (u3, []) ->
    forall a b, In b (succ a) -> pi (get u3 a) = true -> pi (get u3 b) = true.
  Proof.
    unfold propagate. destruct (drain succ fuel u0 (seeds_worklist nodes u0)) as [u1 w1] eqn:D1.
    destruct (drain succ fuel (mark_orphans (orphans nodes u1) u1) _) as [u3' w3] eqn:D3.
    intros H. inversion H as [[Hu Hw]]. subst u3'. apply app_eq_nil in Hw. destruct Hw as [-> ->].
    pose proof (drain_inv _ _ _ _ _ D1 (seeds_inv u0)) as I1.
    pose proof (drain_inv _ _ _ _ _ D3 (orphan_inv u1 I1)) as I3.
    intros a b Hb Ha. destruct (I3 a Ha) as [Hall|[f [[] _]]]. apply Hall. exact Hb.
  Qed.
End Proofs.

(* ------------------------------------------------------------------ both bits *)

Lemma fst_eq a b : f_eqb a b = true -> fst a = fst b.
Proof. unfold f_eqb. intros H. apply andb_true_iff in H. destruct H as [H _]. apply Bool.eqb_prop. exact H. Qed.
Lemma snd_eq a b : f_eqb a b = true -> snd a = snd b.
Proof. unfold f_eqb. intros H. apply andb_true_iff in H. destruct H as [_ H]. apply Bool.eqb_prop. exact H. Qed.

(* C01 (wf_bounds): when the propagation has drained its worklists, the usage flags are closed downward
   along type dependencies — a type used in requests (responses) only mentions types that are also marked
   as used in requests (responses), so every derive(Serialize/Deserialize) finds its bounds. *)
Theorem serde_usage_closed succ nodes fuel u0 u3 :
  (forall a, ~ In a nodes -> succ a = []) ->
  propagate succ fuel nodes u0 = (u3, []) ->
  forall a b, In b (succ a) -> f_le (get u3 a) (get u3 b) = true.
Proof.
  intros Hout H a b Hb. unfold f_le.
  pose proof (propagate_bit succ fst (fun _ _ => eq_refl) fst_eq eq_refl eq_refl nodes Hout fuel u0 u3 H a b Hb) as H1.
  pose proof (propagate_bit succ snd (fun _ _ => eq_refl) snd_eq eq_refl eq_refl nodes Hout fuel u0 u3 H a b Hb) as H2.
  destruct (fst (get u3 a)), (snd (get u3 a)); simpl; rewrite ?H1, ?H2 by reflexivity; reflexivity.
Qed.

(* ------------------------------------------------------------------ termination: the worklist drains *)

Section Termination.
  Variable succ : nat -> list nat.
  Variable nodes : list nat.
  Hypothesis nodes_nodup : NoDup nodes.
  Hypothesis succ_in : forall a b, In b (succ a) -> In b nodes.

  Definition bits (f : flags) : nat := (if fst f then 1 else 0) + (if snd f then 1 else 0).
  Definition total (l : list nat) (u : usage) : nat := fold_right (fun n acc => bits (get u n) + acc) 0 l.

  Lemma bits_le2 f : bits f <= 2. Proof. destruct f as [[] []]; unfold bits; simpl; lia. Qed.
  Lemma total_le l u : total l u <= 2 * length l.
  Proof. induction l as [|n l IH]; simpl; [lia|]. pose proof (bits_le2 (get u n)). lia. Qed.

  Lemma total_set_notin l u d f : ~ In d l -> total l (set u d f) = total l u.
  Proof.
    induction l as [|n l IH]; simpl; intros H; [reflexivity|].
    rewrite get_set_other by (intros ->; apply H; left; reflexivity). rewrite IH; [reflexivity|].
    intros Hin. apply H. right. exact Hin.
  Qed.

  Lemma total_set_in l u d f : NoDup l -> In d l -> total l (set u d f) + bits (get u d) = total l u + bits f.
  Proof.
    induction l as [|n l IH]; simpl; intros Hnd Hin; [destruct Hin|].
    inversion Hnd as [|? ? Hnotin Hnd']; subst. destruct Hin as [->|Hin].
    - rewrite get_set_same, total_set_notin by exact Hnotin. lia.
    - rewrite get_set_other by (intros ->; contradiction). specialize (IH Hnd' Hin). lia.
  Qed.

  Lemma bits_or_ge a b : bits a <= bits (f_or a b).
  Proof. destruct a as [[] []], b as [[] []]; unfold bits, f_or; simpl; lia. Qed.
  Lemma bits_or_gt a b : f_eqb (f_or a b) a = false -> bits a < bits (f_or a b).
  Proof. destruct a as [[] []], b as [[] []]; unfold bits, f_or, f_eqb; simpl; intros H; try discriminate; lia. Qed.

  Lemma relax_measure deps f u wl u' wl' :
    (forall d, In d deps -> In d nodes) ->
    relax deps f u wl = (u', wl') ->
    length wl' + total nodes u <= length wl + total nodes u'.
  Proof.
    revert u wl u' wl'. induction deps as [|d r IH]; intros u wl u' wl' Hin H; simpl in H.
    - inversion H; subst. lia.
    - pose proof (total_set_in nodes u d (f_or (get u d) f) nodes_nodup (Hin d (or_introl eq_refl))) as T.
      assert (Hr : forall x, In x r -> In x nodes) by (intros x Hx; apply Hin; right; exact Hx).
      destruct (f_eqb (f_or (get u d) f) (get u d)) eqn:E.
      + specialize (IH _ _ _ _ Hr H). pose proof (bits_or_ge (get u d) f). lia.
      + specialize (IH _ _ _ _ Hr H). rewrite app_length in IH. simpl in IH.
        pose proof (bits_or_gt (get u d) f E). lia.
  Qed.

  (* fuel = |worklist| + 2|nodes| + 1 always suffices *)
  Theorem drain_terminates fuel u wl :
    length wl + 2 * length nodes < fuel + total nodes u ->
    snd (drain succ fuel u wl) = [].
  Proof.
    revert u wl. induction fuel as [|k IH]; intros u wl Hf.
    - pose proof (total_le nodes u). lia.
    - simpl. destruct wl as [|[n fl] rest]; [reflexivity|].
      destruct (relax (succ n) fl u rest) as [u1 wl1] eqn:R.
      apply IH. pose proof (relax_measure _ _ _ _ _ _ (succ_in n) R) as M.
      simpl in Hf. pose proof (total_le nodes u1). lia.
  Qed.
End Termination.
