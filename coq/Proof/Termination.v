From Coq Require Import List Arith Lia Bool.
From OAS Require Import Model.Termination.
Import ListNotations.

(* ---------------------------------------------------------------- allOf cycle: compute_depth never returns *)

Definition cyc (n : nat) : list nat := match n with 0 => [1] | 1 => [0] | _ => [] end.
Definition empty_memo : memo := fun _ => None.

(* with an empty memo on the two nodes of the cycle, no amount of stack suffices *)
Lemma depth_cycle_diverges fuel : forall m n,
  m 0 = None -> m 1 = None -> (n = 0 \/ n = 1) -> depth cyc fuel m n = None.
Proof.
  induction fuel as [|f IH]; intros m n H0 H1 Hn; [reflexivity|].
  destruct Hn as [-> | ->]; simpl.
  - rewrite H0. rewrite (IH m 1 H0 H1 (or_intror eq_refl)). reflexivity.
  - rewrite H1. rewrite (IH m 0 H0 H1 (or_introl eq_refl)). reflexivity.
Qed.

Theorem compute_depth_diverges_on_allof_cycle : forall fuel, depth cyc fuel empty_memo 0 = None.
Proof. intros fuel. apply depth_cycle_diverges; auto. Qed.

(* ---------------------------------------------------------------- acyclic allOf: fuel = rank + 1 suffices *)

Section Acyclic.
  Variable parents : nat -> list nat.
  Variable rank : nat -> nat.
  Hypothesis rank_decreases : forall n p, In p (parents n) -> rank p < rank n.

  Lemma depth_terminates : forall fuel m n, rank n < fuel -> exists d m', depth parents fuel m n = Some (d, m').
  Proof.
    induction fuel as [|f IH]; intros m n Hr; [lia|]. cbn [depth].
    destruct (m n) as [d|]; [eauto|].
    destruct (parents n) as [|p ps] eqn:E; [eauto|].
    assert (Hall : forall q, In q (p :: ps) -> rank q < f).
    { intros q Hq. rewrite <- E in Hq. apply rank_decreases in Hq. lia. }
    clear E.
    assert (Hgo : forall l m0 best, (forall q, In q l -> rank q < f) ->
              exists b m1, fold_parents (depth parents f) l m0 best = Some (b, m1)).
    { induction l as [|q l IHl]; intros m0 best Hl; [simpl; eauto|]. simpl.
      destruct (IH m0 q (Hl q (or_introl eq_refl))) as [d [m' Hd]]. rewrite Hd.
      apply IHl. intros q' Hq'. apply Hl. right. exact Hq'. }
    destruct (Hgo (p :: ps) m 0 Hall) as [b [m1 Hb]]. rewrite Hb. eauto.
  Qed.
End Acyclic.

(* ---------------------------------------------------------------- output phase *)

Theorem no_write_on_generate_failure mkdir_ok n w : files_written (generate_run false mkdir_ok n w) = [] /\ exit_ok (generate_run false mkdir_ok n w) = false.
Proof. split; reflexivity. Qed.

Lemma write_all_success k n w done :
  (forall i, k <= i < k + n -> w i = true) -> write_all k n w done = {| exit_ok := true; files_written := done ++ seq k n |}.
Proof.
  revert k done. induction n as [|n IH]; intros k done H; simpl; [rewrite app_nil_r; reflexivity|].
  rewrite (H k) by lia. rewrite IH by (intros i Hi; apply H; lia). rewrite <- app_assoc. reflexivity.
Qed.

Theorem all_files_on_success n w : (forall i, i < n -> w i = true) ->
  generate_run true true n w = {| exit_ok := true; files_written := seq 0 n |}.
Proof. intros H. unfold generate_run. simpl. rewrite write_all_success; [reflexivity|]. intros i Hi. apply H. lia. Qed.
