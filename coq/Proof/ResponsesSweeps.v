(* Lemmas for C04: precedence exact > range > default of the emitted parse_response,
   for every strictly sorted responses object over the property's key universe. *)
From OAS Require Import Lib.Str Gen.StatusTable Gen.Content Model.HttpConsts Model.Media Model.Responses.
Local Open Scope list_scope.

Lemma forallb_In {A} (f : A -> bool) l x : forallb f l = true -> In x l -> f x = true.
Proof. intros H Hx. apply (proj1 (forallb_forall f l) H x Hx). Qed.

(* ------------------------------------------------------------------ finite sweeps over Gen/ *)

(* S1: for every key of the universe the *emitted* status condition holds exactly on the
   statuses the key denotes in OpenAPI (500 codes x 506 keys, by computation). *)
Definition cond_cell (k : string) (code : N) : bool :=
  Bool.eqb (cond_holds (tok_condition (tok_of_key k)) code) (key_covers k code).
Definition cond_row (k : string) : bool := forallb (cond_cell k) codes.
Lemma sweep_cond_ok : forallb cond_row key_universe = true.
Proof. vm_cast_no_check (eq_refl true). Qed.

Lemma cond_covers k code :
  In k key_universe -> In code codes ->
  cond_holds (tok_condition (tok_of_key k)) code = key_covers k code.
Proof.
  intros Hk Hc. apply Bool.eqb_prop.
  exact (forallb_In (cond_cell k) codes code (forallb_In cond_row key_universe k sweep_cond_ok Hk) Hc).
Qed.

(* S2: key -> token is injective on the universe (left inverse) *)
Definition key_of_tok (t : tok) : string :=
  match t with Unknown n => dec_of_N n | _ => tok_as_str t end.

Definition inj_cell (k : string) : bool := String.eqb (key_of_tok (tok_of_key k)) k.
Lemma sweep_inj_ok : forallb inj_cell key_universe = true.
Proof. vm_cast_no_check (eq_refl true). Qed.

Lemma tok_of_key_inj k1 k2 :
  In k1 key_universe -> In k2 key_universe -> tok_of_key k1 = tok_of_key k2 -> k1 = k2.
Proof.
  intros H1 H2 E.
  pose proof (forallb_In inj_cell key_universe k1 sweep_inj_ok H1) as A.
  pose proof (forallb_In inj_cell key_universe k2 sweep_inj_ok H2) as B.
  unfold inj_cell in A, B.
  apply String.eqb_eq in A. apply String.eqb_eq in B. rewrite <- A, <- B, E. reflexivity.
Qed.

(* S3: the only default key of the universe is "default" *)
Definition def_cell (k : string) : bool := Bool.eqb (tok_is_default (tok_of_key k)) (String.eqb k "default").
Lemma sweep_def_ok : forallb def_cell key_universe = true.
Proof. vm_cast_no_check (eq_refl true). Qed.

Lemma is_default_key k : In k key_universe -> tok_is_default (tok_of_key k) = String.eqb k "default".
Proof.
  intros Hk. apply Bool.eqb_prop. exact (forallb_In def_cell key_universe k sweep_def_ok Hk).
Qed.

(* S4: every status condition the generator can emit for a unit token is interpretable *)
Definition wf_cell (t : tok) : bool := cond_wf (tok_condition t).
Lemma sweep_wf_ok : forallb wf_cell tok_units = true.
Proof. vm_cast_no_check (eq_refl true). Qed.

(* S5: exact keys sort before their range key: the fact "ranges rely on map ordering" *)
Definition order_cell (code : N) : bool := String.ltb (exact_key code) (range_key code).
Lemma sweep_order_ok : forallb order_cell codes = true.
Proof. vm_cast_no_check (eq_refl true). Qed.

Lemma exact_sorts_before_range code : In code codes -> String.ltb (exact_key code) (range_key code) = true.
Proof.
  intros Hc. exact (forallb_In order_cell codes code sweep_order_ok Hc).
Qed.

(* S6: neither the exact nor the range key of a status is a default key *)
Definition nd_cell (c : N) : bool :=
  negb (tok_is_default (tok_of_key (exact_key c))) && negb (tok_is_default (tok_of_key (range_key c))).
Lemma sweep_nd_ok : forallb nd_cell codes = true.
Proof. vm_cast_no_check (eq_refl true). Qed.

Lemma in_codes code : (100 <= code <= 599)%N -> In code codes.
Proof.
  intros [H1 H2]. unfold codes. apply in_map_iff. exists (N.to_nat code). split.
  - apply N2Nat.id.
  - apply in_seq. lia.
Qed.

(* ------------------------------------------------------------------ token equality *)

Lemma tok_eqb_refl t : tok_eqb t t = true.
Proof. destruct t; simpl; try reflexivity. apply N.eqb_refl. Qed.

(* on tokens of universe keys, tok_eqb decides equality of the keys *)
Definition teq_cell (k1 k2 : string) : bool :=
  Bool.eqb (tok_eqb (tok_of_key k1) (tok_of_key k2)) (String.eqb k1 k2).
Definition teq_row (k1 : string) : bool := forallb (teq_cell k1) key_universe.
Lemma sweep_tok_eqb_ok : forallb teq_row key_universe = true.
Proof. vm_cast_no_check (eq_refl true). Qed.

Lemma tok_eqb_keys k1 k2 :
  In k1 key_universe -> In k2 key_universe ->
  tok_eqb (tok_of_key k1) (tok_of_key k2) = String.eqb k1 k2.
Proof.
  intros H1 H2. apply Bool.eqb_prop.
  exact (forallb_In (teq_cell k1) key_universe k2 (forallb_In teq_row key_universe k1 sweep_tok_eqb_ok H1) H2).
Qed.

