From OAS Require Import Lib.Str Model.Path Model.Splice.
Local Open Scope list_scope.

(* an escaped value, used as a format template without arguments, prints exactly the value *)
Theorem escape_renders v : fmt_render (escape v) [] = Some v.
Proof.
  induction v as [|c r IH]; [reflexivity|]. cbn [escape].
  destruct (Ascii.eqb c LB) eqn:El.
  - apply Ascii.eqb_eq in El. subst c. cbn [fmt_render]. rewrite Ascii.eqb_refl. rewrite IH. reflexivity.
  - destruct (Ascii.eqb c RB) eqn:Er.
    + apply Ascii.eqb_eq in Er. subst c. cbn [fmt_render]. rewrite El. rewrite Ascii.eqb_refl. rewrite IH. reflexivity.
    + cbn [fmt_render]. rewrite El, Er, IH. reflexivity.
Qed.

(* without the escaping a brace in the value is a compile error or silently changes the text *)
Lemma unescaped_refuted : fmt_render "x{}y" [] = None /\ fmt_render "{{" [] = Some "{".
Proof. split; reflexivity. Qed.

(* a brace-free literal renders as itself in front of any template *)
Lemma render_literal_prefix l t args :
  no_brace l = true -> fmt_render (l ++ t) args = option_map (fun s => l ++ s)%string (fmt_render t args).
Proof.
  induction l as [|c r IH]; intros H.
  - simpl. destruct (fmt_render t args); reflexivity.
  - unfold no_brace in H. simpl in H. apply andb_true_iff in H. destruct H as [Hc Hr].
    apply negb_true_iff in Hc. apply orb_false_iff in Hc. destruct Hc as [Hl Hrb].
    simpl. rewrite Hl, Hrb. rewrite IH by exact Hr. destruct (fmt_render t args); reflexivity.
Qed.

(* mixed path segments: with brace-free literal parts the emitted format!(format, args..) is the plain
   substitution of the parameter values — for every segment the tokenizer accepts *)
Theorem mixed_format_renders ps vals :
  parts_ok ps = true -> fmt_render (mixed_format ps) vals = subst_parts ps vals.
Proof.
  revert vals. induction ps as [|p r IH]; intros vals H.
  - destruct vals; reflexivity.
  - unfold parts_ok in H. simpl in H. apply andb_true_iff in H. destruct H as [Hp Hr].
    destruct p as [l|n]; cbn [mixed_format subst_parts].
    + rewrite render_literal_prefix by exact Hp. rewrite IH by exact Hr. reflexivity.
    + change ("{}" ++ mixed_format r)%string with (String LB (String RB (mixed_format r))).
      cbn [fmt_render]. rewrite Ascii.eqb_refl.
      replace (Ascii.eqb RB LB) with false by reflexivity. rewrite Ascii.eqb_refl.
      destruct vals as [|v vs]; [reflexivity|]. rewrite IH by exact Hr. reflexivity.
Qed.
