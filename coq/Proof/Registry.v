(* C08 lemmas *)
From OAS Require Import Lib.Str Model.Registry.
Local Open Scope list_scope.

Lemma trim_length ids : length (trim_common_affixes ids) = length ids.
Proof.
  unfold trim_common_affixes. destruct ids as [|a [|b r]]; try reflexivity.
  set (ids := a :: b :: r). destruct (map split_snake ids) as [|first rest] eqn:E; [reflexivity|].
  destruct (Nat.eqb _ 0 && Nat.eqb _ 0); [reflexivity|].
  destruct (shrink _ _ _ _) as [p s]. destruct (Nat.eqb p 0 && Nat.eqb s 0); [reflexivity|].
  destruct (all_non_empty_and_unique _ && _); [|reflexivity].
  rewrite map_length, <- E, map_length. reflexivity.
Qed.

Lemma ingest_positions f ops acc :
  map fst (ingest f ops acc) = map fst acc ++ map fst (filter (fun ib => accepts f (snd ib)) ops).
Proof.
  revert acc. induction ops as [|[i b] r IH]; intros acc; simpl; [rewrite app_nil_r; reflexivity|].
  destruct (accepts f b); simpl.
  - rewrite IH, map_app. simpl. rewrite <- app_assoc. reflexivity.
  - apply IH.
Qed.

Lemma map_fst_combine {A B} (l : list A) (m : list B) : length l = length m -> map fst (combine l m) = l.
Proof.
  revert m. induction l as [|x l IH]; intros [|y m] H; simpl in *; try reflexivity; try discriminate.
  f_equal. apply IH. lia.
Qed.

(* Selection is by whole base identifier: the operations emitted under a filter are exactly those whose
   base id passes set membership, each once, in document order. *)
Theorem selection_by_base f bases :
  selected f bases = map fst (filter (fun ib => accepts f (snd ib)) (number 0 bases)).
Proof.
  unfold selected, registry. rewrite map_fst_combine.
  - rewrite ingest_positions. reflexivity.
  - rewrite trim_length, !map_length. reflexivity.
Qed.

Lemma number_positions {A} k (l : list A) : map fst (number k l) = seq k (length l).
Proof. revert k. induction l as [|x l IH]; intros k; simpl; [reflexivity|]. f_equal. apply IH. Qed.

(* --only S and --exclude S split the operations: every operation is emitted by exactly one of them *)
Theorem only_exclude_partition bases s i :
  (i < length bases)%nat ->
  (In i (selected (only s) bases) /\ ~ In i (selected (excl s) bases)) \/
  (~ In i (selected (only s) bases) /\ In i (selected (excl s) bases)).
Proof.
  intros Hi. rewrite !selection_by_base.
  assert (Hex : exists b, In (i, b) (number 0 bases)).
  { assert (In i (map fst (number 0 bases))) by (rewrite number_positions; apply in_seq; lia).
    apply in_map_iff in H. destruct H as [[i' b] [E H]]. simpl in E. subst. eauto. }
  destruct Hex as [b Hb].
  assert (Huniq : forall b', In (i, b') (number 0 bases) -> b' = b).
  { clear Hi. revert Hb. generalize 0%nat. induction bases as [|x l IH]; intros k; simpl; [tauto|].
    assert (Hk : forall j y, In (j, y) (number (S k) l) -> (k < j)%nat).
    { clear. revert k. induction l as [|z l IH]; intros k j y; simpl; [tauto|].
      intros [[= <- <-]|H]; [lia|]. apply IH in H. lia. }
    intros [[= <- <-]|H1] b' [[= ->]|H2]; auto.
    - apply Hk in H2. lia.
    - apply Hk in H1. lia.
    - eapply IH; eauto. }
  unfold accepts, only, excl. simpl.
  destruct (mem b s) eqn:Em; [left|right]; split.
  - apply in_map_iff. exists (i, b). split; [reflexivity|]. apply filter_In. simpl. rewrite Em. auto.
  - intros H. apply in_map_iff in H. destruct H as [[i' b'] [E H]]. simpl in E. subst i'.
    apply filter_In in H. destruct H as [H1 H2]. simpl in H2. rewrite (Huniq _ H1), Em in H2. discriminate.
  - intros H. apply in_map_iff in H. destruct H as [[i' b'] [E H]]. simpl in E. subst i'.
    apply filter_In in H. destruct H as [H1 H2]. simpl in H2. rewrite (Huniq _ H1), Em in H2. discriminate.
  - apply in_map_iff. exists (i, b). split; [reflexivity|]. apply filter_In. simpl. rewrite Em. auto.
Qed.

(* ---------------------------------------------------------------- exactness outside the known class *)

Lemma mem_In x l : mem x l = true <-> In x l.
Proof.
  induction l as [|y l IH]; simpl; [split; [discriminate|tauto]|].
  rewrite orb_true_iff, IH. split; intros [H|H]; auto; [left; symmetry; apply String.eqb_eq; exact H|left; apply String.eqb_eq; auto].
Qed.

Lemma ingest_nodup k bases acc :
  nodup_strings (map snd acc ++ bases) = true ->
  ingest no_filter (number k bases) acc = acc ++ number k bases.
Proof.
  revert k acc. induction bases as [|b r IH]; intros k acc H; simpl; [rewrite app_nil_r; reflexivity|].
  assert (Hb : mem b (map snd acc) = false).
  { clear -H. induction (map snd acc) as [|x l IHl]; [reflexivity|]. simpl in *.
    apply andb_true_iff in H. destruct H as [Hx Hl]. rewrite (IHl Hl). 
    apply negb_true_iff in Hx. destruct (String.eqb_spec b x) as [->|Hne]; [|reflexivity].
    exfalso. assert (mem x (l ++ x :: r) = true) by (apply mem_In; apply in_or_app; right; left; reflexivity). congruence. }
  unfold ensure_unique_snake. rewrite Hb. rewrite IH.
  - rewrite <- app_assoc. reflexivity.
  - rewrite map_app. simpl. rewrite <- app_assoc. exact H.
Qed.

Lemma combine_number {A} k (l : list A) : combine (map fst (number k l)) (map snd (number k l)) = number k l.
Proof. revert k. induction l as [|x l IH]; intros k; simpl; [reflexivity|]. f_equal. apply IH. Qed.

Lemma map_snd_number {A} k (l : list A) : map snd (number k l) = l.
Proof. revert k. induction l as [|x l IH]; intros k; simpl; [reflexivity|]. f_equal. apply IH. Qed.

Theorem exact_outside_known bases s :
  nodup_strings bases = true -> trim_common_affixes bases = bases ->
  map snd (list_rows bases) = bases /\
  selected (only s) bases = denoted bases s /\
  selected (excl s) bases = map fst (filter (fun row => negb (mem (snd row) s)) (list_rows bases)).
Proof.
  intros Hnd Htrim.
  assert (Hrows : list_rows bases = number 0 bases).
  { unfold list_rows, registry. rewrite (ingest_nodup 0 bases []) by exact Hnd. simpl.
    rewrite map_snd_number, Htrim. rewrite <- (map_snd_number 0 bases) at 2. apply combine_number. }
  split; [rewrite Hrows; apply map_snd_number|]. unfold denoted. rewrite Hrows, !selection_by_base.
  unfold accepts, only, excl. simpl. split; f_equal; apply filter_ext; intros [i b]; simpl;
    try apply andb_true_r; reflexivity.
Qed.
