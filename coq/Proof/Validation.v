From Coq Require Import List Bool ZArith NArith Lia Relations.
From OAS Require Import Model.Boxing Proof.Boxing Model.Validation.
Import ListNotations.
Local Open Scope Z_scope.

Lemma clamp_id p m : lo p <= m <= hi p -> lo p <= hi p -> clamp p m = m \/ (m = lo p /\ clamp p m = lo p) \/ (m = hi p /\ clamp p m = hi p).
Proof.
  intros H Hp. unfold clamp. destruct (m <=? lo p) eqn:A.
  - apply Z.leb_le in A. right. left. split; lia.
  - destruct (hi p <=? m) eqn:B.
    + apply Z.leb_le in B. right. right. split; lia.
    + left. reflexivity.
Qed.

Lemma clamp_in p m : lo p <= m <= hi p -> clamp p m = m.
Proof.
  intros H. unfold clamp. destruct (m <=? lo p) eqn:A.
  - apply Z.leb_le in A. lia.
  - destruct (hi p <=? m) eqn:B; [apply Z.leb_le in B; lia | reflexivity].
Qed.

Lemma option_map_clamp_in p o : bound_in p o -> option_map (clamp p) o = o.
Proof. destruct o as [m|]; cbn; [intros H; rewrite clamp_in by exact H; reflexivity | reflexivity]. Qed.

(* bounds inside the primitive's range are translated exactly *)
Theorem range_exact p b v :
  bound_in p (bmin b) -> bound_in p (bmax b) -> bound_in p (bxmin b) -> bound_in p (bxmax b) ->
  sat (translate p b) v = sat b v.
Proof.
  intros H1 H2 H3 H4. unfold sat, translate. cbn [bmin bmax bxmin bxmax].
  rewrite !option_map_clamp_in by assumption. reflexivity.
Qed.

(* soundness survives clamping as long as the inclusive bounds can be met inside the primitive *)
Theorem range_sound p b v : in_prim p v ->
  (forall m, bmin b = Some m -> m <= hi p) -> (forall m, bmax b = Some m -> lo p <= m) ->
  sat (translate p b) v = true -> sat b v = true.
Proof.
  intros Hv Hmin Hmax. unfold sat, translate, in_prim in *. cbn [bmin bmax bxmin bxmax].
  destruct (bmin b) as [m1|], (bmax b) as [m2|], (bxmin b) as [m3|], (bxmax b) as [m4|]; cbn [option_map optb];
  try specialize (Hmin _ eq_refl); try specialize (Hmax _ eq_refl);
  rewrite ?andb_true_iff, ?Z.leb_le, ?Z.ltb_lt; unfold clamp;
  repeat match goal with |- context [if ?c then _ else _] => let E := fresh "E" in destruct c eqn:E end;
  rewrite ?Z.leb_le, ?Z.leb_gt in *; intros; repeat split; lia.
Qed.

(* ---------- nested validation ---------- *)
Theorem validated_direct ss i : In i (direct_from 0 ss) -> In i (fst (validated ss)).
Proof. intros H. unfold validated. cbn [fst]. apply saturate_extends. apply (proj2 (dedupN_In _ _)). exact H. Qed.

(* holder -> target chains: if the target end is validated, so is every holder up the chain *)
Theorem validated_closed ss : snd (validated ss) = true ->
  forall t s, In t (fst (validated ss)) -> clos_refl_trans N (edge (ref_edges ss)) t s -> In s (fst (validated ss)).
Proof. unfold validated. cbn [fst snd]. intros Hc t s Ht Hts. eapply closed_rt; eauto. Qed.

Theorem validated_minimal ss s : In s (fst (validated ss)) ->
  exists t, In t (direct_from 0 ss) /\ clos_refl_trans N (edge (ref_edges ss)) t s.
Proof.
  unfold validated. cbn [fst]. intros H.
  eapply (saturate_sound_multi _ _ (fun t => In t (direct_from 0 ss))); [|exact H].
  intros y Hy. apply (proj1 (dedupN_In _ _)) in Hy. exists y. split; [exact Hy | apply rt_refl].
Qed.

Corollary validated_always_closed ss : snd (validated ss) = true.
Proof. unfold validated. cbn [snd]. apply saturate_closed. Qed.
