From Coq Require Import List Bool String Ascii ZArith NArith Lia.
From OAS Require Import Lib.Str Model.Sharing.
Import ListNotations.
Local Open Scope nat_scope.

Lemma sinsert_In x y l : In y (sinsert x l) <-> y = x \/ In y l.
Proof.
  induction l as [|z r IH]; cbn [sinsert].
  - cbn [In]. intuition.
  - destruct (String.leb x z); cbn [In]; [intuition|]. rewrite IH. intuition.
Qed.

Lemma ssort_In y l : In y (ssort l) <-> In y l.
Proof.
  induction l as [|x r IH]; cbn [ssort]; [tauto|]. rewrite sinsert_In, IH. cbn [In]. intuition.
Qed.

Lemma sinsert_length x l : List.length (sinsert x l) = S (List.length l).
Proof. induction l as [|z r IH]; cbn [sinsert]; [reflexivity|]. destruct (String.leb x z); cbn [Datatypes.length]; lia. Qed.
Lemma ssort_length l : List.length (ssort l) = List.length l.
Proof. induction l as [|x r IH]; cbn [ssort]; [reflexivity|]. rewrite sinsert_length, IH. reflexivity. Qed.

Theorem enum_key_sound a b : enum_key a = enum_key b -> forall s, In s (wire_names a) <-> In s (wire_names b).
Proof.
  unfold enum_key. intros H s. rewrite <- (ssort_In s (wire_names a)), <- (ssort_In s (wire_names b)), H. tauto.
Qed.

Lemma mem_In x l : Str.mem x l = true <-> In x l.
Proof.
  induction l as [|y r IH]; cbn [Str.mem In]; [split; [discriminate | tauto]|].
  destruct (String.eqb x y) eqn:E.
  - apply String.eqb_eq in E. subst. intuition.
  - apply String.eqb_neq in E. rewrite IH. intuition congruence.
Qed.

Lemma sdedup_In x l : In x (sdedup l) <-> In x l.
Proof.
  induction l as [|y r IH]; cbn [sdedup]; [tauto|].
  destruct (Str.mem y r) eqn:E.
  - rewrite IH. cbn [In]. split; [tauto|]. intros [->|H]; [apply mem_In; exact E | exact H].
  - cbn [In]. rewrite IH. tauto.
Qed.

Lemma sdedup_length l : List.length (sdedup l) <= List.length l.
Proof. induction l as [|y r IH]; cbn [sdedup]; [lia|]. destruct (Str.mem y r); cbn [Datatypes.length]; lia. Qed.

Lemma filter_map_length {A B} (f : A -> option B) l : List.length (filter_map f l) <= List.length l.
Proof. induction l as [|x r IH]; cbn [filter_map Datatypes.length]; [lia|]. destruct (f x); cbn [Datatypes.length]; lia. Qed.

(* when as many references as variants survive, every variant is a reference *)
Lemma refs_cover vs : List.length (refs_of vs) = List.length vs -> forall v, In v vs -> exists n, v = VRef n.
Proof.
  induction vs as [|x r IH]; intros H v Hv; [destruct Hv|].
  unfold refs_of in *. cbn [filter_map Datatypes.length] in H. destruct x as [n|c].
  - cbn [Datatypes.length] in H. destruct Hv as [<-|Hv]; [eauto|]. apply IH; [lia | exact Hv].
  - pose proof (filter_map_length (fun v => match v with VRef n => Some n | VInline _ => None end) r). lia.
Qed.

Lemma refs_of_In n vs : In n (refs_of vs) <-> In (VRef n) vs.
Proof.
  induction vs as [|x r IH]; unfold refs_of in *; cbn [filter_map In]; [tauto|].
  destruct x as [m|c]; cbn [In]; rewrite IH; intuition congruence.
Qed.

Lemma union_key_all_refs u k : union_key u = Some k -> forall v, In v (variants u) -> exists n, v = VRef n.
Proof.
  unfold union_key. destruct (Nat.leb 2 _ && Nat.eqb _ _) eqn:E; [|discriminate]. intros _.
  apply andb_true_iff in E. destruct E as [_ E]. apply Nat.eqb_eq in E.
  apply refs_cover. unfold ref_set in E. rewrite ssort_length in E.
  pose proof (sdedup_length (refs_of (variants u))).
  pose proof (filter_map_length (fun v => match v with VRef n => Some n | VInline _ => None end) (variants u)).
  unfold refs_of in *. lia.
Qed.

Theorem union_key_sound u1 u2 k : union_key u1 = Some k -> union_key u2 = Some k ->
  (forall v, In v (variants u1) <-> In v (variants u2)) /\ discriminator u1 = discriminator u2.
Proof.
  intros H1 H2.
  pose proof (union_key_all_refs u1 k H1) as A1. pose proof (union_key_all_refs u2 k H2) as A2.
  unfold union_key in H1, H2.
  destruct (Nat.leb 2 _ && Nat.eqb _ _) in H1; [|discriminate].
  destruct (Nat.leb 2 _ && Nat.eqb _ _) in H2; [|discriminate].
  injection H1 as Hk1. injection H2 as Hk2. rewrite <- Hk1 in Hk2. injection Hk2 as Hr Hd. split; [|congruence].
  assert (Hset : forall n, In n (refs_of (variants u1)) <-> In n (refs_of (variants u2))).
  { intros n. unfold ref_set in Hr.
    rewrite <- (sdedup_In n (refs_of (variants u1))), <- (sdedup_In n (refs_of (variants u2))).
    rewrite <- (ssort_In n (sdedup (refs_of (variants u1)))), <- (ssort_In n (sdedup (refs_of (variants u2)))).
    rewrite Hr. tauto. }
  intros v. split; intros Hv.
  - destruct (A1 v Hv) as [n ->]. apply refs_of_In. apply Hset. apply refs_of_In. exact Hv.
  - destruct (A2 v Hv) as [n ->]. apply refs_of_In. apply Hset. apply refs_of_In. exact Hv.
Qed.

(* value unions: a key exists only when no variant is open, and then it determines the listed wire names *)
Lemma vu_open_false u : vu_open u = false -> forall v, In v u -> exists x vs, v = VValues (x :: vs).
Proof.
  unfold vu_open. intros H v Hv.
  assert (E : existsb (fun v => match v with VOpen _ => true | VValues vs => match vs with [] => true | _ => false end end) u = false) by exact H.
  destruct v as [[|x vs]|c].
  - exfalso. assert (T : existsb (fun v => match v with VOpen _ => true | VValues vs => match vs with [] => true | _ => false end end) u = true).
    { apply existsb_exists. eexists; split; [exact Hv | reflexivity]. } congruence.
  - eauto.
  - exfalso. assert (T : existsb (fun v => match v with VOpen _ => true | VValues vs => match vs with [] => true | _ => false end end) u = true).
    { apply existsb_exists. eexists; split; [exact Hv | reflexivity]. } congruence.
Qed.

Theorem value_union_key_sound u1 u2 k : value_union_key u1 = Some k -> value_union_key u2 = Some k ->
  (forall v, In v u1 \/ In v u2 -> exists x vs, v = VValues (x :: vs))
  /\ (forall s, In s (wire_names (vu_values u1)) <-> In s (wire_names (vu_values u2))).
Proof.
  unfold value_union_key. destruct (vu_open u1) eqn:O1; [discriminate|]. destruct (vu_open u2) eqn:O2; [discriminate|].
  intros H1 H2. split.
  - intros v [Hv|Hv]; [exact (vu_open_false u1 O1 v Hv) | exact (vu_open_false u2 O2 v Hv)].
  - apply enum_key_sound. congruence.
Qed.
