From Coq Require Import List Bool String NArith Lia.
From OAS Require Import Model.ParamMerge.
Import ListNotations.

Lemma same_key_refl p : same_key p p = true.
Proof. unfold same_key. rewrite N.eqb_refl, String.eqb_refl. reflexivity. Qed.
Lemma same_key_sym a b : same_key a b = same_key b a.
Proof. unfold same_key. rewrite N.eqb_sym, String.eqb_sym. reflexivity. Qed.
Lemma same_key_trans a b c : same_key a b = true -> same_key b c = true -> same_key a c = true.
Proof.
  unfold same_key. intros H1 H2. apply andb_true_iff in H1, H2. destruct H1 as [L1 N1], H2 as [L2 N2].
  apply N.eqb_eq in L1, L2. apply String.eqb_eq in N1, N2. rewrite L1, L2, N1, N2, N.eqb_refl, String.eqb_refl. reflexivity.
Qed.
Lemma same_key_eq_l a b c : same_key a b = true -> same_key a c = same_key b c.
Proof.
  intros H. destruct (same_key b c) eqn:E.
  - eapply same_key_trans; eauto.
  - destruct (same_key a c) eqn:E2; [|reflexivity].
    rewrite same_key_sym in H. pose proof (same_key_trans b a c H E2). congruence.
Qed.

Lemma has_key_in p l : has_key p l = true <-> exists q, In q l /\ same_key q p = true.
Proof. unfold has_key. rewrite existsb_exists. tauto. Qed.

(* one step *)
Lemma add_param_in acc p q : In q (add_param acc p) <-> q = p \/ (In q acc /\ same_key q p = false).
Proof.
  unfold add_param. rewrite in_app_iff, filter_In. cbn [In]. rewrite negb_true_iff. intuition.
Qed.

Lemma has_key_filter_out acc p x : has_key x (filter (fun q => negb (same_key q p)) acc) = true -> same_key x p = false.
Proof.
  intros H. apply has_key_in in H. destruct H as [q [Hq Hs]]. apply filter_In in Hq. destruct Hq as [_ Hn].
  apply negb_true_iff in Hn. rewrite <- (same_key_eq_l q x p Hs). exact Hn.
Qed.

Lemma keys_nodup_filter f l : keys_nodup l = true -> keys_nodup (filter f l) = true.
Proof.
  induction l as [|a r IH]; cbn [keys_nodup filter]; [reflexivity|]. intros H. apply andb_true_iff in H. destruct H as [Ha Hr].
  destruct (f a); [|apply IH; exact Hr]. cbn [keys_nodup]. rewrite IH by exact Hr. rewrite andb_true_r.
  apply negb_true_iff. apply negb_true_iff in Ha. destruct (has_key a (filter f r)) eqn:E; [|reflexivity].
  apply has_key_in in E. destruct E as [q [Hq Hs]]. apply filter_In in Hq. destruct Hq as [Hq _].
  assert (T : has_key a r = true) by (apply has_key_in; eauto). congruence.
Qed.

Lemma keys_nodup_app_single l p : keys_nodup l = true -> has_key p l = false -> keys_nodup (l ++ [p]) = true.
Proof.
  induction l as [|a r IH]; cbn [keys_nodup app]; intros Hn Hk; [reflexivity|].
  apply andb_true_iff in Hn. destruct Hn as [Ha Hr]. cbn [has_key existsb] in Hk. apply orb_false_iff in Hk. destruct Hk as [Hap Hk].
  rewrite IH by assumption. rewrite andb_true_r. apply negb_true_iff. apply negb_true_iff in Ha.
  unfold has_key in *. rewrite existsb_app. cbn [existsb]. rewrite Ha, orb_false_r. cbn [orb].
  rewrite same_key_sym. exact Hap.
Qed.

Lemma add_param_nodup acc p : keys_nodup acc = true -> keys_nodup (add_param acc p) = true.
Proof.
  intros H. unfold add_param. apply keys_nodup_app_single; [apply keys_nodup_filter; exact H|].
  destruct (has_key p (filter (fun q => negb (same_key q p)) acc)) eqn:E; [|reflexivity].
  apply has_key_filter_out in E. rewrite same_key_refl in E. discriminate.
Qed.

(* the whole fold *)
Theorem collect_nodup item ops : keys_nodup item = true -> keys_nodup (collect_parameters item ops) = true.
Proof.
  unfold collect_parameters. revert item. induction ops as [|p r IH]; intros item H; cbn [fold_left]; [exact H|].
  apply IH. apply add_param_nodup. exact H.
Qed.

(* membership after the fold: q is in the result iff it is the LAST operation-level declaration of its key, or a
   path-item declaration whose key no operation-level parameter has *)
Fixpoint last_with_key (ops : list param) (k : param) : option param :=
  match ops with
  | [] => None
  | p :: r => match last_with_key r k with Some x => Some x | None => if same_key p k then Some p else None end
  end.

Lemma fold_add_in item ops q :
  In q (fold_left add_param ops item) <->
  (exists pre post, ops = pre ++ q :: post /\ has_key q post = false) \/ (In q item /\ has_key q ops = false).
Proof.
  revert item. induction ops as [|p r IH]; intros item; cbn [fold_left].
  - split.
    + intros H. right. split; [exact H | reflexivity].
    + intros [[pre [post [E _]]]|[H _]]; [destruct pre; discriminate | exact H].
  - rewrite IH. split.
    + intros [[pre [post [E Hk]]]|[Hin Hk]].
      * left. exists (p :: pre), post. split; [rewrite E; reflexivity | exact Hk].
      * apply add_param_in in Hin. destruct Hin as [->|[Hin Hs]].
        -- left. exists [], r. split; [reflexivity | exact Hk].
        -- right. split; [exact Hin|]. cbn [has_key existsb]. rewrite same_key_sym, Hs. exact Hk.
    + intros [[pre [post [E Hk]]]|[Hin Hk]].
      * destruct pre as [|a pre]; cbn [app] in E; injection E as -> ->.
        -- right. split; [apply add_param_in; left; reflexivity | exact Hk].
        -- left. exists pre, post. split; [reflexivity | exact Hk].
      * cbn [has_key existsb] in Hk. apply orb_false_iff in Hk. destruct Hk as [Hs Hk].
        right. split; [|exact Hk]. apply add_param_in. right. split; [exact Hin | rewrite same_key_sym; exact Hs].
Qed.

Theorem collect_spec item ops q :
  In q (collect_parameters item ops) <->
  (exists pre post, ops = pre ++ q :: post /\ has_key q post = false) \/ (In q item /\ has_key q ops = false).
Proof. apply fold_add_in. Qed.

(* corollaries in the words of the specification *)
Theorem op_level_wins item ops p :
  In p ops -> keys_nodup ops = true -> In p (collect_parameters item ops).
Proof.
  intros Hin Hn. apply collect_spec. left. apply in_split in Hin. destruct Hin as [pre [post E]].
  exists pre, post. split; [exact E|]. subst ops.
  clear -Hn. induction pre as [|a pre IH]; cbn [app keys_nodup] in Hn.
  - apply andb_true_iff in Hn. destruct Hn as [H _]. apply negb_true_iff in H. exact H.
  - apply andb_true_iff in Hn. destruct Hn as [_ H]. apply IH. exact H.
Qed.

Theorem item_level_overridden item ops q p :
  In q item -> In p ops -> same_key q p = true -> In q (collect_parameters item ops) -> In q ops.
Proof.
  intros Hq Hp Hs H. apply collect_spec in H. destruct H as [[pre [post [E _]]]|[_ Hk]].
  - rewrite E. apply in_or_app. right. left. reflexivity.
  - exfalso. assert (T : has_key q ops = true) by (apply has_key_in; exists p; split; [exact Hp | rewrite same_key_sym; exact Hs]). congruence.
Qed.
