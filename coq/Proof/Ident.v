(* C09 lemmas: legality of the three sanitisers for every name and every transliteration. *)
From OAS Require Import Lib.Str Gen.Keywords Model.Ident.
Local Open Scope list_scope.

(* ---------------------------------------------------------------- character facts (256-case sweeps) *)

Definition all_ascii : list ascii := map ascii_of_N (map N.of_nat (seq 0 256)).

Lemma in_all_ascii c : In c all_ascii.
Proof.
  unfold all_ascii. apply in_map_iff. exists (N_of_ascii c). split; [apply ascii_N_embedding|].
  apply in_map_iff. exists (N.to_nat (N_of_ascii c)). split; [apply N2Nat.id|].
  apply in_seq. pose proof (N_ascii_bounded c). lia.
Qed.

Lemma forall_ascii (P : ascii -> bool) : forallb P all_ascii = true -> forall c, P c = true.
Proof. intros H c. apply (proj1 (forallb_forall P all_ascii) H c (in_all_ascii c)). Qed.

Ltac ascii_sweep := apply forall_ascii; vm_compute; reflexivity.

Lemma lower_valid : forall c, implb (valid_char c) (valid_char (lower_ascii c)) = true.
Proof. ascii_sweep. Qed.
Lemma upper_valid : forall c, implb (valid_char c) (valid_char (upper_ascii c)) = true.
Proof. ascii_sweep. Qed.
Lemma lower_alnum : forall c, implb (is_alnum c) (is_alnum (lower_ascii c)) = true.
Proof. ascii_sweep. Qed.
Lemma upper_alnum : forall c, implb (is_alnum c) (is_alnum (upper_ascii c)) = true.
Proof. ascii_sweep. Qed.
Lemma lower_not_upper : forall c, negb (is_upper (lower_ascii c)) = true.
Proof. ascii_sweep. Qed.
Lemma swap_valid : forall c, implb (valid_char c) (valid_char (swap_sep c)) = true.
Proof. ascii_sweep. Qed.
Lemma swap_alnum : forall c, implb (is_alnum c) (is_alnum (swap_sep c)) = true.
Proof. ascii_sweep. Qed.
Lemma alnum_valid : forall c, implb (is_alnum c) (valid_char c) = true.
Proof. ascii_sweep. Qed.
Lemma alnum_not_us : forall c, implb (is_alnum c) (negb (Ascii.eqb c US)) = true.
Proof. ascii_sweep. Qed.
Lemma valid_cases : forall c, implb (valid_char c) (is_alnum c || Ascii.eqb c US) = true.
Proof. ascii_sweep. Qed.
Lemma alnum_cases : forall c, implb (is_alnum c) (is_alpha c || is_digit c) = true.
Proof. ascii_sweep. Qed.
Lemma upper_alpha_or_digit : forall c, implb (is_alnum c) (is_upper (upper_ascii c) || is_digit (upper_ascii c)) = true.
Proof. ascii_sweep. Qed.
Lemma upper_is_alpha : forall c, implb (is_upper c) (is_alpha c) = true.
Proof. ascii_sweep. Qed.
Lemma digit_not_alpha : forall c, implb (is_digit c) (negb (is_alpha c)) = true.
Proof. ascii_sweep. Qed.
Lemma us_valid : valid_char US = true. Proof. reflexivity. Qed.

Lemma impl_true a b : implb a b = true -> a = true -> b = true.
Proof. destruct a, b; simpl; congruence. Qed.

(* ---------------------------------------------------------------- list facts *)

Lemma forallb_map_impl (p q : ascii -> bool) (f : ascii -> ascii) s :
  (forall c, implb (p c) (q (f c)) = true) -> forallb p s = true -> forallb q (map f s) = true.
Proof.
  intros H. induction s as [|c r IH]; simpl; [reflexivity|]. intros Hs.
  apply andb_true_iff in Hs. destruct Hs as [Hc Hr]. rewrite (impl_true _ _ (H c) Hc). simpl. auto.
Qed.

Lemma forallb_rev {A} (p : A -> bool) l : forallb p (rev l) = forallb p l.
Proof.
  induction l as [|x l IH]; simpl; [reflexivity|]. rewrite forallb_app, IH. simpl.
  rewrite andb_true_r. apply andb_comm.
Qed.

Lemma forallb_firstn {A} (p : A -> bool) k l : forallb p l = true -> forallb p (firstn k l) = true.
Proof.
  revert l. induction k as [|k IH]; intros l H; [reflexivity|]. destruct l as [|x l]; [reflexivity|].
  simpl in *. apply andb_true_iff in H. destruct H as [-> H]. simpl. auto.
Qed.

Lemma forallb_skipn {A} (p : A -> bool) k l : forallb p l = true -> forallb p (skipn k l) = true.
Proof.
  revert l. induction k as [|k IH]; intros l H; [exact H|]. destruct l as [|x l]; [reflexivity|].
  simpl in *. apply andb_true_iff in H. destruct H as [_ H]. auto.
Qed.

Definition head_ok (p : ascii -> bool) (s : astr) : bool := match s with [] => true | c :: _ => p c end.

(* ---------------------------------------------------------------- sanitize *)

Lemma collapse_valid s b : forallb valid_char (collapse s b) = true.
Proof.
  revert b. induction s as [|c r IH]; intros b; simpl; [reflexivity|].
  destruct (is_alnum c) eqn:E.
  - simpl. rewrite (impl_true _ _ (alnum_valid c) E). simpl. apply IH.
  - destruct b; simpl; [apply IH|]. apply IH.
Qed.

Lemma trim_left_skipn s : exists k, trim_left_us s = skipn k s.
Proof.
  induction s as [|c r [k IH]]; simpl; [exists O; reflexivity|].
  destruct (Ascii.eqb c US); [exists (S k); exact IH|exists O; reflexivity].
Qed.

Lemma trim_left_head s : head_ok (fun c => negb (Ascii.eqb c US)) (trim_left_us s) = true.
Proof.
  induction s as [|c r IH]; simpl; [reflexivity|].
  destruct (Ascii.eqb c US) eqn:E; [exact IH|]. simpl. rewrite E. reflexivity.
Qed.

Lemma trim_us_firstn s : exists k, trim_us s = firstn k (trim_left_us s).
Proof.
  unfold trim_us. destruct (trim_left_skipn (rev (trim_left_us s))) as [k ->].
  rewrite skipn_rev, rev_involutive. eauto.
Qed.

Lemma trim_us_valid s : forallb valid_char s = true -> forallb valid_char (trim_us s) = true.
Proof.
  intros H. destruct (trim_us_firstn s) as [k ->]. apply forallb_firstn.
  destruct (trim_left_skipn s) as [j ->]. apply forallb_skipn. exact H.
Qed.

Lemma head_ok_firstn p k s : head_ok p s = true -> head_ok p (firstn k s) = true.
Proof. destruct k, s; simpl; auto. Qed.

Lemma trim_us_head s : head_ok (fun c => negb (Ascii.eqb c US)) (trim_us s) = true.
Proof. destruct (trim_us_firstn s) as [k ->]. apply head_ok_firstn. apply trim_left_head. Qed.

Lemma sanitize_valid n : forallb valid_char (sanitize n) = true.
Proof. unfold sanitize. destruct n; [reflexivity|]. apply trim_us_valid. apply collapse_valid. Qed.

Lemma valid_head_alnum s :
  forallb valid_char s = true -> head_ok (fun c => negb (Ascii.eqb c US)) s = true -> head_ok is_alnum s = true.
Proof.
  destruct s as [|c r]; simpl; [reflexivity|]. intros Hv Hh. apply andb_true_iff in Hv. destruct Hv as [Hc _].
  pose proof (impl_true _ _ (valid_cases c) Hc) as H. apply orb_true_iff in H.
  destruct H as [H|H]; [exact H|]. rewrite H in Hh. discriminate.
Qed.

Lemma sanitize_head n : head_ok is_alnum (sanitize n) = true.
Proof.
  apply valid_head_alnum; [apply sanitize_valid|]. unfold sanitize. destruct n; [reflexivity|]. apply trim_us_head.
Qed.

(* ---------------------------------------------------------------- case conversion *)

Lemma break_camel_valid s : forallb valid_char s = true -> forallb valid_char (break_camel s) = true.
Proof.
  induction s as [|c r IH]; [reflexivity|]. intros H. simpl in H. apply andb_true_iff in H. destruct H as [Hc Hr].
  destruct r as [|d r']; [simpl; rewrite Hc; reflexivity|].
  change (break_camel (c :: d :: r')) with
    (if is_lower c && is_upper d then c :: US :: break_camel (d :: r') else c :: break_camel (d :: r')).
  destruct (is_lower c && is_upper d); simpl forallb; rewrite Hc, ?us_valid; simpl; apply IH; exact Hr.
Qed.

Lemma break_camel_head p s : head_ok p (break_camel s) = head_ok p s.
Proof.
  destruct s as [|c [|d r]]; try reflexivity.
  change (break_camel (c :: d :: r)) with
    (if is_lower c && is_upper d then c :: US :: break_camel (d :: r) else c :: break_camel (d :: r)).
  destruct (is_lower c && is_upper d); reflexivity.
Qed.

Lemma break_camel_nonempty s : s <> [] -> break_camel s <> [].
Proof.
  destruct s as [|c [|d r]]; [congruence|simpl; discriminate|]; intros _.
  change (break_camel (c :: d :: r)) with
    (if is_lower c && is_upper d then c :: US :: break_camel (d :: r) else c :: break_camel (d :: r)).
  destruct (is_lower c && is_upper d); discriminate.
Qed.

Lemma head_ok_map (p q : ascii -> bool) f s :
  (forall c, implb (p c) (q (f c)) = true) -> head_ok p s = true -> head_ok q (map f s) = true.
Proof. intros H. destruct s as [|c r]; simpl; [reflexivity|]. intros Hc. apply (impl_true _ _ (H c) Hc). Qed.

Lemma snake_valid s : forallb valid_char s = true -> forallb valid_char (to_snake_case s) = true.
Proof.
  intros H. unfold to_snake_case. apply forallb_map_impl with (p := valid_char); [apply lower_valid|].
  apply break_camel_valid. apply forallb_map_impl with (p := valid_char); [apply swap_valid|exact H].
Qed.

Lemma snake_head s : head_ok is_alnum s = true -> head_ok is_alnum (to_snake_case s) = true.
Proof.
  intros H. unfold to_snake_case. apply head_ok_map with (p := is_alnum); [apply lower_alnum|].
  rewrite break_camel_head. apply head_ok_map with (p := is_alnum); [apply swap_alnum|exact H].
Qed.

Lemma constant_valid s : forallb valid_char s = true -> forallb valid_char (to_constant_case s) = true.
Proof.
  intros H. unfold to_constant_case. apply forallb_map_impl with (p := valid_char); [apply upper_valid|].
  apply break_camel_valid. apply forallb_map_impl with (p := valid_char); [apply swap_valid|exact H].
Qed.

Lemma constant_head s : head_ok is_alnum s = true -> head_ok is_alnum (to_constant_case s) = true.
Proof.
  intros H. unfold to_constant_case. apply head_ok_map with (p := is_alnum); [apply upper_alnum|].
  rewrite break_camel_head. apply head_ok_map with (p := is_alnum); [apply swap_alnum|exact H].
Qed.

Lemma constant_nonempty s : s <> [] -> to_constant_case s <> [].
Proof.
  intros H. unfold to_constant_case. intros E. apply map_eq_nil in E. apply break_camel_nonempty in E; [exact E|].
  intros E'. apply map_eq_nil in E'. contradiction.
Qed.

Lemma snake_no_upper s : forallb (fun c => negb (is_upper c)) (to_snake_case s) = true.
Proof.
  unfold to_snake_case. induction (break_camel (map swap_sep s)) as [|c r IH]; simpl; [reflexivity|].
  rewrite lower_not_upper. exact IH.
Qed.

(* ---------------------------------------------------------------- keyword facts (finite) *)

(* every Rust keyword is in the generator's forbidden list (so an unforbidden result is no keyword) *)
Lemma keywords_covered : forallb (fun k => mem k forbidden_identifiers) rust_keywords = true.
Proof. vm_compute. reflexivity. Qed.

Lemma amem_spec x l : amem x l = true <-> exists k, In k l /\ astr_eqb x (la k) = true.
Proof. unfold amem. rewrite existsb_exists. reflexivity. Qed.

Lemma not_forbidden_not_keyword x : amem x forbidden_identifiers = false -> amem x rust_keywords = false.
Proof.
  intros H. destruct (amem x rust_keywords) eqn:E; [|reflexivity].
  apply amem_spec in E. destruct E as [k [Hk Hx]].
  assert (Hm : mem k forbidden_identifiers = true).
  { apply (proj1 (forallb_forall _ _) keywords_covered k Hk). }
  assert (amem x forbidden_identifiers = true).
  { apply amem_spec. exists k. split; [|exact Hx].
    clear -Hm. induction forbidden_identifiers as [|y l IH]; simpl in Hm; [discriminate|].
    apply orb_true_iff in Hm. destruct Hm as [Hm|Hm]; [left; symmetry; apply String.eqb_eq; exact Hm|right; auto]. }
  congruence.
Qed.

Lemma astr_eqb_eq a b : astr_eqb a b = true <-> a = b.
Proof.
  revert b. induction a as [|x a IH]; destruct b as [|y b]; simpl; split; intros H; try reflexivity; try discriminate.
  - apply andb_true_iff in H. destruct H as [H1 H2]. apply Ascii.eqb_eq in H1. apply IH in H2. congruence.
  - inversion H; subst. rewrite Ascii.eqb_refl. simpl. apply IH. reflexivity.
Qed.

(* no keyword starts with '_' or a digit, none contains a digit-led or underscore-led form *)
Lemma keywords_alpha_start : forallb (fun k => head_ok is_alpha (la k)) rust_keywords = true.
Proof. vm_compute. reflexivity. Qed.

Lemma head_nonalpha_not_keyword s : head_ok is_alpha s = false -> amem s rust_keywords = false.
Proof.
  intros H. destruct (amem s rust_keywords) eqn:E; [|reflexivity].
  apply amem_spec in E. destruct E as [k [Hk Hx]]. apply astr_eqb_eq in Hx. subst s.
  rewrite (proj1 (forallb_forall _ _) keywords_alpha_start k Hk) in H. discriminate.
Qed.

(* ---------------------------------------------------------------- legality: const names *)

Lemma ident_shape_intro s :
  s <> [] -> forallb valid_char s = true -> head_ok (fun c => is_alpha c || Ascii.eqb c US) s = true -> ident_shape s = true.
Proof. destruct s as [|c r]; [congruence|]. intros _ Hv Hh. simpl in *. rewrite Hh. exact Hv. Qed.

Lemma prefix_if_digit_shape p s :
  (is_alpha p || Ascii.eqb p US) = true -> valid_char p = true ->
  s <> [] -> forallb valid_char s = true -> head_ok is_alnum s = true ->
  ident_shape (prefix_if_digit p s) = true.
Proof.
  intros Hp Hpv Hne Hv Hh. destruct s as [|c r]; [congruence|]. unfold prefix_if_digit.
  destruct (is_digit c) eqn:Ed.
  - apply ident_shape_intro; [discriminate| |exact Hp]. simpl. rewrite Hpv. exact Hv.
  - apply ident_shape_intro; [discriminate|exact Hv|]. simpl in *.
    pose proof (impl_true _ _ (alnum_cases c) Hh) as H. rewrite Ed, orb_false_r in H. rewrite H. reflexivity.
Qed.

Lemma valid_not_hash : forall c, implb (valid_char c) (negb (Ascii.eqb c "#"%char)) = true.
Proof. ascii_sweep. Qed.

Lemma legal_plain s :
  ident_shape s = true -> amem s rust_keywords = false -> astr_eqb s (la "_") = false -> legal_ident s = true.
Proof.
  intros Hs Hk Hu. unfold legal_ident, plain_legal.
  destruct s as [|a [|b x]]; try (rewrite Hs, Hk, Hu; reflexivity).
  assert (Hb : Ascii.eqb b "#"%char = false).
  { simpl in Hs. apply andb_true_iff in Hs. destruct Hs as [_ Hv]. apply andb_true_iff in Hv. destruct Hv as [_ Hv].
    apply andb_true_iff in Hv. destruct Hv as [Hv _].
    pose proof (impl_true _ _ (valid_not_hash b) Hv) as H. apply negb_true_iff in H. exact H. }
  rewrite Hb, andb_false_r, Hs, Hk, Hu. reflexivity.
Qed.

Lemma legal_raw x : ident_shape x = true -> amem x never_raw = false -> legal_ident (la "r#" ++ x) = true.
Proof.
  intros Hs Hn. unfold legal_ident. change (la "r#" ++ x) with ("r"%char :: "#"%char :: x).
  change (Ascii.eqb "r"%char "r"%char && Ascii.eqb "#"%char "#"%char) with true. cbv iota.
  rewrite Hs, Hn. reflexivity.
Qed.

(* ---------------------------------------------------------------- C09: const names are always legal *)

Lemma not_us_alone s : (2 <= length s)%nat -> astr_eqb s (la "_") = false.
Proof.
  destruct s as [|a [|b r]]; cbn [length]; intros H; try lia.
  change (la "_") with ["_"%char]. cbn [astr_eqb]. destruct (Ascii.eqb a "_"); reflexivity.
Qed.

Theorem const_name_legal n : legal_ident (to_rust_const_name n) = true.
Proof.
  unfold to_rust_const_name. destruct (sanitize n) as [|c r] eqn:E; [vm_compute; reflexivity|].
  assert (Hv : forallb valid_char (to_constant_case (c :: r)) = true) by (apply constant_valid; rewrite <- E; apply sanitize_valid).
  assert (Hh : head_ok is_alnum (to_constant_case (c :: r)) = true) by (apply constant_head; rewrite <- E; apply sanitize_head).
  assert (Hne : to_constant_case (c :: r) <> []) by (apply constant_nonempty; discriminate).
  assert (Hup : forallb (fun c => negb (is_lower c)) (to_constant_case (c :: r)) = true).
  { unfold to_constant_case. induction (break_camel (map swap_sep (c :: r))) as [|x l IH]; simpl; [reflexivity|].
    rewrite IH, andb_true_r. revert x. ascii_sweep. }
  set (t := to_constant_case (c :: r)) in *.
  apply legal_plain.
  - apply prefix_if_digit_shape; auto.
  - (* not a keyword: every keyword contains a lowercase letter; the result has none *)
    destruct (amem (prefix_if_digit US t) rust_keywords) eqn:Ek; [|reflexivity]. exfalso.
    apply amem_spec in Ek. destruct Ek as [k [Hk Hx]]. apply astr_eqb_eq in Hx.
    assert (Hl : forallb (fun c => negb (is_lower c)) (prefix_if_digit US t) = true).
    { unfold prefix_if_digit. destruct t as [|y l]; [reflexivity|]. destruct (is_digit y); [simpl; exact Hup|exact Hup]. }
    rewrite Hx in Hl.
    assert (Hkw : forallb (fun k => negb (forallb (fun c => negb (is_lower c)) (la k))) rust_keywords = true) by (vm_compute; reflexivity).
    pose proof (proj1 (forallb_forall _ _) Hkw k Hk) as Hc. cbv beta in Hc. rewrite Hl in Hc. discriminate.
  - destruct t as [|y l]; [congruence|]. unfold prefix_if_digit. destruct (is_digit y) eqn:Ed.
    + apply not_us_alone. simpl. lia.
    + destruct l as [|z l']; [|apply not_us_alone; simpl; lia].
      simpl in Hh. pose proof (impl_true _ _ (alnum_not_us y) Hh) as H. apply negb_true_iff in H.
      change (la "_") with [US]. cbn [astr_eqb]. rewrite H. reflexivity.
Qed.

(* ---------------------------------------------------------------- C09: field names *)

Definition field_general (n : name) : astr :=
  let ident := to_snake_case (sanitize (drop_minus n)) in
  match ident with
  | [] => la "_"
  | _ => let ident := if leading_minus n then la "negative_" ++ ident else ident in
         if astr_eqb ident (la "self") || astr_eqb ident (la "crate") || astr_eqb ident (la "super") then ident ++ la "_"
         else if amem ident forbidden_identifiers then la "r#" ++ ident
         else prefix_if_digit US ident
  end.

Definition known_result (r : astr) : bool := astr_eqb r (la "_").

Lemma forbidden_shapes : forallb (fun k => ident_shape (la k)) forbidden_identifiers = true.
Proof. vm_compute. reflexivity. Qed.

Lemma amem_never_raw_cases x :
  amem x never_raw = true ->
  x = la "self" \/ x = la "Self" \/ x = la "super" \/ x = la "crate" \/ x = la "_".
Proof.
  intros H. apply amem_spec in H. destruct H as [k [Hk Hx]]. apply astr_eqb_eq in Hx. subst x.
  simpl in Hk. intuition (subst; auto).
Qed.

Lemma field_general_ok n : legal_ident (field_general n) || known_result (field_general n) = true.
Proof.
  unfold field_general.
  pose proof (snake_valid _ (sanitize_valid (drop_minus n))) as Hv0.
  pose proof (snake_head _ (sanitize_head (drop_minus n))) as Hh0.
  pose proof (snake_no_upper (sanitize (drop_minus n))) as Hu0.
  destruct (to_snake_case (sanitize (drop_minus n))) as [|c0 r0] eqn:E0; [vm_compute; reflexivity|].
  set (id0 := c0 :: r0) in *.
  set (ident := if leading_minus n then la "negative_" ++ id0 else id0).
  assert (Hne : ident <> []) by (unfold ident; destruct (leading_minus n); discriminate).
  assert (Hv : forallb valid_char ident = true).
  { unfold ident. destruct (leading_minus n); [|exact Hv0]. rewrite forallb_app, Hv0. reflexivity. }
  assert (Hh : head_ok is_alnum ident = true) by (unfold ident; destruct (leading_minus n); [reflexivity|exact Hh0]).
  assert (Hu : forallb (fun c => negb (is_upper c)) ident = true).
  { unfold ident. destruct (leading_minus n); [|exact Hu0]. rewrite forallb_app, Hu0. reflexivity. }
  clearbody ident.
  destruct (astr_eqb ident (la "self")) eqn:Eself; [apply astr_eqb_eq in Eself; subst ident; vm_compute; reflexivity|].
  destruct (astr_eqb ident (la "crate")) eqn:Ecrate; [apply astr_eqb_eq in Ecrate; subst ident; vm_compute; reflexivity|].
  destruct (astr_eqb ident (la "super")) eqn:Esuper; [apply astr_eqb_eq in Esuper; subst ident; vm_compute; reflexivity|].
  cbn [orb].
  destruct (amem ident forbidden_identifiers) eqn:Ef.
  - (* keyword: raw identifier *)
    assert (Hs : ident_shape ident = true).
    { apply amem_spec in Ef. destruct Ef as [k [Hk Hx]]. apply astr_eqb_eq in Hx. subst ident.
      apply (proj1 (forallb_forall _ _) forbidden_shapes k Hk). }
    destruct (amem ident never_raw) eqn:En.
    + apply amem_never_raw_cases in En. destruct En as [->|[->|[->|[->| ->]]]];
        try (vm_compute; reflexivity); try (vm_compute in Eself; discriminate);
        try (vm_compute in Ecrate; discriminate); try (vm_compute in Esuper; discriminate);
        try (vm_compute in Hu; discriminate); try (vm_compute in Hh; discriminate).
    + rewrite legal_raw by assumption. reflexivity.
  - rewrite legal_plain; [reflexivity| | |].
    + apply prefix_if_digit_shape; auto.
    + unfold prefix_if_digit. destruct ident as [|c r]; [congruence|]. destruct (is_digit c) eqn:Ed.
      * apply head_nonalpha_not_keyword. reflexivity.
      * apply not_forbidden_not_keyword. exact Ef.
    + unfold prefix_if_digit. destruct ident as [|c r]; [congruence|]. destruct (is_digit c) eqn:Ed.
      * apply not_us_alone. simpl. lia.
      * destruct r as [|z r']; [|apply not_us_alone; simpl; lia].
        simpl in Hh. pose proof (impl_true _ _ (alnum_not_us c) Hh) as H. apply negb_true_iff in H.
        change (la "_") with [US]. cbn [astr_eqb]. rewrite H. reflexivity.
Qed.

Definition known_field (n : name) : bool :=
  known_result (to_rust_field_name n)
  || match strip_raw_prefix n with
     | Some ((_ :: _) as raw) => all_asc_ident raw && negb (legal_ident (la "r#" ++ any_ascii raw))
     | _ => false
     end.

Theorem field_name_legal n : legal_ident (to_rust_field_name n) || known_field n = true.
Proof.
  unfold known_field.
  assert (G : to_rust_field_name n = field_general n \/
              exists c raw, strip_raw_prefix n = Some (c :: raw) /\ all_asc_ident (c :: raw) = true /\
                            to_rust_field_name n = la "r#" ++ any_ascii (c :: raw)).
  { unfold to_rust_field_name, field_general. destruct (strip_raw_prefix n) as [[|c raw]|]; auto.
    destruct (all_asc_ident (c :: raw)) eqn:E; auto. right. exists c, raw. auto. }
  destruct G as [->|[c [raw [E1 [E2 ->]]]]].
  - pose proof (field_general_ok n) as H. apply orb_true_iff in H. destruct H as [->| ->]; [reflexivity|].
    simpl. first [reflexivity | apply orb_true_r].
  - rewrite E1, E2. destruct (legal_ident (la "r#" ++ any_ascii (c :: raw))); simpl; first [reflexivity | apply orb_true_r].
Qed.

(* ---------------------------------------------------------------- C09: type names *)

Lemma filter_alnum_valid s : forallb is_alnum (filter is_alnum s) = true.
Proof. induction s as [|c r IH]; simpl; [reflexivity|]. destruct (is_alnum c) eqn:E; simpl; [rewrite E|]; exact IH. Qed.

Definition upper_or_digit (c : ascii) : bool := is_upper c || is_digit c.

(* the first alphanumeric character produced by CapitalizeWordsWithBoundaries is an uppercase letter or a
   digit, provided capitalisation is pending whenever the input starts with an alphanumeric *)
Lemma cap_words_head s cap prev :
  (head_ok is_alnum s = true -> cap = true \/ s = []) ->
  head_ok upper_or_digit (filter is_alnum (cap_words s cap prev)) = true.
Proof.
  revert cap prev. induction s as [|c r IH]; intros cap prev H; [reflexivity|].
  cbn [cap_words]. destruct (is_alnum c) eqn:Ec; cbn [negb].
  - destruct (H Ec) as [->|Hnil]; [|discriminate]. cbn [orb]. cbn [filter].
    rewrite (impl_true _ _ (upper_alnum c) Ec). cbn [head_ok]. unfold upper_or_digit.
    apply (impl_true _ _ (upper_alpha_or_digit c) Ec).
  - cbn [filter]. rewrite Ec. apply IH. intros Hh. destruct r as [|d r']; [right; reflexivity|]. left. exact Hh.
Qed.

Definition type_ident (n0 : name) : astr :=
  let n := match strip_raw_prefix n0 with Some r => r | None => n0 end in
  let body := drop_minus n in
  let mixed := negb (existsb (is_asc is_sep_char) body) && existsb (is_asc is_upper) body && existsb (is_asc is_lower) body in
  if mixed then match filter is_alnum (any_ascii body) with [] => [] | c :: r => upper_ascii c :: r end
  else filter is_alnum (cap_words (any_ascii body) true false).

Lemma type_ident_facts n : forallb is_alnum (type_ident n) = true /\ head_ok upper_or_digit (type_ident n) = true.
Proof.
  unfold type_ident. destruct (negb _ && _ && _).
  - pose proof (filter_alnum_valid (any_ascii (drop_minus (match strip_raw_prefix n with Some r => r | None => n end)))) as H.
    destruct (filter is_alnum _) as [|c r]; [auto|]. simpl in H. apply andb_true_iff in H. destruct H as [Hc Hr].
    split.
    + simpl. rewrite (impl_true _ _ (upper_alnum c) Hc). exact Hr.
    + simpl. apply (impl_true _ _ (upper_alpha_or_digit c) Hc).
  - split; [apply filter_alnum_valid|]. apply cap_words_head. auto.
Qed.

Lemma alnum_all_valid s : forallb is_alnum s = true -> forallb valid_char s = true.
Proof.
  induction s as [|c r IH]; simpl; [reflexivity|]. intros H. apply andb_true_iff in H. destruct H as [Hc Hr].
  rewrite (impl_true _ _ (alnum_valid c) Hc). simpl. auto.
Qed.

Lemma upper_or_digit_alnum : forall c, implb (upper_or_digit c) (is_alnum c) = true.
Proof. ascii_sweep. Qed.
Lemma upper_or_digit_split : forall c, implb (upper_or_digit c) (is_alpha c || is_digit c) = true.
Proof. ascii_sweep. Qed.
Lemma upper_or_digit_not_lower : forall c, implb (upper_or_digit c) (negb (is_lower c)) = true.
Proof. ascii_sweep. Qed.

(* every Rust keyword except Self starts with a lowercase letter *)
Lemma keywords_lower_start :
  forallb (fun k => String.eqb k "Self" || head_ok is_lower (la k)) rust_keywords = true.
Proof. vm_compute. reflexivity. Qed.

Theorem type_name_legal n :
  legal_ident (to_rust_type_name n) || astr_eqb (to_rust_type_name n) (la "r#Self") = true.
Proof.
  assert (E : to_rust_type_name n =
              match type_ident n with
              | [] => la "Unnamed"
              | _ => let ident := if leading_minus (match strip_raw_prefix n with Some r => r | None => n end)
                                  then la "Negative" ++ type_ident n else type_ident n in
                     if astr_eqb ident (la "Self") then la "r#Self"
                     else if amem ident prelude_type_names then ident ++ la "Type"
                     else prefix_if_digit "T"%char ident
              end) by reflexivity.
  rewrite E. clear E. destruct (type_ident_facts n) as [Hv0 Hh0].
  destruct (type_ident n) as [|c0 r0] eqn:E0; [vm_compute; reflexivity|].
  set (id0 := c0 :: r0) in *. cbv zeta.
  set (ident := if leading_minus _ then la "Negative" ++ id0 else id0).
  assert (Hne : ident <> []) by (unfold ident; destruct (leading_minus _); discriminate).
  assert (Hv : forallb is_alnum ident = true).
  { unfold ident. destruct (leading_minus _); [|exact Hv0]. rewrite forallb_app, Hv0. reflexivity. }
  assert (Hh : head_ok upper_or_digit ident = true) by (unfold ident; destruct (leading_minus _); [reflexivity|exact Hh0]).
  clearbody ident.
  destruct (astr_eqb ident (la "Self")) eqn:Eself; [vm_compute; reflexivity|].
  assert (Hnokw : forall t, t <> [] -> head_ok upper_or_digit t = true -> astr_eqb t (la "Self") = false -> amem t rust_keywords = false).
  { intros t Hnt Ht Hs. destruct (amem t rust_keywords) eqn:Ek; [|reflexivity]. exfalso.
    apply amem_spec in Ek. destruct Ek as [k [Hk Hx]]. apply astr_eqb_eq in Hx. subst t.
    pose proof (proj1 (forallb_forall _ _) keywords_lower_start k Hk) as Hc. cbv beta in Hc.
    apply orb_true_iff in Hc. destruct Hc as [Hc|Hc].
    - apply String.eqb_eq in Hc. subst k. vm_compute in Hs. discriminate.
    - destruct (la k) as [|y l]; [congruence|]. simpl in *.
      pose proof (impl_true _ _ (upper_or_digit_not_lower y) Ht) as Hn. rewrite Hc in Hn. discriminate. }
  destruct ident as [|c r]; [congruence|]. simpl in Hh.
  assert (Hcal : is_alnum c = true) by (apply (impl_true _ _ (upper_or_digit_alnum c) Hh)).
  destruct (amem (c :: r) prelude_type_names) eqn:Ep.
  - (* ident ++ "Type" *)
    rewrite legal_plain; [reflexivity| | |].
    + apply ident_shape_intro; [discriminate| |].
      * rewrite forallb_app. rewrite (alnum_all_valid _ Hv). reflexivity.
      * simpl. apply amem_spec in Ep. destruct Ep as [k [Hk Hx]]. apply astr_eqb_eq in Hx.
        assert (Hp : forallb (fun k => head_ok is_alpha (la k)) prelude_type_names = true) by (vm_compute; reflexivity).
        pose proof (proj1 (forallb_forall _ _) Hp k Hk) as Hc. cbv beta in Hc. rewrite <- Hx in Hc. simpl in Hc.
        rewrite Hc. reflexivity.
    + apply Hnokw; [discriminate|exact Hh|].
      destruct (astr_eqb ((c :: r) ++ la "Type") (la "Self")) eqn:X; [|reflexivity].
      apply astr_eqb_eq in X. apply (f_equal (@length ascii)) in X. rewrite app_length in X. simpl in X. lia.
    + apply not_us_alone. rewrite app_length. simpl. lia.
  - rewrite legal_plain; [reflexivity| | |].
    + apply prefix_if_digit_shape; [reflexivity|reflexivity|discriminate|apply alnum_all_valid; exact Hv|exact Hcal].
    + unfold prefix_if_digit. destruct (is_digit c) eqn:Ed.
      * apply Hnokw; [discriminate|reflexivity|reflexivity].
      * apply Hnokw; [discriminate|exact Hh|exact Eself].
    + unfold prefix_if_digit. destruct (is_digit c) eqn:Ed.
      * apply not_us_alone. simpl. lia.
      * pose proof (impl_true _ _ (alnum_not_us c) Hcal) as H. apply negb_true_iff in H.
        change (la "_") with [US]. cbn [astr_eqb]. rewrite H. reflexivity.
Qed.
