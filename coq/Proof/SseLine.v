(* C20 lemmas, line layer: prefix stability of the streaming line parser, the big-step drain relation,
   and independence of the string chunking. *)
From Coq Require Import Ascii List NArith Bool Lia.
From OAS Require Import Model.Sse.
Import ListNotations.

(* ------------------------------------------------------------------ spans *)

Lemma span_noneol_app s a b y :
  span_noneol s = (a, b) -> b <> [] -> span_noneol (s ++ y) = (a, b ++ y).
Proof.
  revert a b. induction s as [|c r IH]; simpl; intros a b H Hb.
  - inversion H; subst. congruence.
  - destruct (is_eol c) eqn:E.
    + inversion H; subst. reflexivity.
    + destruct (span_noneol r) as [a' b'] eqn:Er. inversion H; subst.
      rewrite (IH a' b eq_refl Hb). reflexivity.
Qed.

Lemma span_name_app s a b y :
  span_name s = (a, b) -> b <> [] -> span_name (s ++ y) = (a, b ++ y).
Proof.
  revert a b. induction s as [|c r IH]; simpl; intros a b H Hb.
  - inversion H; subst. congruence.
  - destruct (is_eol c || Ascii.eqb c COLON) eqn:E.
    + inversion H; subst. reflexivity.
    + destruct (span_name r) as [a' b'] eqn:Er. inversion H; subst.
      rewrite (IH a' b eq_refl Hb). reflexivity.
Qed.

Lemma span_noneol_length s a b : span_noneol s = (a, b) -> length s = (length a + length b)%nat.
Proof.
  revert a b. induction s as [|c r IH]; simpl; intros a b H.
  - inversion H; reflexivity.
  - destruct (is_eol c).
    + inversion H; subst. reflexivity.
    + destruct (span_noneol r) as [a' b'] eqn:Er. inversion H; subst. simpl. rewrite (IH a' b eq_refl). reflexivity.
Qed.

Lemma span_name_length s a b : span_name s = (a, b) -> length s = (length a + length b)%nat.
Proof.
  revert a b. induction s as [|c r IH]; simpl; intros a b H.
  - inversion H; reflexivity.
  - destruct (is_eol c || Ascii.eqb c COLON).
    + inversion H; subst. reflexivity.
    + destruct (span_name r) as [a' b'] eqn:Er. inversion H; subst. simpl. rewrite (IH a' b eq_refl). reflexivity.
Qed.

(* ------------------------------------------------------------------ end of line *)

Lemma eol_app s r y : eol s = Some r -> eol (s ++ y) = Some (r ++ y).
Proof.
  unfold eol. destruct s as [|c s']; [discriminate|]. simpl.
  destruct (Ascii.eqb c CR).
  - destruct s' as [|d s'']; [discriminate|]. simpl.
    destruct (Ascii.eqb d LF); intros [= <-]; reflexivity.
  - destruct (Ascii.eqb c LF); [intros [= <-]; reflexivity|discriminate].
Qed.

Lemma eol_shorter s r : eol s = Some r -> (length r < length s)%nat.
Proof.
  unfold eol. destruct s as [|c s']; [discriminate|].
  destruct (Ascii.eqb c CR).
  - destruct s' as [|d s'']; [discriminate|].
    destruct (Ascii.eqb d LF); intros [= <-]; simpl; lia.
  - destruct (Ascii.eqb c LF); [intros [= <-]; simpl; lia|discriminate].
Qed.

Lemma eol_some_nonempty s r : eol s = Some r -> s <> [].
Proof. destruct s; [discriminate|congruence]. Qed.

Lemma after_eol_app rest l r x y :
  after_eol rest l = LDone r x -> after_eol (rest ++ y) l = LDone (r ++ y) x.
Proof.
  unfold after_eol. destruct (eol rest) as [r'|] eqn:E; [|discriminate].
  intros [= <- <-]. rewrite (eol_app _ _ y E). reflexivity.
Qed.

Lemma after_eol_done_nonempty rest l r x : after_eol rest l = LDone r x -> rest <> [].
Proof.
  unfold after_eol. destruct (eol rest) eqn:E; [|discriminate]. intros _. eapply eol_some_nonempty; eauto.
Qed.

(* ------------------------------------------------------------------ line *)

Theorem line_prefix_stable s r l y : line s = LDone r l -> line (s ++ y) = LDone (r ++ y) l.
Proof.
  destruct s as [|c s']; [discriminate|]. change ((c :: s') ++ y) with (c :: (s' ++ y)).
  unfold line.
  destruct (Ascii.eqb c COLON) eqn:Ec.
  - destruct (span_noneol s') as [body rest] eqn:Es. intros H.
    rewrite (span_noneol_app _ _ _ y Es (after_eol_done_nonempty _ _ _ _ H)).
    apply after_eol_app. exact H.
  - destruct (is_eol c) eqn:Ee.
    + intros H. apply (after_eol_app (c :: s')). exact H.
    + destruct (span_name (c :: s')) as [name rest] eqn:Es.
      destruct rest as [|d r1]; [discriminate|].
      assert (Hs : span_name ((c :: s') ++ y) = (name, (d :: r1) ++ y))
        by (apply span_name_app; [exact Es|discriminate]).
      change ((c :: s') ++ y) with (c :: (s' ++ y)) in Hs. rewrite Hs.
      change ((d :: r1) ++ y) with (d :: (r1 ++ y)).
      destruct (Ascii.eqb d COLON) eqn:Ed.
      * destruct r1 as [|e r2]; [discriminate|]. change ((e :: r2) ++ y) with (e :: (r2 ++ y)).
        destruct (Ascii.eqb e SP) eqn:Esp.
        -- destruct (span_noneol r2) as [val rest2] eqn:Ev. intros H. rewrite ?Ed, ?Esp.
           rewrite (span_noneol_app _ _ _ y Ev (after_eol_done_nonempty _ _ _ _ H)).
           apply after_eol_app. exact H.
        -- destruct (span_noneol (e :: r2)) as [val rest2] eqn:Ev. intros H. rewrite ?Ed, ?Esp.
           pose proof (span_noneol_app _ _ _ y Ev (after_eol_done_nonempty _ _ _ _ H)) as Hv.
           change ((e :: r2) ++ y) with (e :: (r2 ++ y)) in Hv. rewrite Hv. apply after_eol_app. exact H.
      * intros H. rewrite ?Ed. apply (after_eol_app (d :: r1)). exact H.
Qed.

Lemma after_eol_shorter rest l r x : after_eol rest l = LDone r x -> (length r < length rest)%nat.
Proof.
  unfold after_eol. destruct (eol rest) as [r'|] eqn:E; [|discriminate]. intros [= <- _]. apply eol_shorter. exact E.
Qed.

Theorem line_done_shorter s r l : line s = LDone r l -> (length r < length s)%nat.
Proof.
  unfold line. destruct s as [|c s']; [discriminate|].
  destruct (Ascii.eqb c COLON).
  - destruct (span_noneol s') as [body rest] eqn:Es. intros H.
    apply after_eol_shorter in H. apply span_noneol_length in Es. simpl. lia.
  - destruct (is_eol c).
    + intros H. apply after_eol_shorter in H. exact H.
    + destruct (span_name (c :: s')) as [name rest] eqn:Es.
      pose proof (span_name_length _ _ _ Es) as Hl.
      destruct rest as [|d r1]; [discriminate|].
      destruct (Ascii.eqb d COLON).
      * destruct r1 as [|e r2]; [discriminate|].
        destruct (Ascii.eqb e SP).
        -- destruct (span_noneol r2) as [val rest2] eqn:Ev. intros H.
           apply after_eol_shorter in H. apply span_noneol_length in Ev. simpl in *. lia.
        -- destruct (span_noneol (e :: r2)) as [val rest2] eqn:Ev. intros H.
           apply after_eol_shorter in H. apply span_noneol_length in Ev. simpl in *. lia.
      * intros H. apply after_eol_shorter in H. simpl in *. lia.
Qed.

(* the parser has no error outcome: every input is Incomplete or Done (alt never falls off the end) —
   by construction of [lres]; the nom-level statement is validated by the correspondence. *)

(* ------------------------------------------------------------------ Drain *)

Lemma Drain_fun buf d es bf df es' bf' df' :
  Drain buf d es bf df -> Drain buf d es' bf' df' -> es = es' /\ bf = bf' /\ df = df'.
Proof.
  intros H. revert es' bf' df'. induction H as [buf d Hl|buf d r l d' ev es bf df Hl Hs Hd IH]; intros es' bf' df' H'.
  - inversion H'; subst; [auto|congruence].
  - inversion H'; subst; [congruence|].
    match goal with
    | [ A : line buf = LDone ?r0 ?l0, B : step d ?l0 = (?d0, ?ev0), C : Drain ?r0 ?d0 ?es0 bf' df' |- _ ] =>
        rewrite Hl in A; inversion A; subst; rewrite Hs in B; inversion B; subst;
        destruct (IH _ _ _ C) as [-> [-> ->]]; auto
    end.
Qed.

Lemma Drain_app buf d es1 bf1 d1 c es2 bf2 d2 :
  Drain buf d es1 bf1 d1 -> Drain (bf1 ++ c) d1 es2 bf2 d2 -> Drain (buf ++ c) d (es1 ++ es2) bf2 d2.
Proof.
  intros H. revert es2 bf2 d2.
  induction H as [buf d Hl|buf d r l d' ev es bf df Hl Hs Hd IH]; intros es2 bf2 d2 H2.
  - exact H2.
  - rewrite <- app_assoc. eapply Drain_step.
    + apply line_prefix_stable. exact Hl.
    + exact Hs.
    + apply IH. exact H2.
Qed.

Lemma drain_sound fuel buf d es bf df :
  drain fuel buf d = Some (es, bf, df) -> Drain buf d es bf df.
Proof.
  revert buf d es bf df. induction fuel as [|f IH]; simpl; intros buf d es bf df H; [discriminate|].
  destruct (line buf) as [|r l] eqn:El.
  - inversion H; subst. apply Drain_stop. exact El.
  - destruct (step d l) as [d' ev] eqn:Es.
    destruct (drain f r d') as [[[es0 bf0] df0]|] eqn:Ed; [|discriminate].
    inversion H; subst. eapply Drain_step; eauto.
Qed.

Lemma drain_fuel_enough fuel buf d :
  (length buf < fuel)%nat -> exists es bf df, drain fuel buf d = Some (es, bf, df).
Proof.
  revert buf d. induction fuel as [|f IH]; intros buf d Hf; [lia|]. simpl.
  destruct (line buf) as [|r l] eqn:El.
  - eauto.
  - destruct (step d l) as [d' ev].
    pose proof (line_done_shorter _ _ _ El) as Hs.
    destruct (IH r d') as [es [bf [df E]]]; [lia|]. rewrite E. eauto.
Qed.

Lemma drain_all_Drain buf d :
  let '(es, bf, df) := drain_all buf d in Drain buf d es bf df.
Proof.
  unfold drain_all.
  destruct (drain_fuel_enough (S (length buf)) buf d) as [es [bf [df E]]]; [lia|].
  rewrite E. eapply drain_sound. exact E.
Qed.

Lemma Drain_drain_all buf d es bf df : Drain buf d es bf df -> drain_all buf d = (es, bf, df).
Proof.
  intros H. pose proof (drain_all_Drain buf d) as H'.
  destruct (drain_all buf d) as [[es' bf'] df'].
  destruct (Drain_fun _ _ _ _ _ _ _ _ H H') as [-> [-> ->]]. reflexivity.
Qed.

(* ------------------------------------------------------------------ chunking independence (strings) *)

Lemma feed_Drain st c es st' :
  feed st c = (es, st') <-> Drain (fst st ++ c) (snd st) es (fst st') (snd st').
Proof.
  unfold feed. split.
  - pose proof (drain_all_Drain (fst st ++ c) (snd st)) as H.
    destruct (drain_all (fst st ++ c) (snd st)) as [[es0 bf0] df0]. intros [= <- <-]. exact H.
  - intros H. rewrite (Drain_drain_all _ _ _ _ _ H). destruct st'; reflexivity.
Qed.

Lemma feed_two st c1 c2 :
  let (e1, st1) := feed st c1 in
  let (e2, st2) := feed st1 c2 in
  feed st (c1 ++ c2) = (e1 ++ e2, st2).
Proof.
  destruct (feed st c1) as [e1 st1] eqn:E1. destruct (feed st1 c2) as [e2 st2] eqn:E2.
  apply feed_Drain. apply feed_Drain in E1. apply feed_Drain in E2.
  rewrite app_assoc. eapply Drain_app; eauto.
Qed.

Lemma feed_nil st : line (fst st) = LIncomplete -> feed st [] = ([], st).
Proof.
  intros H. apply feed_Drain. rewrite app_nil_r. apply Drain_stop. exact H.
Qed.

Lemma feed_leaves_incomplete st c es st' : feed st c = (es, st') -> line (fst st') = LIncomplete.
Proof.
  intros H. apply feed_Drain in H. remember (fst st ++ c) as b. clear Heqb.
  induction H; auto.
Qed.

(* Every way of cutting a string into chunks (empty chunks included, no bound on number or size)
   yields the same events and leaves the same parser state as feeding it in one piece. *)
Theorem feed_all_concat st cs :
  line (fst st) = LIncomplete ->
  feed_all st cs = feed st (concat cs).
Proof.
  revert st. induction cs as [|c cs IH]; intros st Hst; simpl.
  - symmetry. apply feed_nil. exact Hst.
  - destruct (feed st c) as [e1 st1] eqn:E1.
    rewrite IH by (eapply feed_leaves_incomplete; eauto).
    pose proof (feed_two st c (concat cs)) as H2. rewrite E1 in H2.
    destruct (feed st1 (concat cs)) as [e2 st2]. symmetry. exact H2.
Qed.

Corollary chunking_irrelevant cs1 cs2 :
  concat cs1 = concat cs2 -> feed_all ([], []) cs1 = feed_all ([], []) cs2.
Proof. intros H. rewrite !feed_all_concat by reflexivity. rewrite H. reflexivity. Qed.
