From Coq Require Import Relations List Bool NArith Lia.
From OAS Require Import Model.Boxing.
Import ListNotations.

Lemma memN_In x l : memN x l = true <-> In x l.
Proof.
  unfold memN. rewrite existsb_exists. split.
  - intros [y [Hy He]]. apply N.eqb_eq in He. subst. exact Hy.
  - intros H. exists x. split; [exact H | apply N.eqb_refl].
Qed.

Lemma dedupN_In x l : In x (dedupN l) <-> In x l.
Proof.
  induction l as [|y r IH]; cbn [dedupN]; [tauto|].
  destruct (memN y r) eqn:E.
  - rewrite IH. split; [right; exact H|]. intros [->|H]; [apply memN_In; exact E | exact H].
  - cbn [In]. rewrite IH. tauto.
Qed.

Lemma saturate_extends fuel es S x : In x S -> In x (saturate fuel es S).
Proof.
  revert S. induction fuel as [|f IH]; intros S H; cbn [saturate]; [exact H|].
  apply IH. apply (proj2 (dedupN_In _ _)). apply in_or_app. left. exact H.
Qed.

Lemma closedb_spec es S : closedb es S = true -> forall a b, edge es a b -> In a S -> In b S.
Proof.
  unfold closedb, edge. rewrite forallb_forall. intros H a b Hab Ha.
  specialize (H (a, b) Hab). cbn [fst snd] in H.
  apply memN_In in Ha. rewrite Ha in H. cbn [implb] in H. apply memN_In. exact H.
Qed.

Lemma succs_In es S a b : edge es a b -> In a S -> In b (succs es S).
Proof.
  unfold succs, edge. intros Hab Ha. apply in_map_iff. exists (a, b). split; [reflexivity|].
  apply filter_In. split; [exact Hab|]. cbn [fst]. apply memN_In. exact Ha.
Qed.

(* completeness of the marking: every node on a cycle of the dependency edges is marked *)
Theorem cyclicb_complete es n : clos_trans N (edge es) n n -> cyclicb es n = true.
Proof.
  intros Hc. unfold cyclicb.
  destruct (closedb es (saturate (length es) es (succs es [n]))) eqn:Hcl; [|reflexivity].
  apply memN_In.
  set (S := saturate (length es) es (succs es [n])) in *.
  assert (Hgen : forall a b, clos_trans N (edge es) a b -> (a = n \/ In a S) -> In b S).
  { intros a b Hab. induction Hab as [a b Hab | a b c _ IH1 _ IH2]; intros Ha.
    - destruct Ha as [->|Ha].
      + apply saturate_extends. apply succs_In with n; [exact Hab | left; reflexivity].
      + eapply closedb_spec; eauto.
    - apply IH2. right. apply IH1. exact Ha. }
  apply (Hgen n n Hc). left. reflexivity.
Qed.

(* soundness of a mark when the saturation closed: a marked node really is reachable from itself *)
Lemma succs_sound es S b : In b (succs es S) -> exists a, In a S /\ edge es a b.
Proof.
  unfold succs. intros H. apply in_map_iff in H. destruct H as [[a b'] [E H]]. cbn [snd] in E. subst b'.
  apply filter_In in H. destruct H as [H1 H2]. cbn [fst] in H2. apply memN_In in H2. exists a. split; assumption.
Qed.

Lemma saturate_sound fuel es n : forall S, (forall x, In x S -> clos_trans N (edge es) n x) ->
  forall x, In x (saturate fuel es S) -> clos_trans N (edge es) n x.
Proof.
  induction fuel as [|f IH]; intros S HS x Hx; cbn [saturate] in Hx; [apply HS; exact Hx|].
  eapply IH; [|exact Hx]. intros y Hy. apply (proj1 (dedupN_In _ _)) in Hy. apply in_app_or in Hy. destruct Hy as [Hy|Hy].
  - apply HS. exact Hy.
  - apply succs_sound in Hy. destruct Hy as [a [Ha Hab]]. eapply t_trans; [apply HS; exact Ha | apply t_step; exact Hab].
Qed.

Theorem cyclicb_sound es n :
  closedb es (saturate (length es) es (succs es [n])) = true -> cyclicb es n = true -> clos_trans N (edge es) n n.
Proof.
  unfold cyclicb. intros -> H. apply memN_In in H. eapply saturate_sound; [|exact H].
  intros x Hx. apply succs_sound in Hx. destruct Hx as [a [[<-|[]] Hab]]. apply t_step. exact Hab.
Qed.

(* ---------- reachability ---------- *)
Lemma saturate_sound_multi fuel es (P : N -> Prop) : forall S,
  (forall x, In x S -> exists s, P s /\ clos_refl_trans N (edge es) s x) ->
  forall x, In x (saturate fuel es S) -> exists s, P s /\ clos_refl_trans N (edge es) s x.
Proof.
  induction fuel as [|f IH]; intros S HS x Hx; cbn [saturate] in Hx; [apply HS; exact Hx|].
  eapply IH; [|exact Hx]. intros y Hy. apply (proj1 (dedupN_In _ _)) in Hy. apply in_app_or in Hy. destruct Hy as [Hy|Hy].
  - apply HS. exact Hy.
  - apply succs_sound in Hy. destruct Hy as [a [Ha Hab]]. destruct (HS a Ha) as [s [Hs Hsa]].
    exists s. split; [exact Hs|]. eapply rt_trans; [exact Hsa | apply rt_step; exact Hab].
Qed.

Lemma closed_rt es S : closedb es S = true -> forall a b, clos_refl_trans N (edge es) a b -> In a S -> In b S.
Proof.
  intros Hc a b H. induction H as [a b Hab | a | a b c _ IH1 _ IH2]; intros Ha.
  - eapply closedb_spec; eauto.
  - exact Ha.
  - apply IH2. apply IH1. exact Ha.
Qed.

Theorem reach_seeds ss ops x : In x (seeds (build_fp ss) ops) -> In x (fst (reach ss ops)).
Proof. intros H. unfold reach. cbn [fst]. apply saturate_extends. apply (proj2 (dedupN_In _ _)). exact H. Qed.

Theorem reach_closed ss ops : snd (reach ss ops) = true ->
  forall a b, In a (fst (reach ss ops)) -> clos_refl_trans N (edge (deps ss)) a b -> In b (fst (reach ss ops)).
Proof. unfold reach. cbn [fst snd]. intros Hc a b Ha Hab. eapply closed_rt; eauto. Qed.

Theorem reach_minimal ss ops x : In x (fst (reach ss ops)) ->
  exists s, In s (seeds (build_fp ss) ops) /\ clos_refl_trans N (edge (deps ss)) s x.
Proof.
  unfold reach. cbn [fst]. intros H.
  eapply (saturate_sound_multi _ _ (fun s => In s (seeds (build_fp ss) ops))); [|exact H].
  intros y Hy. apply (proj1 (dedupN_In _ _)) in Hy. exists y. split; [exact Hy | apply rt_refl].
Qed.

Lemma seeds_incl t ops ops' : incl ops ops' -> incl (seeds t ops) (seeds t ops').
Proof.
  unfold seeds. intros H x Hx. apply in_flat_map in Hx. destruct Hx as [o [Ho Hx]].
  apply in_flat_map. exists o. split; [apply H; exact Ho | exact Hx].
Qed.

Theorem reach_monotone ss ops ops' : incl ops ops' -> snd (reach ss ops') = true ->
  incl (fst (reach ss ops)) (fst (reach ss ops')).
Proof.
  intros Hi Hc x Hx. apply reach_minimal in Hx. destruct Hx as [s [Hs Hsx]].
  eapply reach_closed; [exact Hc | | exact Hsx]. apply reach_seeds. eapply seeds_incl; eauto.
Qed.

(* ---------- the fuel always suffices: the saturation is closed after |es| rounds ---------- *)
Definition step (es : list (N * N)) (S : list N) : list N := dedupN (S ++ succs es S).
Definition missing (es : list (N * N)) (S : list N) : nat := length (filter (fun e => negb (memN (snd e) S)) es).

Lemma saturate_step fuel es S : saturate (Datatypes.S fuel) es S = saturate fuel es (step es S).
Proof. reflexivity. Qed.

Lemma step_extends es S x : In x S -> In x (step es S).
Proof. intros H. unfold step. apply (proj2 (dedupN_In _ _)). apply in_or_app. left. exact H. Qed.

Lemma memN_false x l : memN x l = false <-> ~ In x l.
Proof.
  split.
  - intros H Hin. apply memN_In in Hin. congruence.
  - intros H. destruct (memN x l) eqn:E; [|reflexivity]. apply memN_In in E. contradiction.
Qed.

Lemma filter_length_le {A} (p q : A -> bool) l : (forall x, In x l -> q x = true -> p x = true) ->
  (length (filter q l) <= length (filter p l))%nat.
Proof.
  induction l as [|a r IH]; intros H; cbn [filter]; [lia|].
  assert (IH' : (length (filter q r) <= length (filter p r))%nat) by (apply IH; intros x Hx; apply H; right; exact Hx).
  destruct (q a) eqn:Q.
  - rewrite (H a (or_introl eq_refl) Q). cbn [length]. lia.
  - destruct (p a); cbn [length]; lia.
Qed.

Lemma filter_length_lt {A} (p q : A -> bool) l e : (forall x, In x l -> q x = true -> p x = true) ->
  In e l -> p e = true -> q e = false -> (length (filter q l) < length (filter p l))%nat.
Proof.
  induction l as [|a r IH]; intros H Hin Pe Qe; [destruct Hin|].
  cbn [filter]. destruct Hin as [->|Hin].
  - rewrite Pe, Qe. cbn [length].
    assert ((length (filter q r) <= length (filter p r))%nat) by (apply filter_length_le; intros x Hx; apply H; right; exact Hx). lia.
  - assert (IH' : (length (filter q r) < length (filter p r))%nat) by (apply IH; auto; intros x Hx; apply H; right; exact Hx).
    destruct (q a) eqn:Q.
    + rewrite (H a (or_introl eq_refl) Q). cbn [length]. lia.
    + destruct (p a); cbn [length]; lia.
Qed.

Lemma closedb_false es S : closedb es S = false -> exists a b, In (a, b) es /\ In a S /\ ~ In b S.
Proof.
  unfold closedb. intros H.
  assert (E : exists e, In e es /\ implb (memN (fst e) S) (memN (snd e) S) = false).
  { induction es as [|e r IH]; cbn [forallb] in H; [discriminate|].
    apply andb_false_iff in H. destruct H as [H|H].
    - exists e. split; [left; reflexivity | exact H].
    - destruct (IH H) as [e' [H1 H2]]. exists e'. split; [right; exact H1 | exact H2]. }
  destruct E as [[a b] [Hin Himp]]. cbn [fst snd] in Himp.
  destruct (memN a S) eqn:A; cbn [implb] in Himp; [|discriminate].
  exists a, b. split; [exact Hin|]. split; [apply memN_In; exact A | apply memN_false; exact Himp].
Qed.

Lemma missing_step_lt es S : closedb es S = false -> (missing es (step es S) < missing es S)%nat.
Proof.
  intros H. destruct (closedb_false es S H) as [a [b [Hin [Ha Hb]]]].
  unfold missing. apply filter_length_lt with (e := (a, b)).
  - intros x Hx Q. apply negb_true_iff in Q. apply negb_true_iff. apply memN_false. apply memN_false in Q.
    intros Hs. apply Q. apply step_extends. exact Hs.
  - exact Hin.
  - cbn [snd]. apply negb_true_iff. apply memN_false. exact Hb.
  - cbn [snd]. apply negb_false_iff. apply memN_In. unfold step. apply (proj2 (dedupN_In _ _)).
    apply in_or_app. right. apply succs_In with a; assumption.
Qed.

Lemma closedb_ext es S S' : (forall x, In x S <-> In x S') -> closedb es S = closedb es S'.
Proof.
  intros H. unfold closedb.
  assert (M : forall x, memN x S = memN x S').
  { intros x. destruct (memN x S) eqn:A, (memN x S') eqn:B; try reflexivity.
    - apply memN_In in A. apply H in A. apply memN_In in A. congruence.
    - apply memN_In in B. apply H in B. apply memN_In in B. congruence. }
  induction es as [|e r IH]; cbn [forallb]; [reflexivity|]. rewrite !M, IH. reflexivity.
Qed.

Lemma closed_step es S : closedb es S = true -> closedb es (step es S) = true.
Proof.
  intros H. rewrite <- H. symmetry. apply closedb_ext. intros x. split.
  - apply step_extends.
  - unfold step. intros Hx. apply (proj1 (dedupN_In _ _)) in Hx. apply in_app_or in Hx. destruct Hx as [Hx|Hx]; [exact Hx|].
    apply succs_sound in Hx. destruct Hx as [a [Ha Hab]]. eapply closedb_spec; eauto.
Qed.

Lemma closed_saturate fuel es : forall S, closedb es S = true -> closedb es (saturate fuel es S) = true.
Proof.
  induction fuel as [|f IH]; intros S H; [exact H|]. rewrite saturate_step. apply IH. apply closed_step. exact H.
Qed.

Lemma missing_zero_closed es S : missing es S = O -> closedb es S = true.
Proof.
  unfold missing, closedb. intros H. apply forallb_forall. intros e He.
  destruct (memN (snd e) S) eqn:B; [destruct (memN (fst e) S); reflexivity|].
  exfalso. assert (Hin : In e (filter (fun e => negb (memN (snd e) S)) es)) by (apply filter_In; split; [exact He | rewrite B; reflexivity]).
  destruct (filter (fun e0 => negb (memN (snd e0) S)) es); [destruct Hin | discriminate].
Qed.

Lemma saturate_closed_gen fuel es : forall S, (missing es S <= fuel)%nat -> closedb es (saturate fuel es S) = true.
Proof.
  induction fuel as [|f IH]; intros S H.
  - cbn [saturate]. apply missing_zero_closed. lia.
  - destruct (closedb es S) eqn:C.
    + apply closed_saturate. exact C.
    + rewrite saturate_step. apply IH. pose proof (missing_step_lt es S C). lia.
Qed.

Lemma filter_length_total {A} (p : A -> bool) l : (length (filter p l) <= length l)%nat.
Proof. induction l as [|a r IH]; cbn [filter length]; [lia|]. destruct (p a); cbn [length]; lia. Qed.

Theorem saturate_closed es S : closedb es (saturate (length es) es S) = true.
Proof. apply saturate_closed_gen. unfold missing. apply filter_length_total. Qed.

Corollary reach_always_closed ss ops : snd (reach ss ops) = true.
Proof. unfold reach. cbn [snd]. apply saturate_closed. Qed.

Corollary cyclicb_exact es n : cyclicb es n = true <-> clos_trans N (edge es) n n.
Proof.
  split.
  - apply cyclicb_sound. apply saturate_closed.
  - apply cyclicb_complete.
Qed.
