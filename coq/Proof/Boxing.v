From Coq Require Import Relations List Bool NArith Lia.
From OAS Require Import Model.Boxing.
Import ListNotations.

Lemma memN_In x l : memN x l = true <-> In x l.
Proof.
  unfold memN. rewrite existsb_exists. split.
  - intros [y [Hy He]]. apply N.eqb_eq in He. subst. exact Hy.
  - intros H. exists x. split; [exact H | apply N.eqb_refl].
Qed.

Lemma dedupN_In x l : In x (dedupN l) <-> In x l.
Proof.
  induction l as [|y r IH]; cbn [dedupN]; [tauto|].
  destruct (memN y r) eqn:E.
  - rewrite IH. split; [right; exact H|]. intros [->|H]; [apply memN_In; exact E | exact H].
  - cbn [In]. rewrite IH. tauto.
Qed.

Lemma saturate_extends fuel es S x : In x S -> In x (saturate fuel es S).
Proof.
  revert S. induction fuel as [|f IH]; intros S H; cbn [saturate]; [exact H|].
  apply IH. apply (proj2 (dedupN_In _ _)). apply in_or_app. left. exact H.
Qed.

Lemma closedb_spec es S : closedb es S = true -> forall a b, edge es a b -> In a S -> In b S.
Proof.
  unfold closedb, edge. rewrite forallb_forall. intros H a b Hab Ha.
  specialize (H (a, b) Hab). cbn [fst snd] in H.
  apply memN_In in Ha. rewrite Ha in H. cbn [implb] in H. apply memN_In. exact H.
Qed.

Lemma succs_In es S a b : edge es a b -> In a S -> In b (succs es S).
Proof.
  unfold succs, edge. intros Hab Ha. apply in_map_iff. exists (a, b). split; [reflexivity|].
  apply filter_In. split; [exact Hab|]. cbn [fst]. apply memN_In. exact Ha.
Qed.

(* completeness of the marking: every node on a cycle of the dependency edges is marked *)
Theorem cyclicb_complete es n : clos_trans N (edge es) n n -> cyclicb es n = true.
Proof.
  intros Hc. unfold cyclicb.
  destruct (closedb es (saturate (length es) es (succs es [n]))) eqn:Hcl; [|reflexivity].
  apply memN_In.
  set (S := saturate (length es) es (succs es [n])) in *.
  assert (Hgen : forall a b, clos_trans N (edge es) a b -> (a = n \/ In a S) -> In b S).
  { intros a b Hab. induction Hab as [a b Hab | a b c _ IH1 _ IH2]; intros Ha.
    - destruct Ha as [->|Ha].
      + apply saturate_extends. apply succs_In with n; [exact Hab | left; reflexivity].
      + eapply closedb_spec; eauto.
    - apply IH2. right. apply IH1. exact Ha. }
  apply (Hgen n n Hc). left. reflexivity.
Qed.

(* soundness of a mark when the saturation closed: a marked node really is reachable from itself *)
Lemma succs_sound es S b : In b (succs es S) -> exists a, In a S /\ edge es a b.
Proof.
  unfold succs. intros H. apply in_map_iff in H. destruct H as [[a b'] [E H]]. cbn [snd] in E. subst b'.
  apply filter_In in H. destruct H as [H1 H2]. cbn [fst] in H2. apply memN_In in H2. exists a. split; assumption.
Qed.

Lemma saturate_sound fuel es n : forall S, (forall x, In x S -> clos_trans N (edge es) n x) ->
  forall x, In x (saturate fuel es S) -> clos_trans N (edge es) n x.
Proof.
  induction fuel as [|f IH]; intros S HS x Hx; cbn [saturate] in Hx; [apply HS; exact Hx|].
  eapply IH; [|exact Hx]. intros y Hy. apply (proj1 (dedupN_In _ _)) in Hy. apply in_app_or in Hy. destruct Hy as [Hy|Hy].
  - apply HS. exact Hy.
  - apply succs_sound in Hy. destruct Hy as [a [Ha Hab]]. eapply t_trans; [apply HS; exact Ha | apply t_step; exact Hab].
Qed.

Theorem cyclicb_sound es n :
  closedb es (saturate (length es) es (succs es [n])) = true -> cyclicb es n = true -> clos_trans N (edge es) n n.
Proof.
  unfold cyclicb. intros -> H. apply memN_In in H. eapply saturate_sound; [|exact H].
  intros x Hx. apply succs_sound in Hx. destruct Hx as [a [[<-|[]] Hab]]. apply t_step. exact Hab.
Qed.

(* ---------- reachability ---------- *)
Lemma saturate_sound_multi fuel es (P : N -> Prop) : forall S,
  (forall x, In x S -> exists s, P s /\ clos_refl_trans N (edge es) s x) ->
  forall x, In x (saturate fuel es S) -> exists s, P s /\ clos_refl_trans N (edge es) s x.
Proof.
  induction fuel as [|f IH]; intros S HS x Hx; cbn [saturate] in Hx; [apply HS; exact Hx|].
  eapply IH; [|exact Hx]. intros y Hy. apply (proj1 (dedupN_In _ _)) in Hy. apply in_app_or in Hy. destruct Hy as [Hy|Hy].
  - apply HS. exact Hy.
  - apply succs_sound in Hy. destruct Hy as [a [Ha Hab]]. destruct (HS a Ha) as [s [Hs Hsa]].
    exists s. split; [exact Hs|]. eapply rt_trans; [exact Hsa | apply rt_step; exact Hab].
Qed.

Lemma closed_rt es S : closedb es S = true -> forall a b, clos_refl_trans N (edge es) a b -> In a S -> In b S.
Proof.
  intros Hc a b H. induction H as [a b Hab | a | a b c _ IH1 _ IH2]; intros Ha.
  - eapply closedb_spec; eauto.
  - exact Ha.
  - apply IH2. apply IH1. exact Ha.
Qed.

Theorem reach_seeds ss ops x : In x (seeds (build_fp ss) ops) -> In x (fst (reach ss ops)).
Proof. intros H. unfold reach. cbn [fst]. apply saturate_extends. apply (proj2 (dedupN_In _ _)). exact H. Qed.

Theorem reach_closed ss ops : snd (reach ss ops) = true ->
  forall a b, In a (fst (reach ss ops)) -> clos_refl_trans N (edge (deps ss)) a b -> In b (fst (reach ss ops)).
Proof. unfold reach. cbn [fst snd]. intros Hc a b Ha Hab. eapply closed_rt; eauto. Qed.

Theorem reach_minimal ss ops x : In x (fst (reach ss ops)) ->
  exists s, In s (seeds (build_fp ss) ops) /\ clos_refl_trans N (edge (deps ss)) s x.
Proof.
  unfold reach. cbn [fst]. intros H.
  eapply (saturate_sound_multi _ _ (fun s => In s (seeds (build_fp ss) ops))); [|exact H].
  intros y Hy. apply (proj1 (dedupN_In _ _)) in Hy. exists y. split; [exact Hy | apply rt_refl].
Qed.

Lemma seeds_incl t ops ops' : incl ops ops' -> incl (seeds t ops) (seeds t ops').
Proof.
  unfold seeds. intros H x Hx. apply in_flat_map in Hx. destruct Hx as [o [Ho Hx]].
  apply in_flat_map. exists o. split; [apply H; exact Ho | exact Hx].
Qed.

Theorem reach_monotone ss ops ops' : incl ops ops' -> snd (reach ss ops') = true ->
  incl (fst (reach ss ops)) (fst (reach ss ops')).
Proof.
  intros Hi Hc x Hx. apply reach_minimal in Hx. destruct Hx as [s [Hs Hsx]].
  eapply reach_closed; [exact Hc | | exact Hsx]. apply reach_seeds. eapply seeds_incl; eauto.
Qed.
