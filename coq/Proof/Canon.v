From Coq Require Import List Bool String ZArith Permutation.
From OAS Require Import Model.Sharing Proof.Sharing Model.Canon.
Import ListNotations.
Local Open Scope string_scope.
Local Open Scope list_scope.

(* what sharing by canonical form may identify: the same tree up to the order of object members and the order of
   all-string arrays directly under required / type / enum *)
Inductive equiv : jt -> jt -> Prop :=
| Erefl t : equiv t t
| Etrans a b c : equiv a b -> equiv b c -> equiv a c
| Earr l l' : Forall2 equiv l l' -> equiv (JA l) (JA l')
| Eobj l l' : Forall2 (fun a b => fst a = fst b /\
                                   (equiv (snd a) (snd b)
                                    \/ (set_key (fst a) = true /\ exists xs ys, snd a = JA (map JS xs) /\ snd b = JA (map JS ys) /\ Permutation xs ys))) l l' ->
              equiv (JO l) (JO l')
| Eperm l l' : Permutation l l' -> equiv (JO l) (JO l').

Lemma sinsert_perm x l : Permutation (x :: l) (sinsert x l).
Proof.
  induction l as [|y r IH]; cbn [sinsert]; [apply Permutation_refl|].
  destruct (String.leb x y); [apply Permutation_refl|].
  eapply perm_trans; [apply perm_swap | apply perm_skip; exact IH].
Qed.
Lemma ssort_perm l : Permutation l (ssort l).
Proof.
  induction l as [|x r IH]; cbn [ssort]; [constructor|].
  eapply perm_trans; [apply perm_skip; exact IH | apply sinsert_perm].
Qed.
Lemma kinsert_perm x l : Permutation (x :: l) (kinsert x l).
Proof.
  induction l as [|y r IH]; cbn [kinsert]; [apply Permutation_refl|].
  destruct (String.leb (fst x) (fst y)); [apply Permutation_refl|].
  eapply perm_trans; [apply perm_swap | apply perm_skip; exact IH].
Qed.
Lemma ksort_perm l : Permutation l (ksort l).
Proof.
  induction l as [|x r IH]; cbn [ksort]; [constructor|].
  eapply perm_trans; [apply perm_skip; exact IH | apply kinsert_perm].
Qed.

Lemma strings_of_spec l ss : strings_of l = Some ss -> l = map JS ss.
Proof.
  revert ss. induction l as [|x r IH]; intros ss H; cbn [strings_of] in H.
  - injection H as <-. reflexivity.
  - destruct x; try discriminate. destruct (strings_of r) as [t|]; [|discriminate]. injection H as <-.
    cbn [map]. f_equal. apply IH. reflexivity.
Qed.

(* induction principle that reaches inside arrays and objects *)
Section JtInd.
  Variable P : jt -> Prop.
  Hypothesis HS : forall s, P (JS s).
  Hypothesis HN : forall z, P (JN z).
  Hypothesis HB : forall b, P (JB b).
  Hypothesis H0 : P J0.
  Hypothesis HA : forall l, Forall P l -> P (JA l).
  Hypothesis HO : forall l, Forall (fun kv => P (snd kv)) l -> P (JO l).
  Fixpoint jt_rect' (t : jt) : P t :=
    match t with
    | JS s => HS s | JN z => HN z | JB b => HB b | J0 => H0
    | JA l => HA l ((fix go (l : list jt) : Forall P l :=
                       match l with [] => Forall_nil _ | x :: r => Forall_cons _ (jt_rect' x) (go r) end) l)
    | JO l => HO l ((fix go (l : list (string * jt)) : Forall (fun kv => P (snd kv)) l :=
                       match l with [] => Forall_nil _ | x :: r => Forall_cons _ (jt_rect' (snd x)) (go r) end) l)
    end.
End JtInd.

Lemma Forall_equiv_map l : Forall (fun x => equiv x (norm x)) l -> Forall2 equiv l (map norm l).
Proof. induction 1; cbn [map]; constructor; auto. Qed.

Theorem norm_equiv t : equiv t (norm t).
Proof.
  induction t as [s|z|b| |l IH|l IH] using jt_rect'; try apply Erefl.
  - cbn [norm]. apply Earr. apply Forall_equiv_map. exact IH.
  - cbn [norm]. eapply Etrans; [|apply Eperm; apply ksort_perm].
    apply Eobj. induction IH as [|[k v] r Hv Hr IH2]; cbn [map]; constructor; [|exact IH2].
    cbn [fst snd] in *. split; [reflexivity|].
    destruct v as [s|z|b| |items|o]; try (left; exact Hv).
    destruct (set_key k) eqn:K.
    + destruct (strings_of items) as [ss|] eqn:E.
      * right. split; [reflexivity|]. exists ss, (ssort ss). split; [f_equal; apply strings_of_spec; exact E|].
        split; [reflexivity | apply ssort_perm].
      * left. exact Hv.
    + left. exact Hv.
Qed.

(* two schemas with the same canonical form are both equivalent to that common form *)
Corollary canon_shared a b : norm a = norm b -> exists c, equiv a c /\ equiv b c.
Proof. intros H. exists (norm a). split; [apply norm_equiv | rewrite H; apply norm_equiv]. Qed.
