From Coq Require Import Permutation.
From OAS Require Import Lib.Str Model.Order.
Local Open Scope list_scope.

(* ---------------------------------------------------------------- byte-lexicographic order is a strict total order *)

Lemma ascii_compare_lt_trans a b c :
  Ascii.compare a b = Lt -> Ascii.compare b c = Lt -> Ascii.compare a c = Lt.
Proof. unfold Ascii.compare. rewrite !N.compare_lt_iff. lia. Qed.

Lemma ascii_compare_eq a b : Ascii.compare a b = Eq -> a = b.
Proof. apply Ascii.compare_eq_iff. Qed.

Lemma ascii_compare_refl a : Ascii.compare a a = Eq.
Proof. unfold Ascii.compare. apply N.compare_refl. Qed.

Lemma string_compare_lt_trans a : forall b c,
  String.compare a b = Lt -> String.compare b c = Lt -> String.compare a c = Lt.
Proof.
  induction a as [|x a IH]; intros [|y b] [|z c]; simpl; try discriminate; auto.
  destruct (Ascii.compare x y) eqn:E1; try discriminate.
  - apply ascii_compare_eq in E1. subst y. destruct (Ascii.compare x z) eqn:E2; try discriminate; auto.
    intros H1 H2. eapply IH; eauto.
  - intros _. destruct (Ascii.compare y z) eqn:E2; try discriminate.
    + apply ascii_compare_eq in E2. subst z. rewrite E1. reflexivity.
    + intros _. rewrite (ascii_compare_lt_trans _ _ _ E1 E2). reflexivity.
Qed.

Lemma ltb_trans a b c : String.ltb a b = true -> String.ltb b c = true -> String.ltb a c = true.
Proof.
  unfold String.ltb. destruct (String.compare a b) eqn:E1; try discriminate.
  destruct (String.compare b c) eqn:E2; try discriminate. intros _ _.
  rewrite (string_compare_lt_trans _ _ _ E1 E2). reflexivity.
Qed.

Lemma ltb_total a b : a <> b -> String.ltb a b = true \/ String.ltb b a = true.
Proof.
  intros Hne. unfold String.ltb. rewrite (String.compare_antisym b a).
  destruct (String.compare a b) eqn:E; simpl; auto.
  apply String.compare_eq_iff in E. contradiction.
Qed.

(* ---------------------------------------------------------------- insertion commutes on distinct keys *)

Section Proofs.
  Variable A : Type.
  Implicit Types m : list (string * A).

  Fixpoint sorted m : Prop :=
    match m with
    | [] => True
    | (k, _) :: r => (forall k' v', In (k', v') r -> String.ltb k k' = true) /\ sorted r
    end.

  Lemma ins_keys k v m k' v' : In (k', v') (ins k v m) -> k' = k \/ In (k', v') m.
  Proof.
    induction m as [|[k0 v0] r IH]; simpl.
    - intros [[= <- <-]|[]]. left. reflexivity.
    - destruct (String.eqb_spec k k0) as [->|Hne].
      + intros [[= <- <-]|H]; [left; reflexivity|right; right; exact H].
      + destruct (String.ltb k k0).
        * intros [[= <- <-]|H]; [left; reflexivity|right; exact H].
        * intros [[= <- <-]|H]; [right; left; reflexivity|]. destruct (IH H) as [->|H']; [left; reflexivity|right; right; exact H'].
  Qed.

  Lemma ins_sorted k v m : sorted m -> sorted (ins k v m).
  Proof.
    induction m as [|[k0 v0] r IH]; simpl; intros Hs; [split; [intros ? ? []|exact I]|].
    destruct Hs as [Hlt Hr].
    destruct (String.eqb_spec k k0) as [->|Hne]; [simpl; split; assumption|].
    destruct (String.ltb k k0) eqn:E.
    - simpl. split; [|split; assumption]. intros k' v' [[= <- <-]|Hin]; [exact E|].
      eapply ltb_trans; [exact E|]. eapply Hlt. exact Hin.
    - simpl. split; [|apply IH; exact Hr]. intros k' v' Hin. apply ins_keys in Hin. destruct Hin as [->|Hin].
      + destruct (ltb_total k k0 Hne) as [H|H]; [congruence|exact H].
      + eapply Hlt. exact Hin.
  Qed.

  Lemma ins_lt_head k v k0 v0 r : sorted ((k0, v0) :: r) -> String.ltb k k0 = true -> ins k v ((k0, v0) :: r) = (k, v) :: (k0, v0) :: r.
  Proof.
    intros _ H. simpl. destruct (String.eqb_spec k k0) as [->|_]; [rewrite ltb_irrefl in H; discriminate|]. rewrite H. reflexivity.
  Qed.

  Lemma ins_comm k1 v1 k2 v2 m :
    k1 <> k2 -> sorted m -> ins k1 v1 (ins k2 v2 m) = ins k2 v2 (ins k1 v1 m).
  Proof.
    intros Hne. induction m as [|[k0 v0] r IH]; intros Hs.
    - simpl. destruct (String.eqb_spec k1 k2) as [E|_]; [contradiction|].
      destruct (String.eqb_spec k2 k1) as [E|_]; [symmetry in E; contradiction|].
      destruct (ltb_total k1 k2 Hne) as [H|H]; rewrite H; rewrite (ltb_asym _ _ H); reflexivity.
    - destruct Hs as [Hlt Hr]. simpl.
      destruct (String.eqb_spec k2 k0) as [->|N2]; destruct (String.eqb_spec k1 k0) as [->|N1]; try contradiction.
      + (* k2 = k0, k1 <> k0 *)
        simpl. destruct (String.eqb_spec k1 k0) as [E|_]; [contradiction|].
        destruct (String.ltb k1 k0) eqn:E1; simpl.
        * destruct (String.eqb_spec k0 k1) as [E|_]; [symmetry in E; contradiction|].
          rewrite (ltb_asym _ _ E1). rewrite String.eqb_refl. reflexivity.
        * rewrite String.eqb_refl. reflexivity.
      + (* k1 = k0, k2 <> k0 *)
        simpl. destruct (String.eqb_spec k2 k0) as [E|_]; [contradiction|].
        destruct (String.ltb k2 k0) eqn:E2; simpl.
        * destruct (String.eqb_spec k0 k2) as [E|_]; [symmetry in E; contradiction|].
          rewrite (ltb_asym _ _ E2). rewrite String.eqb_refl. reflexivity.
        * rewrite String.eqb_refl. reflexivity.
      + (* both differ from k0 *)
        destruct (String.ltb k2 k0) eqn:E2; destruct (String.ltb k1 k0) eqn:E1; simpl.
        * (* both before k0 *)
          destruct (String.eqb_spec k1 k2) as [E|_]; [contradiction|].
          destruct (String.eqb_spec k2 k1) as [E|_]; [symmetry in E; contradiction|].
          destruct (ltb_total k1 k2 Hne) as [H|H]; rewrite H, (ltb_asym _ _ H).
          -- destruct (String.eqb_spec k2 k0) as [E|_]; [contradiction|]. rewrite E2. reflexivity.
          -- destruct (String.eqb_spec k1 k0) as [E|_]; [contradiction|]. rewrite E1. reflexivity.
        * (* k2 before k0, k1 after *)
          destruct (String.eqb_spec k1 k2) as [E|_]; [contradiction|].
          assert (H21 : String.ltb k2 k1 = true).
          { destruct (ltb_total k1 k0 N1) as [H|H]; [congruence|]. eapply ltb_trans; eauto. }
          rewrite (ltb_asym _ _ H21).
          destruct (String.eqb_spec k1 k0) as [E|_]; [contradiction|]. rewrite E1.
          destruct (String.eqb_spec k2 k0) as [E|_]; [contradiction|]. rewrite E2. reflexivity.
        * (* k1 before k0, k2 after *)
          destruct (String.eqb_spec k2 k1) as [E|_]; [symmetry in E; contradiction|].
          assert (H12 : String.ltb k1 k2 = true).
          { destruct (ltb_total k2 k0 N2) as [H|H]; [congruence|]. eapply ltb_trans; eauto. }
          rewrite (ltb_asym _ _ H12).
          destruct (String.eqb_spec k2 k0) as [E|_]; [contradiction|]. rewrite E2.
          destruct (String.eqb_spec k1 k0) as [E|_]; [contradiction|]. rewrite E1. reflexivity.
        * (* both after k0 *)
          destruct (String.eqb_spec k1 k0) as [E|_]; [contradiction|]. rewrite E1.
          destruct (String.eqb_spec k2 k0) as [E|_]; [contradiction|]. rewrite E2.
          f_equal. apply IH. exact Hr.
  Qed.

  Lemma fold_ins_sorted l m : sorted m -> sorted (fold_left (fun m kv => ins (fst kv) (snd kv) m) l m).
  Proof. revert m. induction l as [|[k v] l IH]; intros m H; simpl; [exact H|]. apply IH. apply ins_sorted. exact H. Qed.

  (* any permutation of entries with pairwise distinct keys builds the same map *)
  Theorem build_perm_from m l1 l2 :
    Permutation l1 l2 -> NoDup (map fst l1) -> sorted m ->
    fold_left (fun m kv => ins (fst kv) (snd kv) m) l1 m = fold_left (fun m kv => ins (fst kv) (snd kv) m) l2 m.
  Proof.
    intros P. revert m. induction P as [|x l l' P IH|x y l|l l' l'' P1 IH1 P2 IH2]; intros m Hnd Hs.
    - reflexivity.
    - simpl. apply IH; [inversion Hnd; assumption|apply ins_sorted; exact Hs].
    - simpl. f_equal. apply ins_comm; [|exact Hs].
      simpl in Hnd. inversion Hnd as [|? ? Hnotin _]; subst. intros E. apply Hnotin. left. exact E.
    - rewrite IH1 by assumption. apply IH2; [|exact Hs].
      eapply Permutation_NoDup; [apply Permutation_map; exact P1|exact Hnd].
  Qed.

  Theorem build_perm (l1 l2 : list (string * A)) : Permutation l1 l2 -> NoDup (map fst l1) -> build l1 = build l2.
  Proof. intros P H. unfold build. apply build_perm_from; [exact P|exact H|exact I]. Qed.

  Theorem build_sorted (l : list (string * A)) : sorted (build l).
  Proof. unfold build. apply fold_ins_sorted. exact I. Qed.
End Proofs.

(* ---------------------------------------------------------------- order-irrelevant consumers of hash containers *)

(* extract_all_response_types hands a HashSet's elements (arbitrary enumeration order) to a marking loop that
   sets flags per name: the resulting flag map does not depend on the enumeration *)
Definition mark (names : list string) (m : string -> bool) : string -> bool :=
  fun x => m x || Str.mem x names.

Theorem marking_order_irrelevant names1 names2 m :
  Permutation names1 names2 -> forall x, mark names1 m x = mark names2 m x.
Proof.
  intros P x. unfold mark. f_equal.
  assert (H : forall l1 l2, Permutation l1 l2 -> Str.mem x l1 = Str.mem x l2).
  { intros l1 l2 Q. induction Q as [|y l l' Q IH|y z l|l l' l'' Q1 IH1 Q2 IH2]; simpl; auto.
    - rewrite IH. reflexivity.
    - destruct (String.eqb x y), (String.eqb x z); reflexivity.
    - congruence. }
  apply H. exact P.
Qed.
