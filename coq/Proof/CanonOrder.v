(* C11 / C13 — the canonical form does not depend on the order in which the members of an object are written. *)
From Coq Require Import List Bool String ZArith Permutation Sorted.
From OAS Require Import Lib.Str Model.Sharing Model.Canon Proof.Order.
Import ListNotations.
Local Open Scope string_scope.
Local Open Scope list_scope.

Lemma leb_ne_ltb a b : String.leb a b = true -> a <> b -> String.ltb a b = true.
Proof.
  unfold String.leb, String.ltb. destruct (String.compare a b) eqn:E; try discriminate; [|reflexivity].
  intros _ H. apply String.compare_eq_iff in E. contradiction.
Qed.
Lemma leb_false_ltb a b : String.leb a b = false -> String.ltb b a = true.
Proof.
  unfold String.leb, String.ltb. rewrite (String.compare_antisym a b).
  destruct (String.compare b a); cbn [CompOpp]; try discriminate. reflexivity.
Qed.

Definition klt (a b : string * jt) : Prop := String.ltb (fst a) (fst b) = true.

Lemma kinsert_In kv l x : In x (kinsert kv l) <-> x = kv \/ In x l.
Proof.
  induction l as [|y r IH]; cbn [kinsert In]; [intuition|].
  destruct (String.leb (fst kv) (fst y)); cbn [In]; [intuition|]. rewrite IH. intuition.
Qed.

Lemma kinsert_sorted kv l : ~ In (fst kv) (map fst l) -> StronglySorted klt l -> StronglySorted klt (kinsert kv l).
Proof.
  induction l as [|y r IH]; intros Hn Hs; cbn [kinsert].
  - constructor; constructor.
  - cbn [map In] in Hn. apply StronglySorted_inv in Hs. destruct Hs as [Hr Hy].
    destruct (String.leb (fst kv) (fst y)) eqn:E.
    + assert (L : klt kv y) by (apply leb_ne_ltb; [exact E | intros C; apply Hn; left; symmetry; exact C]).
      constructor; [constructor; assumption|]. constructor; [exact L|].
      rewrite Forall_forall in *. intros z Hz. unfold klt in *. eapply ltb_trans; [exact L | apply Hy; exact Hz].
    + constructor; [apply IH; [tauto | exact Hr]|].
      rewrite Forall_forall in *. intros z Hz. apply kinsert_In in Hz. destruct Hz as [->|Hz]; [|apply Hy; exact Hz].
      unfold klt. apply leb_false_ltb. exact E.
Qed.

Lemma ksort_keys l x : In x (map fst (ksort l)) <-> In x (map fst l).
Proof.
  induction l as [|kv r IH]; cbn [ksort map In]; [tauto|].
  rewrite <- IH. rewrite !in_map_iff. split.
  - intros [y [Hy Hin]]. apply kinsert_In in Hin. destruct Hin as [->|Hin]; [left; exact Hy | right; exists y; auto].
  - intros [H|[y [Hy Hin]]]; [exists kv; split; [exact H | apply kinsert_In; left; reflexivity]
                              | exists y; split; [exact Hy | apply kinsert_In; right; exact Hin]].
Qed.

Lemma ksort_sorted l : NoDup (map fst l) -> StronglySorted klt (ksort l).
Proof.
  induction l as [|kv r IH]; cbn [ksort map]; intros Hn; [constructor|].
  apply NoDup_cons_iff in Hn. destruct Hn as [Hnot Hn].
  apply kinsert_sorted; [rewrite ksort_keys; exact Hnot | apply IH; exact Hn].
Qed.

(* a strictly key-sorted list is determined by its elements *)
Lemma sorted_perm_eq l1 : forall l2, StronglySorted klt l1 -> StronglySorted klt l2 -> Permutation l1 l2 -> l1 = l2.
Proof.
  induction l1 as [|a r IH]; intros l2 H1 H2 P.
  - apply Permutation_nil in P. symmetry; exact P.
  - destruct l2 as [|b r2]; [apply Permutation_sym, Permutation_nil in P; discriminate|].
    apply StronglySorted_inv in H1, H2. destruct H1 as [Hr Ha], H2 as [Hr2 Hb].
    rewrite Forall_forall in Ha, Hb.
    assert (E : a = b).
    { assert (Ia : In a (b :: r2)) by (eapply Permutation_in; [exact P | left; reflexivity]).
      assert (Ib : In b (a :: r)) by (eapply Permutation_in; [apply Permutation_sym; exact P | left; reflexivity]).
      destruct Ia as [Ia|Ia]; [symmetry; exact Ia|]. destruct Ib as [Ib|Ib]; [exact Ib|].
      exfalso. pose proof (Hb a Ia) as L1. pose proof (Ha b Ib) as L2. unfold klt in *.
      rewrite (ltb_asym _ _ L1) in L2. discriminate. }
    subst b. f_equal. apply IH; [exact Hr | exact Hr2 | eapply Permutation_cons_inv; exact P].
Qed.

Lemma ksort_perm' l : Permutation l (ksort l).
Proof.
  induction l as [|kv r IH]; cbn [ksort]; [constructor|].
  eapply Permutation_trans; [apply perm_skip; exact IH|].
  generalize (ksort r). intros m. induction m as [|y m IHm]; cbn [kinsert]; [apply Permutation_refl|].
  destruct (String.leb (fst kv) (fst y)); [apply Permutation_refl|].
  eapply Permutation_trans; [apply perm_swap | apply perm_skip; exact IHm].
Qed.

Theorem ksort_perm_invariant l l' : Permutation l l' -> NoDup (map fst l) -> ksort l = ksort l'.
Proof.
  intros P N. apply sorted_perm_eq.
  - apply ksort_sorted; exact N.
  - apply ksort_sorted. eapply Permutation_NoDup; [apply Permutation_map; exact P | exact N].
  - eapply Permutation_trans; [apply Permutation_sym, ksort_perm'|]. eapply Permutation_trans; [exact P | apply ksort_perm'].
Qed.

(* the canonical form of an object is the same for every order of its (distinctly named) members *)
Theorem norm_member_order l l' : Permutation l l' -> NoDup (map fst l) -> norm (JO l) = norm (JO l').
Proof.
  intros P N. cbn [norm]. f_equal. apply ksort_perm_invariant.
  - apply Permutation_map. exact P.
  - rewrite map_map. erewrite map_ext; [exact N|]. intros [k v]. reflexivity.
Qed.
