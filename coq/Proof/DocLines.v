From OAS Require Import Lib.Str Model.DocLines.
Local Open Scope list_scope.

Definition nb (c : ascii) : bool := negb (is_break c).

Lemma replace_cr_no_cr s : sall (fun c => negb (Ascii.eqb c CR)) (replace_cr s) = true.
Proof.
  unfold replace_cr. induction s as [|c r IH]; cbn [smap sall]; [reflexivity|].
  destruct (Ascii.eqb c CR) eqn:E; [|rewrite E]; cbn; exact IH.
Qed.

Lemma replace_cr_filter s : sfilter nb (replace_cr s) = sfilter nb s.
Proof.
  unfold replace_cr. induction s as [|c r IH]; cbn [smap sfilter]; [reflexivity|].
  destruct (Ascii.eqb c CR) eqn:E.
  - apply Ascii.eqb_eq in E. subst c. cbn. exact IH.
  - rewrite IH. reflexivity.
Qed.

Lemma replace_crlf_filter_len n : forall s, (String.length s <= n)%nat -> sfilter nb (replace_crlf s) = sfilter nb s.
Proof.
  induction n as [|n IH]; intros s Hl.
  - destruct s; [reflexivity|cbn in Hl; lia].
  - destruct s as [|c r]; [reflexivity|]. destruct r as [|d r']; [reflexivity|].
    cbn [replace_crlf]. destruct (Ascii.eqb c CR && Ascii.eqb d LF) eqn:E.
    + apply andb_true_iff in E. destruct E as [E1 E2]. apply Ascii.eqb_eq in E1, E2. subst c d.
      cbn [sfilter]. change (nb LF) with false. change (nb CR) with false. cbv iota.
      apply IH. cbn in Hl. lia.
    + change (sfilter nb (String c (replace_crlf (String d r'))) = sfilter nb (String c (String d r'))).
      cbn [sfilter]. rewrite (IH (String d r')); [reflexivity|cbn in *; lia].
Qed.

Lemma normalize_filter s : sfilter nb (normalize_line_breaks s) = sfilter nb s.
Proof. unfold normalize_line_breaks. rewrite replace_cr_filter. apply (replace_crlf_filter_len (String.length s)). lia. Qed.

Definition nlf (c : ascii) : bool := negb (Ascii.eqb c LF).
Definition ncr (c : ascii) : bool := negb (Ascii.eqb c CR).

Lemma split_lf_no_lf s : Forall (fun p => sall nlf (fst p) = true) (split_lf s).
Proof.
  induction s as [|c r IH]; cbn [split_lf]; [constructor|].
  destruct (Ascii.eqb c LF) eqn:E.
  - constructor; [reflexivity|exact IH].
  - destruct (split_lf r) as [|[l t] ls].
    + constructor; [|constructor]. cbn. unfold nlf. rewrite E. reflexivity.
    + inversion IH as [|? ? H1 H2]; subst. constructor; [|exact H2]. cbn [fst sall] in *. unfold nlf at 1. rewrite E. exact H1.
Qed.

Lemma split_lf_no_cr s : sall ncr s = true -> Forall (fun p => sall ncr (fst p) = true) (split_lf s).
Proof.
  induction s as [|c r IH]; cbn [split_lf sall]; intros H; [constructor|].
  apply andb_true_iff in H. destruct H as [Hc Hr]. specialize (IH Hr).
  destruct (Ascii.eqb c LF) eqn:E.
  - constructor; [reflexivity|exact IH].
  - destruct (split_lf r) as [|[l t] ls].
    + constructor; [|constructor]. cbn. rewrite Hc. reflexivity.
    + inversion IH as [|? ? H1 H2]; subst. constructor; [|exact H2]. cbn [fst sall] in *. rewrite Hc. exact H1.
Qed.

Lemma split_lf_concat s : sconcat (map fst (split_lf s)) = sfilter nlf s.
Proof.
  induction s as [|c r IH]; cbn [split_lf sfilter]; [reflexivity|].
  unfold nlf at 1. destruct (Ascii.eqb c LF) eqn:E; cbn [negb].
  - cbn. exact IH.
  - destruct (split_lf r) as [|[l t] ls]; cbn in *; rewrite <- IH; reflexivity.
Qed.

Lemma strip_no_cr l : sall ncr l = true -> strip_cr_suffix l = l.
Proof.
  induction l as [|c r IH]; cbn [strip_cr_suffix sall]; intros H; [reflexivity|].
  apply andb_true_iff in H. destruct H as [Hc Hr]. destruct r as [|d r'].
  - unfold ncr in Hc. destruct (Ascii.eqb c CR); [discriminate|reflexivity].
  - rewrite (IH Hr). reflexivity.
Qed.

Lemma rust_lines_no_cr_fst s : sall ncr s = true -> rust_lines s = map fst (split_lf s).
Proof.
  intros H. unfold rust_lines. pose proof (split_lf_no_cr s H) as F. induction F as [|p ps Hp _ IH]; [reflexivity|].
  cbn [map]. rewrite IH. destruct (snd p); [rewrite (strip_no_cr _ Hp)|]; reflexivity.
Qed.

Lemma sall_and p q s : sall p s = true -> sall q s = true -> sall (fun c => p c && q c) s = true.
Proof. induction s as [|c r IH]; cbn [sall]; intros H1 H2; [reflexivity|]. apply andb_true_iff in H1, H2. destruct H1 as [-> ?], H2 as [-> ?]. cbn. auto. Qed.

Lemma sall_ext p q s : (forall c, p c = q c) -> sall p s = sall q s.
Proof. intros E. induction s as [|c r IH]; cbn [sall]; [reflexivity|]. rewrite E, IH. reflexivity. Qed.

Lemma nb_split c : nb c = ncr c && nlf c.
Proof. unfold nb, is_break, ncr, nlf. destruct (Ascii.eqb c CR), (Ascii.eqb c LF); reflexivity. Qed.

Lemma normalize_no_cr s : sall ncr (normalize_line_breaks s) = true.
Proof. unfold normalize_line_breaks. apply replace_cr_no_cr. Qed.

(* every line of normalised text is free of CR and LF *)
Lemma rust_lines_normalized_no_break s : Forall (fun l => no_break l = true) (rust_lines (normalize_line_breaks s)).
Proof.
  rewrite (rust_lines_no_cr_fst _ (normalize_no_cr s)).
  pose proof (split_lf_no_cr _ (normalize_no_cr s)) as F1. pose proof (split_lf_no_lf (normalize_line_breaks s)) as F2.
  induction F1 as [|p ps H1 _ IH]; [constructor|]. inversion F2 as [|? ? H2 F2']; subst. cbn [map]. constructor; [|apply IH; exact F2'].
  unfold no_break. rewrite (sall_ext _ (fun c => ncr c && nlf c)); [|intro c; apply (nb_split c)]. apply sall_and; assumption.
Qed.

Lemma sfilter_all p s : sall p s = true -> sfilter p s = s.
Proof. induction s as [|c r IH]; cbn [sall sfilter]; intros H; [reflexivity|]. apply andb_true_iff in H. destruct H as [-> H]. rewrite (IH H). reflexivity. Qed.

Lemma sfilter_nlf_no_cr s : sall ncr s = true -> sfilter nlf s = sfilter nb s.
Proof.
  induction s as [|c r IH]; cbn [sall sfilter]; intros H; [reflexivity|]. apply andb_true_iff in H. destruct H as [Hc H].
  rewrite (nb_split c), Hc, (IH H). reflexivity.
Qed.

Theorem phys_lines_no_break line : Forall (fun l => no_break l = true) (phys_lines line).
Proof.
  unfold phys_lines. destruct (sall (fun c => negb (is_break c)) line) eqn:E; cbn [negb].
  - constructor; [exact E|constructor].
  - apply rust_lines_normalized_no_break.
Qed.

Lemma append_nil_r s : String.append s EmptyString = s.
Proof. induction s as [|c r IH]; cbn; [reflexivity|rewrite IH; reflexivity]. Qed.

(* nothing but line breaks is dropped, nothing is added, order is kept *)
Theorem phys_lines_content line : sconcat (phys_lines line) = sfilter nb line.
Proof.
  unfold phys_lines. destruct (sall (fun c => negb (is_break c)) line) eqn:E; cbn [negb].
  - transitivity line; [|symmetry; exact (sfilter_all nb line E)].
    unfold sconcat. cbn [fold_right]. apply append_nil_r.
  - rewrite (rust_lines_no_cr_fst _ (normalize_no_cr line)), split_lf_concat, (sfilter_nlf_no_cr _ (normalize_no_cr line)).
    apply normalize_filter.
Qed.
