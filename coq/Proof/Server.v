From Coq Require Import Permutation.
From OAS Require Import Lib.Str Gen.StatusTable Gen.Content Gen.Methods Model.HttpConsts Model.Media Model.Responses Model.Path Model.Server
  Proof.ResponsesSweeps Proof.Responses.
Local Open Scope list_scope.

(* ---------------------------------------------------------------- status table *)

(* every unit token: the status sent by the server satisfies the client's condition for that token *)
Lemma status_roundtrip_units : forallb status_roundtrip tok_units = true.
Proof. vm_cast_no_check (eq_refl true). Qed.

Lemma status_roundtrip_unknown n : (100 <= n <= 999)%N -> status_roundtrip (Unknown n) = true.
Proof.
  intros [H1 H2]. unfold status_roundtrip, server_status. cbn [tok_http_status tok_condition http_value cond_holds].
  unfold from_u16_ok. apply N.leb_le in H1. apply N.leb_le in H2. rewrite H1, H2. cbn [andb]. apply N.eqb_refl.
Qed.

(* for universe keys: the status sent is covered by the key itself *)
Definition key_sent_cell (k : string) : bool :=
  match server_status (tok_of_key k) with Some c => key_covers k c && (100 <=? c)%N && (c <=? 599)%N | None => false end.
Lemma keys_sent_covered : forallb key_sent_cell key_universe = true.
Proof. vm_cast_no_check (eq_refl true). Qed.

(* ---------------------------------------------------------------- route table *)

Lemma bt_insert_perm k v m :
  Permutation (flat_routes (bt_insert k v m)) (flat_routes m ++ [(k, fst v, snd v)]).
Proof.
  induction m as [|[k' vs] r IH]; simpl; [reflexivity|].
  destruct (String.eqb_spec k k') as [->|Hne].
  - simpl. rewrite map_app. simpl. rewrite <- !app_assoc.
    apply Permutation_app_head. apply Permutation_app_comm.
  - destruct (String.ltb k k').
    + simpl. change ((k, fst v, snd v) :: ?x) with ([(k, fst v, snd v)] ++ x). apply Permutation_app_comm.
    + simpl. rewrite <- app_assoc. apply Permutation_app_head. exact IH.
Qed.

Lemma fold_insert_perm ops m :
  Permutation (flat_routes (fold_left (fun m o => bt_insert (so_path o) (route_fn (so_method o), so_handler o) m) ops m))
              (flat_routes m ++ map (fun o => (so_path o, route_fn (so_method o), so_handler o)) ops).
Proof.
  revert m. induction ops as [|o ops IH]; intros m; simpl; [rewrite app_nil_r; reflexivity|].
  rewrite IH. rewrite bt_insert_perm. simpl. rewrite <- app_assoc. reflexivity.
Qed.

(* the router registers exactly one (pattern, routing fn, handler) entry per operation, nothing else *)
Theorem route_table_exact ops :
  Permutation (flat_routes (route_table ops))
              (map (fun o => (so_path o, route_fn (so_method o), so_handler o)) ops).
Proof. unfold route_table. rewrite fold_insert_perm. reflexivity. Qed.

(* routing function names are the lower-cased method for the seven routable methods and pairwise distinct *)
Lemma route_fn_faithful :
  forallb (fun m => String.eqb (route_fn m) (lower m)) ["GET"; "PUT"; "POST"; "DELETE"; "OPTIONS"; "HEAD"; "PATCH"; "TRACE"] = true.
Proof. vm_compute. reflexivity. Qed.

(* ---------------------------------------------------------------- path templates *)

Lemma sall_srev_acc p s acc : sall p s = true -> sall p acc = true -> sall p (srev_acc s acc) = true.
Proof.
  revert acc. induction s as [|c r IH]; simpl; intros acc Hs Ha; [exact Ha|].
  apply andb_true_iff in Hs. destruct Hs as [Hc Hr]. apply IH; [exact Hr|]. simpl. rewrite Hc. exact Ha.
Qed.

Lemma no_brace_srev s : no_brace s = true -> no_brace (srev s) = true.
Proof. intros H. unfold no_brace, srev. apply sall_srev_acc; [exact H|reflexivity]. Qed.

Lemma flush_ok acc l : no_brace acc = true -> parts_ok l = true -> parts_ok (flush acc l) = true.
Proof.
  intros Ha Hl. unfold flush. destruct acc; [exact Hl|]. simpl. rewrite no_brace_srev by exact Ha. exact Hl.
Qed.

(* literal parts and parameter names produced by the tokenizer never contain a brace, for every segment *)
Lemma tokenize_go_ok s inpar acc l :
  tokenize_go s inpar acc = Some l -> no_brace acc = true -> parts_ok l = true.
Proof.
  revert inpar acc l. induction s as [|c r IH]; intros inpar acc l; simpl.
  - destruct inpar; [discriminate|]. intros [= <-] Ha. apply flush_ok; [exact Ha|reflexivity].
  - destruct inpar.
    + destruct (Ascii.eqb c RB) eqn:Er.
      * destruct acc as [|a acc']; [discriminate|].
        destruct (tokenize_go r false "") as [l'|] eqn:E; [|discriminate].
        intros [= <-] Ha. simpl. rewrite no_brace_srev by exact Ha. apply (IH _ _ _ E). reflexivity.
      * destruct (Ascii.eqb c LB) eqn:El; [discriminate|].
        intros H Ha. apply (IH _ _ _ H). unfold no_brace. simpl. rewrite El, Er. exact Ha.
    + destruct (Ascii.eqb c LB) eqn:El.
      * destruct (tokenize_go r true "") as [l'|] eqn:E; [|discriminate].
        intros [= <-] Ha. apply flush_ok; [exact Ha|]. apply (IH _ _ _ E). reflexivity.
      * destruct (Ascii.eqb c RB) eqn:Er; [discriminate|].
        intros H Ha. apply (IH _ _ _ H). unfold no_brace. simpl. rewrite El, Er. exact Ha.
Qed.

Theorem tokenize_brace_free seg l : tokenize seg = Some l -> parts_ok l = true.
Proof. intros H. apply (tokenize_go_ok _ _ _ _ H). reflexivity. Qed.

(* ---------------------------------------------------------------- C06: response leg composition *)

Lemma key_sent k : In k key_universe ->
  exists c, server_status (tok_of_key k) = Some c /\ key_covers k c = true /\ In c codes.
Proof.
  intros Hk. pose proof (forallb_In key_sent_cell key_universe k keys_sent_covered Hk) as H. unfold key_sent_cell in H.
  destruct (server_status (tok_of_key k)) as [c|]; [|discriminate]. exists c. split; [reflexivity|].
  apply andb_true_iff in H. destruct H as [H H3]. apply andb_true_iff in H. destruct H as [H1 H2].
  split; [exact H1|]. apply in_codes. apply N.leb_le in H2. apply N.leb_le in H3. lia.
Qed.

Lemma single_dispatch_key k r ct :
  single_category k r = true -> exists o, run_dispatch (dispatch_of_entry (k, r)) ct = Some o /\ o_key o = k.
Proof.
  unfold single_category, dispatch_of_entry, from_variants. intros Hs.
  destruct (variants_of_entry (k, r)) as [|v [|v' vs]] eqn:Ev; try discriminate. rewrite Hs. simpl.
  eexists. split; [reflexivity|]. simpl.
  destruct (variants_of_entry_tok (k, r) v) as [_ Hk]; [rewrite Ev; left; reflexivity|]. exact Hk.
Qed.

(* What the generated server sends for the variant of key k is parsed by the generated client as the
   variant of the same key — provided the status the server picks for a range is not declared exactly. *)
Theorem response_roundtrip rs k r ct code :
  valid_rs rs = true -> assoc k rs = Some r -> k <> "default" ->
  server_status (tok_of_key k) = Some code ->
  single_category k r = true ->
  (k = exact_key code \/ assoc (exact_key code) rs = None) ->
  o_key (parse (gen rs) code ct) = k.
Proof.
  intros Hv Ha Hnd Hst Hs Hex.
  destruct (valid_rs_facts rs Hv) as [_ [_ Hu]].
  assert (Hk : In k key_universe) by (apply assoc_in in Ha; apply (Hu (k, r)); exact Ha).
  destruct (key_sent k Hk) as [c [E1 [E2 E3]]]. rewrite Hst in E1. inversion E1; subst c.
  rewrite precedence by assumption. unfold spec_parse, try_key.
  unfold key_covers in E2. apply orb_true_iff in E2. destruct E2 as [E2|E2]; [|apply String.eqb_eq in E2; contradiction].
  apply orb_true_iff in E2. destruct E2 as [E2|E2]; apply String.eqb_eq in E2.
  - rewrite <- E2, Ha. destruct (single_dispatch_key k r ct Hs) as [o [-> Ho]]. exact Ho.
  - destruct Hex as [Hex|Hex].
    + rewrite <- Hex, Ha. destruct (single_dispatch_key k r ct Hs) as [o [-> Ho]]. exact Ho.
    + rewrite Hex. rewrite <- E2, Ha. destruct (single_dispatch_key k r ct Hs) as [o [-> Ho]]. exact Ho.
Qed.
