(* C20 lemmas, poll level: a not-ready poll changes nothing. *)
From Coq Require Import Ascii List NArith Bool Lia.
From OAS Require Import Model.Sse.
Import ListNotations.

Definition quiescent (s : st) : Prop :=
  fst (fst (parse_event (S (length (s_buf s))) (s_buf s) (s_data s))) = None
  /\ s_state s <> Terminated /\ s_uterm s = false.

(* when no complete event is buffered, a Pending from the transport is passed through and leaves every
   layer's state untouched *)
Lemma es_poll_pending f s rest :
  quiescent s -> es_poll (S f) s (Pending :: rest) = (PPending, s, rest).
Proof.
  intros [Hp [Hs Hu]]. cbn [es_poll].
  destruct (parse_event (S (length (s_buf s))) (s_buf s) (s_data s)) as [[o b] d] eqn:E.
  simpl in Hp. subst o.
  destruct (s_state s); try congruence; rewrite Hu; reflexivity.
Qed.

Lemma run_fuel_pending f s rest :
  quiescent s -> run_fuel (S f) s (Pending :: rest) = run_fuel f s rest.
Proof.
  intros H. cbn [run_fuel]. rewrite es_poll_pending by exact H. reflexivity.
Qed.
