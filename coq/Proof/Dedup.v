From Coq Require Import List Bool String Ascii Arith NArith Lia Permutation Sorted.
From OAS Require Import Lib.Str Model.Dedup.
Import ListNotations.
Local Open Scope nat_scope.

(* ---------------------------------------------------------------- sorting is a permutation *)
Lemma insert_perm {A} (leb : A -> A -> bool) x l : Permutation (x :: l) (insert leb x l).
Proof.
  induction l as [|y r IH]; cbn [insert]; [apply Permutation_refl|].
  destruct (leb x y); [apply Permutation_refl|].
  eapply Permutation_trans; [apply perm_swap|]. apply perm_skip. exact IH.
Qed.
Lemma isort_perm {A} (leb : A -> A -> bool) l : Permutation l (isort leb l).
Proof.
  induction l as [|x r IH]; cbn [isort]; [apply Permutation_refl|].
  eapply Permutation_trans; [apply perm_skip; exact IH | apply insert_perm].
Qed.

Theorem signature_sound a b : signature a = signature b -> Permutation (map vsig_of a) (map vsig_of b).
Proof.
  unfold signature. intros H.
  eapply Permutation_trans; [apply (isort_perm vsig_leb)|]. rewrite H. apply Permutation_sym, isort_perm.
Qed.

(* the media types of a variant, as a multiset, are determined by its part of the signature *)
Lemma vsig_medias v w : vsig_of v = vsig_of w -> status v = status w /\ vname v = vname w /\ Permutation (medias v) (medias w).
Proof.
  unfold vsig_of. intros H. injection H as Hs Hn Hm. repeat split; [exact Hs | exact Hn |].
  eapply Permutation_trans; [apply (isort_perm media_leb)|]. rewrite Hm. apply Permutation_sym, isort_perm.
Qed.

(* ---------------------------------------------------------------- canonical member *)
Lemma canonical_in g c : canonical g = Some c -> In c g.
Proof.
  revert c. induction g as [|x r IH]; cbn [canonical]; intros c H; [discriminate|].
  destruct (canonical r) as [c'|] eqn:E.
  - destruct (better x c'); injection H as <-; [left; reflexivity | right; apply IH; reflexivity].
  - injection H as <-. left; reflexivity.
Qed.
Lemma canonical_some g : g <> [] -> exists c, canonical g = Some c.
Proof.
  destruct g as [|x r]; [congruence|]. intros _. cbn [canonical].
  destruct (canonical r) as [c'|]; [destruct (better x c')|]; eauto.
Qed.

Theorem doomed_spec g c : canonical g = Some c ->
  In c g /\ ~ In c (doomed g) /\ (forall x, In x (doomed g) -> In x g /\ snd x <> snd c).
Proof.
  intros H. split; [apply canonical_in; exact H|].
  assert (D : forall x, In x (doomed g) -> In x g /\ snd x <> snd c).
  { intros x Hx. unfold doomed in Hx. destruct g as [|a [|b r]]; [destruct Hx | destruct Hx |].
    rewrite H in Hx. apply filter_In in Hx. destruct Hx as [Hi Hn]. split; [exact Hi|].
    apply negb_true_iff in Hn. apply String.eqb_neq in Hn. exact Hn. }
  split; [|exact D]. intros Hc. destruct (D c Hc) as [_ Hne]. apply Hne. reflexivity.
Qed.

(* ---------------------------------------------------------------- removal by descending index *)
Lemma select_from_ext {A} (p q : nat -> bool) k (l : list A) :
  (forall i, k <= i -> p i = q i) -> select_from p k l = select_from q k l.
Proof.
  revert k. induction l as [|x r IH]; intros k H; cbn [select_from]; [reflexivity|].
  rewrite (H k (le_n k)). rewrite (IH (S k)); [reflexivity|]. intros i Hi. apply H. lia.
Qed.

Lemma select_true {A} k (l : list A) : select_from (fun _ => true) k l = l.
Proof. revert k. induction l as [|x r IH]; intros k; cbn [select_from]; [reflexivity | rewrite IH; reflexivity]. Qed.
Lemma select_all {A} (p : nat -> bool) k (l : list A) : (forall j, k <= j -> p j = true) -> select_from p k l = l.
Proof. intros H. rewrite (select_from_ext p (fun _ => true) k l H). apply select_true. Qed.

(* selecting among the positions below i is not affected by removing position i or anything above *)
Lemma select_remove_above {A} (p : nat -> bool) i (l : list A) k :
  (forall j, k + i <= j -> p j = true) -> p (k + i) = true ->
  select_from p k (remove_at i l) = select_from (fun j => p j && negb (Nat.eqb j (k + i))) k l.
Proof.
  revert i k. induction l as [|x r IH]; intros i k Hab Hi; [destruct i; reflexivity|].
  destruct i as [|i]; cbn [remove_at select_from].
  - replace (Nat.eqb k (k + 0)) with true by (symmetry; apply Nat.eqb_eq; lia). rewrite andb_false_r.
    rewrite (select_all p k r) by (intros j Hj; apply Hab; lia).
    symmetry. apply select_all. intros j Hj. rewrite (Hab j) by lia. cbn [andb].
    apply negb_true_iff, Nat.eqb_neq. lia.
  - replace (Nat.eqb k (k + S i)) with false by (symmetry; apply Nat.eqb_neq; lia). rewrite andb_true_r.
    assert (E : select_from p (S k) (remove_at i r) = select_from (fun j => p j && negb (Nat.eqb j (k + S i))) (S k) r).
    { rewrite (IH i (S k)).
      - apply select_from_ext. intros j _. replace (S k + i) with (k + S i) by lia. reflexivity.
      - intros j Hj. apply Hab. lia.
      - replace (S k + i) with (k + S i) by lia. exact Hi. }
    destruct (p k); rewrite E; reflexivity.
Qed.

(* strictly descending lists *)
Fixpoint desc (l : list nat) : Prop := match l with [] => True | x :: r => (forall y, In y r -> y < x) /\ desc r end.

Theorem remove_all_desc {A} idxs (l : list A) : desc idxs -> remove_all idxs l = keep_unlisted idxs l.
Proof.
  unfold remove_all, keep_unlisted.
  (* generalise: after removing the larger indices (set `done`), selection by the remaining ones *)
  assert (G : forall idxs (l : list A) (p : nat -> bool), desc idxs ->
            (forall i, In i idxs -> forall j, i <= j -> p j = true) ->
            select_from p 0 (fold_left (fun acc i => remove_at i acc) idxs l)
            = select_from (fun j => p j && negb (existsb (Nat.eqb j) idxs)) 0 l).
  { clear idxs l. intros idxs. induction idxs as [|i r IH]; intros l p Hd Hp; cbn [fold_left].
    - apply select_from_ext. intros j _. cbn [existsb]. rewrite andb_true_r. reflexivity.
    - destruct Hd as [Hlt Hd].
      rewrite (IH (remove_at i l) p Hd).
      + (* the selection predicate of the rest is true from i upward (all of r is below i) *)
        rewrite (select_remove_above (fun j => p j && negb (existsb (Nat.eqb j) r)) i l 0).
        * apply select_from_ext. intros j _. cbn [existsb Nat.add]. rewrite negb_orb.
          rewrite (andb_comm (negb (Nat.eqb j i))). rewrite andb_assoc. reflexivity.
        * intros j Hj. cbn [Nat.add] in Hj. rewrite (Hp i (or_introl eq_refl) j Hj). cbn [andb].
          apply negb_true_iff. apply not_true_is_false. intros E. apply existsb_exists in E.
          destruct E as [y [Hy E]]. apply Nat.eqb_eq in E. subst y. specialize (Hlt j Hy). lia.
        * cbn [Nat.add]. rewrite (Hp i (or_introl eq_refl) i (le_n i)). cbn [andb].
          apply negb_true_iff. apply not_true_is_false. intros E. apply existsb_exists in E.
          destruct E as [y [Hy E]]. apply Nat.eqb_eq in E. subst y. specialize (Hlt i Hy). lia.
      + intros y Hy j Hj. apply (Hp y (or_intror Hy) j Hj). }
  intros Hd. rewrite <- (select_true 0 (fold_left _ idxs l)).
  rewrite (G idxs l (fun _ => true) Hd (fun _ _ _ _ => eq_refl)).
  apply select_from_ext. intros j _. reflexivity.
Qed.

(* the iteration order of the real code: distinct indices, highest first *)
Lemma ninsert_desc_in x l y : In y (ninsert_desc x l) <-> y = x \/ In y l.
Proof.
  induction l as [|z r IH]; cbn [ninsert_desc]; [cbn [In]; intuition|].
  destruct (Nat.ltb z x); [cbn [In]; intuition|].
  destruct (Nat.eqb z x) eqn:E; [apply Nat.eqb_eq in E; subst; cbn [In]; intuition|].
  cbn [In]. rewrite IH. intuition.
Qed.
Lemma ninsert_desc_desc x l : desc l -> desc (ninsert_desc x l).
Proof.
  induction l as [|z r IH]; intros Hd; cbn [ninsert_desc]; [cbn [desc In]; intuition|].
  destruct Hd as [Hlt Hd].
  destruct (Nat.ltb z x) eqn:E1.
  - apply Nat.ltb_lt in E1. cbn [desc]. split; [|split; assumption].
    intros y [<-|Hy]; [exact E1 | specialize (Hlt y Hy); lia].
  - destruct (Nat.eqb z x) eqn:E2; [cbn [desc]; split; assumption|].
    apply Nat.ltb_ge in E1. apply Nat.eqb_neq in E2. cbn [desc]. split; [|apply IH; exact Hd].
    intros y Hy. apply ninsert_desc_in in Hy. destruct Hy as [->|Hy]; [lia | apply Hlt; exact Hy].
Qed.
Lemma desc_set_desc l : desc (desc_set l).
Proof. induction l as [|x r IH]; cbn [desc_set]; [exact I | apply ninsert_desc_desc; exact IH]. Qed.
Lemma desc_set_in l y : In y (desc_set l) <-> In y l.
Proof. induction l as [|x r IH]; cbn [desc_set]; [tauto|]. rewrite ninsert_desc_in, IH. cbn [In]. intuition. Qed.

Lemma existsb_eq_iff (l1 l2 : list nat) : (forall y, In y l1 <-> In y l2) -> forall j, existsb (Nat.eqb j) l1 = existsb (Nat.eqb j) l2.
Proof.
  intros H j. destruct (existsb (Nat.eqb j) l1) eqn:E1; destruct (existsb (Nat.eqb j) l2) eqn:E2; try reflexivity.
  - apply existsb_exists in E1. destruct E1 as [y [Hy E]]. apply H in Hy.
    assert (T : existsb (Nat.eqb j) l2 = true) by (apply existsb_exists; eauto). congruence.
  - apply existsb_exists in E2. destruct E2 as [y [Hy E]]. apply H in Hy.
    assert (T : existsb (Nat.eqb j) l1 = true) by (apply existsb_exists; eauto). congruence.
Qed.

Theorem dedup_remove_exact {A} idxs (l : list A) : dedup_remove idxs l = keep_unlisted idxs l.
Proof.
  unfold dedup_remove. rewrite (remove_all_desc (desc_set idxs) l (desc_set_desc idxs)).
  unfold keep_unlisted. apply select_from_ext. intros j _.
  rewrite (existsb_eq_iff (desc_set idxs) idxs (desc_set_in idxs) j). reflexivity.
Qed.
