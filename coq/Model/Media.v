(* mediatype 0.21 `MediaType::parse` restricted to parameter-free inputs (no ';', no blanks),
   followed by the *generated* table ContentCategory::from_content_type (Gen/Content.v). *)
From OAS Require Import Lib.Str Gen.Content.

Definition is_restricted_char (c : ascii) : bool :=
  is_alnum c || mem (String c "") ["!"; "#"; "$"; "&"; "-"; "^"; "_"; "."; "+"; "%"; "*"; "'"].

Definition name_max_length : N := 127.

Definition is_restricted_name (s : string) : bool :=
  (slen s <=? name_max_length)%N &&
  match s with
  | EmptyString => false
  | String c _ => (is_alnum c || Ascii.eqb c "*") && sall is_restricted_char s
  end.

(* position of '/' must be within the first MAX_LENGTH+1 bytes *)
Definition parse_media (s : string) : option (string * string * option string) :=
  match split_at "/" s with
  | None => None
  | Some (ty, rgt) =>
      if negb (slen ty <=? name_max_length)%N then None else
      if negb (is_restricted_name ty) then None else
      if negb (sall is_restricted_char rgt) then None (* would be parameters: outside the modelled domain, and a parse error without ';' *) else
      let '(subty, suffix) :=
        match rsplit_at "+" rgt with
        | Some (a, b) => (a, b)
        | None => (rgt, "")
        end in
      if negb (is_restricted_name subty) then None else
      match suffix with
      | EmptyString => Some (ty, subty, None)
      | String _ tl => if is_restricted_name tl then Some (ty, subty, Some suffix) else None
      end
  end.

Definition category_of (ct : string) : category :=
  match parse_media ct with
  | None => category_on_parse_failure
  | Some (ty, subty, suffix) => category_of_parts ty subty suffix
  end.

Definition cat_eqb (a b : category) : bool :=
  match a, b with
  | CatJson, CatJson | CatFormUrlEncoded, CatFormUrlEncoded | CatMultipart, CatMultipart
  | CatText, CatText | CatBinary, CatBinary | CatXml, CatXml | CatEventStream, CatEventStream => true
  | _, _ => false
  end.

Lemma cat_eqb_eq a b : cat_eqb a b = true <-> a = b.
Proof. destruct a, b; simpl; split; intros H; try reflexivity; discriminate H. Qed.

Fixpoint ceval (e : cexpr) (ct : string) : bool :=
  match e with
  | CContains s => contains s ct
  | CStarts s => starts_with s ct
  | CEnds s => ends_with s ct
  | CAnd a b => ceval a ct && ceval b ct
  | COr a b => ceval a ct || ceval b ct
  | CNot a => negb (ceval a ct)
  end.

Fixpoint cexpr_show (e : cexpr) : string :=
  match e with
  | CContains s => "(CContains """ ++ s ++ """)"
  | CStarts s => "(CStarts """ ++ s ++ """)"
  | CEnds s => "(CEnds """ ++ s ++ """)"
  | CAnd a b => "(CAnd " ++ cexpr_show a ++ " " ++ cexpr_show b ++ ")"
  | COr a b => "(COr " ++ cexpr_show a ++ " " ++ cexpr_show b ++ ")"
  | CNot a => "(CNot " ++ cexpr_show a ++ ")"
  end.
