(* Canonical printing of the C04 model objects for the correspondence check (no proofs depend on it). *)
From OAS Require Import Lib.Str Gen.StatusTable Gen.Content Model.HttpConsts Model.Media Model.Responses.
Local Open Scope string_scope.

Definition show_case (c : vcase) : string :=
  v_name (vc_var c) ++ " " ++ extraction_show (extraction_of (vc_cat c) (v_schema (vc_var c))).

Definition show_dispatch (d : dispatch) : string :=
  match d with
  | Single c => "S " ++ show_case c
  | ContentDispatch streams others =>
      "D " ++ dispatch_default_content_type
      ++ String.concat "" (map (fun c => " | " ++ cexpr_show dispatch_stream_check ++ " " ++ show_case c) streams)
      ++ String.concat "" (map (fun c => " | " ++ cexpr_show (category_check (vc_cat c)) ++ " " ++ show_case c) others)
  end.

Definition show_gen (rs : responses) : string :=
  let g := gen rs in
  String.concat "" (map (fun h => "H " ++ cond_show (tok_condition (h_tok h)) ++ " " ++ show_dispatch (h_disp h) ++ " ;; ") (fst g))
  ++ "F " ++ match snd g with
             | Some c => show_case c
             | None => "Unknown null"
             end.

(* enum variants in declaration order: name, payload type *)
Definition show_variants (rs : responses) : string :=
  String.concat " ;; " (map (fun v => v_name v ++ " " ++ match v_schema v with Some t => t | None => "-" end)
                             (all_variants rs)).

Definition show_outcome (o : outcome) : string :=
  o_variant o ++ " " ++ extraction_show (o_extract o) ++ " " ++ (match o_key o with "" => "-" | k => k end).

Definition show_parse (rs : responses) (code : N) (ct : option string) : string :=
  show_outcome (parse (gen rs) code ct).

Definition show_spec_parse (rs : responses) (code : N) (ct : option string) : string :=
  show_outcome (spec_parse rs code ct).

Definition show_category (ct : string) : string :=
  match category_of ct with
  | CatJson => "Json" | CatFormUrlEncoded => "FormUrlEncoded" | CatMultipart => "Multipart" | CatText => "Text"
  | CatBinary => "Binary" | CatXml => "Xml" | CatEventStream => "EventStream"
  end.
