(* C12 — models of the recursive / looping parts of generation whose termination is at stake, with explicit
   outcomes, and an effect trace of the output phase. *)
From Coq Require Import List Arith Lia Bool.
Import ListNotations.

(* ---- schema_registry.rs compute_inheritance_depths::compute_depth: memoised recursion over allOf parents,
   memo entry written only AFTER the recursive calls (no visiting set) *)
Section Depth.
  Variable parents : nat -> list nat.

  Definition memo : Type := nat -> option nat.
  Definition mset (m : memo) (k d : nat) : memo := fun x => if Nat.eqb x k then Some d else m x.

  (* the `.map(|p| compute_depth(registry, p)).max()` loop over the parents, threading the memo *)
  Fixpoint fold_parents (rec : memo -> nat -> option (nat * memo)) (ps : list nat) (m : memo) (best : nat) : option (nat * memo) :=
    match ps with
    | [] => Some (best, m)
    | p :: r => match rec m p with
                | Some (d, m') => fold_parents rec r m' (Nat.max best d)
                | None => None
                end
    end.

  (* None = the call stack is exhausted *)
  Fixpoint depth (fuel : nat) (m : memo) (n : nat) : option (nat * memo) :=
    match fuel with
    | O => None
    | S f =>
        match m n with
        | Some d => Some (d, m)
        | None =>
            match parents n with
            | [] => Some (0, mset m n 0)
            | ps => match fold_parents (depth f) ps m 0 with
                    | Some (best, m') => Some (S best, mset m' n (S best))
                    | None => None
                    end
            end
        end
    end.
End Depth.

(* ---- output phase of `generate` (ui/commands/generate.rs): generate, mkdir, then the files one after the other *)
Inductive step_result := Ok | Fail.
Record run_result : Type := { exit_ok : bool; files_written : list nat }.

(* writes_ok k = does the k-th write succeed *)
Fixpoint write_all (k : nat) (n : nat) (writes_ok : nat -> bool) (done : list nat) : run_result :=
  match n with
  | O => {| exit_ok := true; files_written := done |}
  | S n' => if writes_ok k then write_all (S k) n' writes_ok (done ++ [k])
            else {| exit_ok := false; files_written := done |}
  end.

Definition generate_run (gen_ok mkdir_ok : bool) (nfiles : nat) (writes_ok : nat -> bool) : run_result :=
  if negb gen_ok then {| exit_ok := false; files_written := [] |}
  else if negb mkdir_ok then {| exit_ok := false; files_written := [] |}
  else write_all 0 nfiles writes_ok [].
