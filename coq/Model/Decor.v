(* C18 — the decoration layer: which token classes the presentation flags may touch.
   An emitted type item, abstractly: its visibility, derives, outer attributes, members (each with visibility,
   attributes, name, type).  [decorate] is what --visibility / --enable-builders do to an item; [erase] is the
   projection the checker applies before comparing outputs of different flag settings. *)
From OAS Require Import Lib.Str.
Local Open Scope list_scope.

Inductive vis : Type := VPub | VCrate | VFile.

Record member : Type := { m_vis : vis; m_attrs : list string; m_name : string; m_ty : string }.
Record item : Type := { i_vis : vis; i_derives : list string; i_attrs : list string; i_name : string; i_members : list member }.

Record cfg : Type := { c_vis : vis; c_builders : bool }.

Definition is_builder_attr (a : string) : bool := starts_with "builder(" a.
Definition is_builder_derive (d : string) : bool := String.eqb d "bon::Builder".

(* the core never contains builder decorations *)
Definition core_member (m : member) : bool := negb (existsb is_builder_attr (m_attrs m)).
Definition core_item (i : item) : bool := negb (existsb is_builder_derive (i_derives i)) && forallb core_member (i_members i).

Definition decorate_member (c : cfg) (battrs : list string) (m : member) : member :=
  {| m_vis := c_vis c; m_attrs := m_attrs m ++ (if c_builders c then battrs else []); m_name := m_name m; m_ty := m_ty m |}.

(* [battrs m] = the builder attributes the generator attaches to member m (any list of `builder(..)` attributes) *)
Definition decorate (c : cfg) (battrs : member -> list string) (i : item) : item :=
  {| i_vis := c_vis c;
     i_derives := i_derives i ++ (if c_builders c then ["bon::Builder"] else []);
     i_attrs := i_attrs i; i_name := i_name i;
     i_members := map (fun m => decorate_member c (battrs m) m) (i_members i) |}.

Definition erase_member (m : member) : member :=
  {| m_vis := VPub; m_attrs := filter (fun a => negb (is_builder_attr a)) (m_attrs m); m_name := m_name m; m_ty := m_ty m |}.
Definition erase (i : item) : item :=
  {| i_vis := VPub; i_derives := filter (fun d => negb (is_builder_derive d)) (i_derives i);
     i_attrs := i_attrs i; i_name := i_name i; i_members := map erase_member (i_members i) |}.
