(* C09 — hand model of naming/identifiers.rs on strings whose non-ASCII characters carry their
   any_ascii transliteration.  A character of the raw spec name is either ASCII or a non-ASCII
   scalar together with what any_ascii turns it into (arbitrary ASCII text, possibly empty);
   the theorems hold for every transliteration. *)
From OAS Require Import Lib.Str Gen.Keywords.
Local Open Scope list_scope.

Inductive ch : Type :=
| Asc (a : ascii)            (* an ASCII character of the name *)
| Uni (t : list ascii).      (* a non-ASCII character; t = any_ascii of it *)

Definition name := list ch.
Definition astr := list ascii.

Definition any_ascii (n : name) : astr :=
  flat_map (fun c => match c with Asc a => [a] | Uni t => t end) n.

Definition chr (s : string) : ascii := match s with String c _ => c | EmptyString => "000"%char end.
Definition US : ascii := "_"%char.

(* ---------------------------------------------------------------- sanitize *)

Definition valid_char (c : ascii) : bool := is_alnum c || Ascii.eqb c US.

(* INVALID_CHARS_RE then MULTI_UNDERSCORE_RE: every maximal run of invalid characters and/or
   underscores becomes one underscore *)
Fixpoint collapse (s : astr) (prev_us : bool) : astr :=
  match s with
  | [] => []
  | c :: r =>
      if is_alnum c then c :: collapse r false
      else if prev_us then collapse r true else US :: collapse r true
  end.

Fixpoint trim_left_us (s : astr) : astr :=
  match s with
  | c :: r => if Ascii.eqb c US then trim_left_us r else s
  | [] => []
  end.
Definition trim_us (s : astr) : astr := rev (trim_left_us (rev (trim_left_us s))).

Definition sanitize (n : name) : astr :=
  match n with
  | [] => []
  | _ => trim_us (collapse (any_ascii n) false)
  end.

(* ---------------------------------------------------------------- inflections (ASCII) *)

(* break_camel('_'): a separator between a lowercase letter and a following uppercase letter *)
Fixpoint break_camel (s : astr) : astr :=
  match s with
  | c :: ((d :: _) as r) => if is_lower c && is_upper d then c :: US :: break_camel r else c :: break_camel r
  | _ => s
  end.

Definition swap_sep (c : ascii) : ascii :=
  if Ascii.eqb c " "%char || Ascii.eqb c "-"%char || Ascii.eqb c US then US else c.

Definition to_snake_case (s : astr) : astr := map lower_ascii (break_camel (map swap_sep s)).
Definition to_constant_case (s : astr) : astr := map upper_ascii (break_camel (map swap_sep s)).

(* ---------------------------------------------------------------- helpers on raw names *)

Definition is_asc (p : ascii -> bool) (c : ch) : bool := match c with Asc a => p a | Uni _ => false end.

Definition strip_raw_prefix (n : name) : option name :=
  match n with
  | Asc r :: Asc h :: rest => if Ascii.eqb r "r"%char && Ascii.eqb h "#"%char then Some rest else None
  | _ => None
  end.

Definition leading_minus (n : name) : bool :=
  match n with Asc a :: _ => Ascii.eqb a "-"%char | _ => false end.
Definition drop_minus (n : name) : name := if leading_minus n then tl n else n.

Fixpoint astr_eqb (a b : astr) : bool :=
  match a, b with
  | [], [] => true
  | x :: a', y :: b' => Ascii.eqb x y && astr_eqb a' b'
  | _, _ => false
  end.

Definition la (s : string) : astr := list_ascii_of_string s.
Definition amem (x : astr) (l : list string) : bool := existsb (fun k => astr_eqb x (la k)) l.

Definition prefix_if_digit (p : ascii) (s : astr) : astr :=
  match s with c :: _ => if is_digit c then p :: s else s | [] => s end.

(* all characters of the name are ASCII alphanumerics or '_' (the r#-pass-through test) *)
Fixpoint all_asc_ident (n : name) : bool :=
  match n with
  | [] => true
  | Asc a :: r => (is_alnum a || Ascii.eqb a US) && all_asc_ident r
  | Uni _ :: _ => false
  end.

(* ---------------------------------------------------------------- to_rust_field_name *)

Definition to_rust_field_name (n : name) : astr :=
  match strip_raw_prefix n with
  | Some ((_ :: _) as raw) =>
      if all_asc_ident raw then la "r#" ++ any_ascii raw else
      (* falls through to the general path below *)
      let ident := to_snake_case (sanitize (drop_minus n)) in
      match ident with
      | [] => la "_"
      | _ => let ident := if leading_minus n then la "negative_" ++ ident else ident in
             if astr_eqb ident (la "self") || astr_eqb ident (la "crate") || astr_eqb ident (la "super") then ident ++ la "_"
             else if amem ident forbidden_identifiers then la "r#" ++ ident
             else prefix_if_digit US ident
      end
  | _ =>
      let ident := to_snake_case (sanitize (drop_minus n)) in
      match ident with
      | [] => la "_"
      | _ => let ident := if leading_minus n then la "negative_" ++ ident else ident in
             if astr_eqb ident (la "self") || astr_eqb ident (la "crate") || astr_eqb ident (la "super") then ident ++ la "_"
             else if amem ident forbidden_identifiers then la "r#" ++ ident
             else prefix_if_digit US ident
      end
  end.

(* ---------------------------------------------------------------- to_rust_const_name *)

Definition to_rust_const_name (n : name) : astr :=
  match sanitize n with
  | [] => la "UNNAMED"
  | s => prefix_if_digit US (to_constant_case s)
  end.

(* ---------------------------------------------------------------- to_rust_type_name *)

(* CapitalizeWordsWithBoundaries on ASCII text *)
Fixpoint cap_words (s : astr) (cap_next prev_lower : bool) : astr :=
  match s with
  | [] => []
  | c :: r =>
      let next_alnum := match r with d :: _ => is_alnum d | [] => false end in
      let next_lower := match r with d :: _ => is_lower d | [] => false end in
      if negb (is_alnum c) then c :: cap_words r next_alnum false
      else
        let should := cap_next || (prev_lower && is_upper c) || (is_upper c && next_lower) in
        (if should then upper_ascii c else lower_ascii c) :: cap_words r false (is_lower c)
  end.

Definition is_sep_char (a : ascii) : bool :=
  Ascii.eqb a "-"%char || Ascii.eqb a US || Ascii.eqb a "."%char || Ascii.eqb a " "%char.

Definition to_rust_type_name (n0 : name) : astr :=
  let n := match strip_raw_prefix n0 with Some r => r | None => n0 end in
  let minus := leading_minus n in
  let body := drop_minus n in
  let has_sep := existsb (is_asc is_sep_char) body in
  let has_upper := existsb (is_asc is_upper) body in
  let has_lower := existsb (is_asc is_lower) body in
  let mixed := negb has_sep && has_upper && has_lower in
  let ident :=
    if mixed then
      match filter is_alnum (any_ascii body) with
      | [] => []
      | c :: r => upper_ascii c :: r
      end
    else filter is_alnum (cap_words (any_ascii body) true false) in
  match ident with
  | [] => la "Unnamed"
  | _ =>
      let ident := if minus then la "Negative" ++ ident else ident in
      if astr_eqb ident (la "Self") then la "r#Self"
      else if amem ident prelude_type_names then ident ++ la "Type"
      else prefix_if_digit "T"%char ident
  end.

(* ---------------------------------------------------------------- legality of identifiers *)

(* Rust 2024 strict + reserved keywords (hand list: the *language's*, independent of the generator's) *)
Definition rust_keywords : list string :=
  ["as"; "break"; "const"; "continue"; "crate"; "else"; "enum"; "extern"; "false"; "fn"; "for"; "if"; "impl";
   "in"; "let"; "loop"; "match"; "mod"; "move"; "mut"; "pub"; "ref"; "return"; "self"; "Self"; "static";
   "struct"; "super"; "trait"; "true"; "type"; "unsafe"; "use"; "where"; "while"; "async"; "await"; "dyn";
   "abstract"; "become"; "box"; "do"; "final"; "macro"; "override"; "priv"; "typeof"; "unsized"; "virtual";
   "yield"; "try"; "gen"].

(* identifiers that cannot be raw *)
Definition never_raw : list string := ["self"; "Self"; "super"; "crate"; "_"].

Definition ident_shape (s : astr) : bool :=
  match s with
  | [] => false
  | c :: r => (is_alpha c || Ascii.eqb c US) && forallb valid_char s
  end.

(* a legal identifier token in a field / variant / type / const position:
   either a plain identifier that is neither a keyword nor the lone underscore,
   or r#ident with ident not in {self, Self, super, crate, _} *)
Definition plain_legal (s : astr) : bool :=
  ident_shape s && negb (amem s rust_keywords) && negb (astr_eqb s (la "_")).

Definition legal_ident (s : astr) : bool :=
  match s with
  | a :: b :: x =>
      if Ascii.eqb a "r"%char && Ascii.eqb b "#"%char then ident_shape x && negb (amem x never_raw)
      else plain_legal s
  | _ => plain_legal s
  end.

(* ---------------------------------------------------------------- uniqueness helpers *)

Fixpoint astr_mem (x : astr) (l : list astr) : bool :=
  match l with [] => false | y :: r => astr_eqb x y || astr_mem x r end.

Definition dec_astr (n : N) : astr := la (dec_of_N n).

(* ensure_unique: base, base2, base3, ... — first not in [used]; fuel = |used| + 1 always suffices *)
Fixpoint ensure_unique_from (fuel : nat) (base : astr) (i : N) (used : list astr) : astr :=
  match fuel with
  | O => base ++ dec_astr i
  | S f => let cand := base ++ dec_astr i in
           if astr_mem cand used then ensure_unique_from f base (i + 1) used else cand
  end.
Definition ensure_unique (base : astr) (used : list astr) : astr :=
  if astr_mem base used then ensure_unique_from (length used) base 2 used else base.

(* FieldConverter::deduplicate_names on (rust name, deprecated) pairs; the renamed field goes through
   to_rust_field_name again ([rename] parameter = that sanitiser on an ASCII name) *)
Definition count_name (x : astr) (l : list (astr * bool)) : nat :=
  length (filter (fun f => astr_eqb x (fst f)) l).

Fixpoint dedup_go (fields : list (astr * bool)) (all : list (astr * bool)) (occ : list (astr * N))
  (rename : astr -> astr) : list astr :=
  match fields with
  | [] => []
  | (nm, dep) :: r =>
      let dup := Nat.ltb 1 (count_name nm all) in
      let has_dep := existsb (fun f => astr_eqb nm (fst f) && snd f) all in
      let has_nondep := existsb (fun f => astr_eqb nm (fst f) && negb (snd f)) all in
      if dup && dep && has_dep && has_nondep then dedup_go r all occ rename
      else
        let k := match find (fun o => astr_eqb nm (fst o)) occ with Some o => (snd o + 1)%N | None => 1%N end in
        let occ' := (nm, k) :: filter (fun o => negb (astr_eqb nm (fst o))) occ in
        (if (1 <? k)%N then rename (nm ++ [US] ++ dec_astr k) else nm) :: dedup_go r all occ' rename
  end.

Definition has_dups (fields : list (astr * bool)) : bool :=
  existsb (fun f => Nat.ltb 1 (count_name (fst f) fields)) fields.

Definition deduplicate_names (fields : list (astr * bool)) (rename : astr -> astr) : list astr :=
  if has_dups fields then dedup_go fields fields [] rename else map fst fields.
