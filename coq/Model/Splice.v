(* C19 — Rust `format!` template semantics (positional `{}` only) and the two template splice sites:
   the Display impl of value enums (value used as template, braces escaped since the fix) and mixed path
   segments (literal parts + `{}` per parameter). *)
From OAS Require Import Lib.Str Model.Path.
Local Open Scope list_scope.

(* std::fmt template: `{{` -> `{`, `}}` -> `}`, `{}` -> next argument, any other brace is a compile error (None) *)
Fixpoint fmt_render (t : string) (args : list string) : option string :=
  match t with
  | EmptyString => match args with [] => Some "" | _ => None end     (* unused arguments are a compile error *)
  | String c r =>
      if Ascii.eqb c LB then
        match r with
        | String d r' =>
            if Ascii.eqb d LB then option_map (String LB) (fmt_render r' args)
            else if Ascii.eqb d RB then
              match args with
              | a :: rest => option_map (fun s => a ++ s)%string (fmt_render r' rest)
              | [] => None
              end
            else None                                  (* named / positional-indexed arguments: not emitted by the generator *)
        | EmptyString => None
        end
      else if Ascii.eqb c RB then
        match r with
        | String d r' => if Ascii.eqb d RB then option_map (String RB) (fmt_render r' args) else None
        | EmptyString => None
        end
      else option_map (String c) (fmt_render r args)
  end.

(* the escaping applied to enum values before they become the Display template *)
Fixpoint escape (v : string) : string :=
  match v with
  | EmptyString => EmptyString
  | String c r => if Ascii.eqb c LB then String LB (String LB (escape r))
                  else if Ascii.eqb c RB then String RB (String RB (escape r))
                  else String c (escape r)
  end.

(* build_mixed: format string of a mixed segment, and its rendering with one value per parameter *)
Fixpoint mixed_format (ps : list part) : string :=
  match ps with
  | [] => ""
  | PLit l :: r => (l ++ mixed_format r)%string
  | PPar _ :: r => ("{}" ++ mixed_format r)%string
  end.

Fixpoint subst_parts (ps : list part) (vals : list string) : option string :=
  match ps with
  | [] => match vals with [] => Some "" | _ => None end
  | PLit l :: r => option_map (fun s => l ++ s)%string (subst_parts r vals)
  | PPar _ :: r => match vals with v :: vs => option_map (fun s => v ++ s)%string (subst_parts r vs) | [] => None end
  end.
