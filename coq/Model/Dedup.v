(* C07 / C13 — de-duplication of response enums (postprocess/response_enum.rs ResponseEnumDeduplicator).
   Hand model of: compute_signature (sorted variants, each with sorted media types), the choice of the canonical
   member of a group (shortest name, then alphabetical), the set of members that are dropped, and the removal of the
   dropped items from the list of types by index, highest index first. *)
From Coq Require Import List Bool String Ascii Arith NArith.
From OAS Require Import Lib.Str.
Import ListNotations.
Local Open Scope nat_scope.

(* ---------------------------------------------------------------- signatures *)
(* a media type of a variant: content category (by its code) and the Rust text of the schema type ("None" when absent) *)
Definition media := (N * string)%type.
Record rvariant := { status : N; vname : string; medias : list media }.

Definition media_leb (a b : media) : bool :=
  if N.ltb (fst a) (fst b) then true else if N.ltb (fst b) (fst a) then false else String.leb (snd a) (snd b).

Section Sort.
  Context {A : Type} (leb : A -> A -> bool).
  Fixpoint insert (x : A) (l : list A) : list A :=
    match l with [] => [x] | y :: r => if leb x y then x :: l else y :: insert x r end.
  Fixpoint isort (l : list A) : list A := match l with [] => [] | x :: r => insert x (isort r) end.
End Sort.

Fixpoint medias_leb (a b : list media) : bool :=
  match a, b with
  | [], _ => true
  | _ :: _, [] => false
  | x :: ra, y :: rb => if media_leb x y then (if media_leb y x then medias_leb ra rb else true) else false
  end.

Definition vsig := (N * string * list media)%type.
Definition vsig_of (v : rvariant) : vsig := (status v, vname v, isort media_leb (medias v)).
Definition vsig_leb (a b : vsig) : bool :=
  let '(sa, na, ma) := a in let '(sb, nb, mb) := b in
  if N.ltb sa sb then true else if N.ltb sb sa then false else
  if String.eqb na nb then medias_leb ma mb else String.leb na nb.

Definition signature (vs : list rvariant) : list vsig := isort vsig_leb (map vsig_of vs).

(* ---------------------------------------------------------------- canonical member of a group *)
Definition cand := (nat * string)%type.           (* index in the list of types, name *)
Definition better (a b : cand) : bool :=          (* a is at least as good as b: shorter name, then alphabetical *)
  let la := String.length (snd a) in let lb := String.length (snd b) in
  if Nat.ltb la lb then true else if Nat.ltb lb la then false else String.leb (snd a) (snd b).
Fixpoint canonical (g : list cand) : option cand :=
  match g with
  | [] => None
  | x :: r => match canonical r with None => Some x | Some c => if better x c then Some x else Some c end
  end.
(* the members of a group (of two or more) that are replaced by the canonical one and removed *)
Definition doomed (g : list cand) : list cand :=
  match g with
  | [] | [_] => []
  | _ => match canonical g with Some c => filter (fun x => negb (String.eqb (snd x) (snd c))) g | None => [] end
  end.

(* ---------------------------------------------------------------- removal by index *)
Fixpoint remove_at {A} (i : nat) (l : list A) : list A :=
  match l, i with
  | [], _ => []
  | _ :: r, O => r
  | x :: r, S j => x :: remove_at j r
  end.
Definition remove_all {A} (idxs : list nat) (l : list A) : list A := fold_left (fun acc i => remove_at i acc) idxs l.

(* what is meant: the elements whose position is not listed, in their order *)
Fixpoint select_from {A} (p : nat -> bool) (k : nat) (l : list A) : list A :=
  match l with [] => [] | x :: r => if p k then x :: select_from p (S k) r else select_from p (S k) r end.
Definition keep_unlisted {A} (idxs : list nat) (l : list A) : list A :=
  select_from (fun i => negb (existsb (Nat.eqb i) idxs)) 0 l.

(* BTreeSet<usize>::iter().rev(): the distinct indices, highest first *)
Fixpoint ninsert_desc (x : nat) (l : list nat) : list nat :=
  match l with [] => [x] | y :: r => if Nat.ltb y x then x :: l else if Nat.eqb y x then l else y :: ninsert_desc x r end.
Fixpoint desc_set (l : list nat) : list nat := match l with [] => [] | x :: r => ninsert_desc x (desc_set r) end.
Definition dedup_remove {A} (idxs : list nat) (l : list A) : list A := remove_all (desc_set idxs) l.
