(* C01 — model of postprocess/serde_usage.rs: worklist propagation of (in_request, in_response)
   flags along type dependencies.  Types are numbered; [succ n] = types mentioned by type n. *)
From Coq Require Import List Bool Arith Lia.
Import ListNotations.

Definition flags : Type := (bool * bool)%type.
Definition f_or (a b : flags) : flags := (fst a || fst b, snd a || snd b).
Definition f_eqb (a b : flags) : bool := Bool.eqb (fst a) (fst b) && Bool.eqb (snd a) (snd b).
Definition f_le (a b : flags) : bool := implb (fst a) (fst b) && implb (snd a) (snd b).

Definition usage : Type := nat -> option flags.            (* BTreeMap<EnumToken, (bool, bool)> *)
Definition get (u : usage) (k : nat) : flags := match u k with Some f => f | None => (false, false) end.
Definition set (u : usage) (k : nat) (f : flags) : usage := fun x => if Nat.eqb x k then Some f else u x.

Section Graph.
  Variable succ : nat -> list nat.

  (* the `for dep in neighbors` loop of drain_worklist for one popped (type, flags) *)
  Fixpoint relax (deps : list nat) (f : flags) (u : usage) (wl : list (nat * flags)) : usage * list (nat * flags) :=
    match deps with
    | [] => (u, wl)
    | d :: r =>
        let prev := get u d in
        let nw := f_or prev f in
        let u' := set u d nw in
        if f_eqb nw prev then relax r f u' wl else relax r f u' (wl ++ [(d, nw)])
    end.

  Fixpoint drain (fuel : nat) (u : usage) (wl : list (nat * flags)) : usage * list (nat * flags) :=
    match fuel with
    | O => (u, wl)
    | S k =>
        match wl with
        | [] => (u, [])
        | (n, fl) :: rest => let (u', wl') := relax (succ n) fl u rest in drain k u' wl'
        end
    end.

  (* propagate_from_seeds then propagate_from_orphans over the node list [nodes] *)
  Definition seeds_worklist (nodes : list nat) (u : usage) : list (nat * flags) :=
    flat_map (fun n => match u n with Some f => [(n, f)] | None => [] end) nodes.

  Definition orphans (nodes : list nat) (u : usage) : list nat :=
    filter (fun n => match u n with Some _ => false | None => true end) nodes.

  Definition mark_orphans (os : list nat) (u : usage) : usage :=
    fold_left (fun u n => set u n (true, true)) os u.

  Definition propagate (fuel : nat) (nodes : list nat) (u0 : usage) : usage * list (nat * flags) :=
    let (u1, w1) := drain fuel u0 (seeds_worklist nodes u0) in
    let os := orphans nodes u1 in
    let u2 := mark_orphans os u1 in
    let (u3, w3) := drain fuel u2 (map (fun n => (n, (true, true))) os) in
    (u3, w1 ++ w3).

  (* downward closure: whatever a type is used for, every type it mentions is used for as well *)
  Definition closed_on (nodes : list nat) (u : usage) : Prop :=
    forall a b, In a nodes -> In b (succ a) -> f_le (get u a) (get u b) = true.
End Graph.
