(* C14 — tag dispatch of discriminated unions.
   Hand model of converter/discriminator.rs (build_variants_from_mapping, try_upgrade_to_discriminated,
   convert_to_discriminated_variants) and of the Deserialize impl emitted by codegen/enums.rs
   (DiscriminatedDeserializeImplFragment): match on `value.get(FIELD).and_then(as_str)`. *)
From Coq Require Import List Bool String.
From OAS Require Import Lib.Str.
Import ListNotations.
Local Open Scope string_scope.
Local Open Scope list_scope.

(* the effective mapping: tag value -> child schema, in BTreeMap (tag) order, tags unique *)
Definition mapping := list (string * string).

(* BTreeMap<schema, Vec<tag>> built by folding over the mapping: arms in schema order, tags in mapping order *)
Fixpoint add_tag (s t : string) (arms : list (string * list string)) : list (string * list string) :=
  match arms with
  | [] => [(s, [t])]
  | (s', ts) :: r =>
      if String.eqb s s' then (s', ts ++ [t]) :: r
      else if String.ltb s s' then (s, [t]) :: arms
      else (s', ts) :: add_tag s t r
  end.
Definition group (m : mapping) : list (string * list string) :=
  fold_left (fun acc e => add_tag (snd e) (fst e) acc) m [].

Record denum := { arms : list (string * list string); fallback : option string }.

(* enum of a discriminated base schema: children filtered by reachability, base struct as fallback *)
Definition base_enum (m : mapping) (reachable : string -> bool) (base : string) : denum :=
  {| arms := group (filter (fun e => reachable (snd e)) m); fallback := Some base |}.

(* oneOf/anyOf with a discriminator: upgraded to tag dispatch only if every mapping target is a member *)
Definition nonempty {A} (l : list A) : bool := match l with [] => false | _ => true end.
Definition upgrade (members : list string) (m : mapping) : option denum :=
  if nonempty members && nonempty m && forallb (fun e => Str.mem (snd e) members) m
  then Some {| arms := filter (fun a => Str.mem (fst a) members) (group m); fallback := None |}
  else None.

Inductive outcome := Variant (schema : string) | Fallback (schema : string) | ErrMissing | ErrUnknown.

(* one match arm per (variant, tag) in arm order, then None, then Some(other) *)
Fixpoint find_arm (a : list (string * list string)) (t : string) : option string :=
  match a with
  | [] => None
  | (s, ts) :: r => if Str.mem t ts then Some s else find_arm r t
  end.

(* tag = value.get(FIELD).and_then(|v| v.as_str()): None when the member is missing or not a string *)
Definition dispatch (d : denum) (tag : option string) : outcome :=
  match tag with
  | None => match fallback d with Some f => Fallback f | None => ErrMissing end
  | Some t => match find_arm (arms d) t with Some s => Variant s | None => ErrUnknown end
  end.

Definition tags_of (d : denum) : list string := flat_map snd (arms d).

(* ---------- implicit mapping from const-valued tag properties ---------- *)
(* schema_registry.rs synthesize_implicit_mappings + effective_mapping: the union's reference members, in order;
   consts gives, for a schema name, None when the schema does not exist, Some None when its tag property has no
   string const, Some (Some v) otherwise.  Any failure (missing schema, no const, duplicate value) gives up. *)
Fixpoint synth_acc (members : list string) (consts : string -> option (option string)) (seen : list string)
  (acc : list (string * string)) : option (list (string * string)) :=
  match members with
  | [] => Some acc
  | m :: r =>
      match consts m with
      | Some (Some v) => if Str.mem v seen then None else synth_acc r consts (v :: seen) (acc ++ [(v, m)])
      | _ => None
      end
  end.
Definition synth (members : list string) (consts : string -> option (option string)) : option mapping :=
  match members with
  | [] => None
  | _ => synth_acc members consts [] []
  end.
