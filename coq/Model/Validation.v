(* C16 — validation attributes.
   (1) integer range bounds: ValidationAttribute::range + RustPrimitive::format_number / render_integer, which
       clamps a bound to the primitive's MIN / MAX;  validator's range(min, max, exclusive_min, exclusive_max).
   (2) nested validation: postprocess/validation.rs NestedValidationProcessor (fix point over struct fields). *)
From Coq Require Import List Bool ZArith NArith Lia.
From OAS Require Import Model.Boxing.
Import ListNotations.
Local Open Scope Z_scope.

Record bounds := { bmin : option Z; bmax : option Z; bxmin : option Z; bxmax : option Z }.

Definition optb (f : Z -> bool) (o : option Z) : bool := match o with Some m => f m | None => true end.

(* JSON Schema: minimum <= v <= maximum, exclusiveMinimum < v < exclusiveMaximum; validator's range check is the same
   predicate on the translated bounds *)
Definition sat (b : bounds) (v : Z) : bool :=
  optb (fun m => m <=? v) (bmin b) && optb (fun m => v <=? m) (bmax b)
  && optb (fun m => m <? v) (bxmin b) && optb (fun m => v <? m) (bxmax b).

(* a fixed-width integer primitive *)
Record prim := { lo : Z; hi : Z }.
Definition i8 := {| lo := -128; hi := 127 |}.
Definition i16 := {| lo := -32768; hi := 32767 |}.
Definition i32 := {| lo := -2147483648; hi := 2147483647 |}.
Definition i64 := {| lo := -9223372036854775808; hi := 9223372036854775807 |}.

(* render_integer: `value <= MIN => MIN`, `value >= MAX => MAX`, otherwise the value *)
Definition clamp (p : prim) (m : Z) : Z := if m <=? lo p then lo p else if hi p <=? m then hi p else m.

Definition translate (p : prim) (b : bounds) : bounds :=
  {| bmin := option_map (clamp p) (bmin b); bmax := option_map (clamp p) (bmax b);
     bxmin := option_map (clamp p) (bxmin b); bxmax := option_map (clamp p) (bxmax b) |}.

Definition in_prim (p : prim) (v : Z) : Prop := lo p <= v <= hi p.
Definition bound_in (p : prim) (o : option Z) : Prop := match o with Some m => lo p <= m <= hi p | None => True end.

(* ---------- nested validation ---------- *)
(* struct i has direct constraints iff direct i; refs i = the structs its fields name (through Option/Vec/Box) *)
Record vstruct := { direct : bool; refs : list N }.

Fixpoint ref_edges_from (i : N) (ss : list vstruct) : list (N * N) :=
  match ss with
  | [] => []
  | s :: r => map (fun t => (t, i)) (refs s) ++ ref_edges_from (N.succ i) r     (* reversed: target -> holder *)
  end.
Definition ref_edges (ss : list vstruct) : list (N * N) := ref_edges_from 0 ss.

Fixpoint direct_from (i : N) (ss : list vstruct) : list N :=
  match ss with
  | [] => []
  | s :: r => (if direct s then [i] else []) ++ direct_from (N.succ i) r
  end.

(* the set of validated structs at the fix point, and whether the iteration closed within its fuel *)
Definition validated (ss : list vstruct) : list N * bool :=
  let es := ref_edges ss in
  let S := saturate (length es) es (dedupN (direct_from 0 ss)) in
  (S, closedb es S).
(* a field gets #[validate(nested)] iff its target is validated *)
Definition nested_field (ss : list vstruct) (target : N) : bool := memN target (fst (validated ss)).
