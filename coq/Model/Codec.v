(* C02 (tier A fragment) — schemas, the Rust types the generator emits for them, serde's derive semantics
   on those types (library contract, validated in the arena), and JSON-Schema validity for the fragment.

   Fragment: string, integer (i64), boolean, arrays, objects with required / optional / nullable members
   and additionalProperties true|false.  $ref is transparent for the codec (a named type behaves like its
   definition), enums are C15, unions/discriminators C14, defaults C17, formats are opaque strings. *)
From Coq Require Import ZArith.
From OAS Require Import Lib.Str.
Local Open Scope list_scope.

Inductive json : Type :=
| JNull | JBool (b : bool) | JInt (z : Z) | JStr (s : string)
| JArr (l : list json) | JObj (l : list (string * json)).

Inductive schema : Type :=
| SStr | SInt | SBool
| SArr (item : schema)
| SObj (fields : list field) (closed : bool)      (* closed = additionalProperties: false *)
with field : Type :=
| Field (name : string) (required nullable : bool) (sch : schema).

Definition fname (f : field) := match f with Field n _ _ _ => n end.
Definition freq (f : field) := match f with Field _ r _ _ => r end.
Definition fnull (f : field) := match f with Field _ _ n _ => n end.
Definition fsch (f : field) := match f with Field _ _ _ s => s end.

(* the member becomes Option<T> when it is not required or is nullable (converter/fields.rs) *)
Definition is_option (f : field) : bool := negb (freq f) || fnull f.

(* decoded values of the emitted types *)
Inductive value : Type :=
| VStr (s : string) | VInt (z : Z) | VBool (b : bool)
| VVec (l : list value)
| VStruct (l : list (string * option value)).      (* None = the Option member is None *)

Definition in_i64 (z : Z) : bool := ((- 9223372036854775808 <=? z) && (z <=? 9223372036854775807))%Z.

Fixpoint jassoc (k : string) (l : list (string * json)) : option json :=
  match l with [] => None | (k', v) :: r => if String.eqb k k' then Some v else jassoc k r end.

Fixpoint dec_all {A} (f : json -> option A) (l : list json) : option (list A) :=
  match l with
  | [] => Some []
  | x :: r => match f x, dec_all f r with Some a, Some rs => Some (a :: rs) | _, _ => None end
  end.

(* serde derive(Deserialize): *)
Fixpoint dec (s : schema) (j : json) {struct s} : option value :=
  match s, j with
  | SStr, JStr x => Some (VStr x)
  | SInt, JInt z => if in_i64 z then Some (VInt z) else None
  | SBool, JBool b => Some (VBool b)
  | SArr it, JArr l => match dec_all (dec it) l with Some vs => Some (VVec vs) | None => None end
  | SObj fs closed, JObj members =>
      let unknown_ok := negb closed || forallb (fun kv => existsb (fun f => String.eqb (fst kv) (fname f)) fs) members in
      if negb unknown_ok then None else
      option_map VStruct ((fix go (fl : list field) : option (list (string * option value)) :=
         match fl with
         | [] => Some []
         | f :: r =>
             let here : option (option value) :=
               match jassoc (fname f) members with
               | None => if is_option f then Some None else None                 (* missing *)
               | Some JNull => if is_option f then Some None else
                                 (match dec (fsch f) JNull with Some v => Some (Some v) | None => None end)
               | Some x => match dec (fsch f) x with Some v => Some (Some v) | None => None end
               end in
             match here, go r with
             | Some h, Some rest => Some ((fname f, h) :: rest)
             | _, _ => None
             end
         end) fs)
  | _, _ => None
  end.

(* serde derive(Serialize) + serde_with::skip_serializing_none *)
Fixpoint enc (v : value) : json :=
  match v with
  | VStr s => JStr s
  | VInt z => JInt z
  | VBool b => JBool b
  | VVec l => JArr (map enc l)
  | VStruct l =>
      JObj ((fix go (l : list (string * option value)) : list (string * json) :=
               match l with
               | [] => []
               | (k, Some x) :: r => (k, enc x) :: go r
               | (k, None) :: r => go r
               end) l)
  end.

Fixpoint keys_nodup (l : list (string * json)) : bool :=
  match l with [] => true | (k, _) :: r => negb (existsb (fun kv => String.eqb k (fst kv)) r) && keys_nodup r end.

(* JSON-Schema validity (Draft 2020-12) restricted to the fragment's keywords: type, items, properties,
   required, additionalProperties:false, type:[T,"null"]; integers additionally within i64 *)
Fixpoint valid (s : schema) (j : json) {struct s} : bool :=
  match s, j with
  | SStr, JStr _ => true
  | SInt, JInt z => in_i64 z
  | SBool, JBool _ => true
  | SArr it, JArr l => forallb (valid it) l
  | SObj fs closed, JObj members =>
      keys_nodup members &&
      (negb closed || forallb (fun kv => existsb (fun f => String.eqb (fst kv) (fname f)) fs) members) &&
      (fix go (fl : list field) : bool :=
         match fl with
         | [] => true
         | f :: r =>
             (match jassoc (fname f) members with
              | None => negb (freq f)
              | Some JNull => fnull f || valid (fsch f) JNull
              | Some x => valid (fsch f) x
              end) && go r
         end) fs
  | _, _ => false
  end.

(* "same value under the same wire name for every declared member, array element; absent and null optional
   members interchangeable": the re-encoded document restricted to declared members *)
Fixpoint wire_eq (s : schema) (a b : json) {struct s} : bool :=
  match s, a, b with
  | SStr, JStr x, JStr y => String.eqb x y
  | SInt, JInt x, JInt y => Z.eqb x y
  | SBool, JBool x, JBool y => Bool.eqb x y
  | SArr it, JArr la, JArr lb =>
      (fix go (la lb : list json) : bool :=
         match la, lb with
         | [], [] => true
         | x :: ra, y :: rb => wire_eq it x y && go ra rb
         | _, _ => false
         end) la lb
  | SObj fs _, JObj ma, JObj mb =>
      (fix go (fl : list field) : bool :=
         match fl with
         | [] => true
         | f :: r =>
             (match jassoc (fname f) ma, jassoc (fname f) mb with
              | None, None | Some JNull, None | None, Some JNull | Some JNull, Some JNull => true
              | Some x, Some y => wire_eq (fsch f) x y
              | _, _ => false
              end) && go r
         end) fs
  | _, _, _ => false
  end.

Fixpoint field_names_nodup (fs : list field) : bool :=
  match fs with [] => true | f :: r => negb (existsb (fun g => String.eqb (fname f) (fname g)) r) && field_names_nodup r end.

(* well-formed schema: member names distinct (OpenAPI objects are maps) *)
Fixpoint wf_schema (s : schema) : bool :=
  match s with
  | SArr it => wf_schema it
  | SObj fs _ => field_names_nodup fs &&
                 (fix go (fl : list field) : bool := match fl with [] => true | f :: r => wf_schema (fsch f) && go r end) fs
  | _ => true
  end.
