(* C03 / C05 / C16 — which parameter declarations an operation ends up with (converter/parameters.rs collect_parameters):
   the path item's parameters first, then each operation-level parameter replaces every collected parameter with the
   same (location, name) and is appended. *)
From Coq Require Import List Bool String NArith.
Import ListNotations.

Record param := { p_loc : N; p_name : string; p_payload : N }.   (* location code, name, an opaque schema id *)

Definition same_key (a b : param) : bool := N.eqb (p_loc a) (p_loc b) && String.eqb (p_name a) (p_name b).

Definition add_param (acc : list param) (p : param) : list param :=
  filter (fun q => negb (same_key q p)) acc ++ [p].

Definition collect_parameters (item_params op_params : list param) : list param :=
  fold_left add_param op_params item_params.

Definition has_key (p : param) (l : list param) : bool := existsb (fun q => same_key q p) l.

Fixpoint keys_nodup (l : list param) : bool :=
  match l with [] => true | p :: r => negb (has_key p r) && keys_nodup r end.
