(* C19 — how text from the document becomes doc-comment lines (ast/documentation.rs
   `normalize_line_breaks` + `str::lines`, the same chain in codegen/mod.rs `header_lines` and
   codegen/enums.rs): `\r\n` -> `\n`, then `\r` -> `\n`, then `str::lines`; a stored line without a
   line break is kept as it is.  Every physical line becomes one `#[doc = " <line>"]` attribute. *)
From OAS Require Import Lib.Str.
Local Open Scope list_scope.

Definition CR : ascii := ascii_of_N 13.
Definition LF : ascii := ascii_of_N 10.
Definition is_break (c : ascii) : bool := Ascii.eqb c CR || Ascii.eqb c LF.

(* str::replace("\r\n", "\n"): non-overlapping matches, left to right *)
Fixpoint replace_crlf (s : string) : string :=
  match s with
  | EmptyString => EmptyString
  | String c r =>
      match r with
      | String d r' => if Ascii.eqb c CR && Ascii.eqb d LF then String LF (replace_crlf r') else String c (replace_crlf r)
      | EmptyString => String c EmptyString
      end
  end.

(* str::replace('\r', "\n") *)
Definition replace_cr (s : string) : string := smap (fun c => if Ascii.eqb c CR then LF else c) s.

Definition normalize_line_breaks (s : string) : string := replace_cr (replace_crlf s).

(* core::str::Lines = split_inclusive('\n') then, per piece: strip one '\n' suffix and, only if that was
   there, one '\r' suffix.  `split_lf` gives (piece without its '\n', was it terminated). *)
Fixpoint split_lf (s : string) : list (string * bool) :=
  match s with
  | EmptyString => []
  | String c r =>
      if Ascii.eqb c LF then (EmptyString, true) :: split_lf r
      else match split_lf r with
           | [] => [(String c EmptyString, false)]
           | (l, t) :: ls => (String c l, t) :: ls
           end
  end.

Fixpoint strip_cr_suffix (s : string) : string :=
  match s with
  | EmptyString => EmptyString
  | String c r => match r with
                  | EmptyString => if Ascii.eqb c CR then EmptyString else s
                  | _ => String c (strip_cr_suffix r)
                  end
  end.

Definition rust_lines (s : string) : list string :=
  map (fun p : string * bool => if snd p then strip_cr_suffix (fst p) else fst p) (split_lf s).

(* Documentation::to_tokens: the physical lines of one stored line *)
Definition phys_lines (line : string) : list string :=
  if negb (sall (fun c => negb (is_break c)) line) then rust_lines (normalize_line_breaks line) else [line].

Fixpoint sfilter (p : ascii -> bool) (s : string) : string :=
  match s with
  | EmptyString => EmptyString
  | String c r => if p c then String c (sfilter p r) else sfilter p r
  end.

Definition sconcat (l : list string) : string := fold_right String.append EmptyString l.
Definition no_break (s : string) : bool := sall (fun c => negb (is_break c)) s.
