(* C13 — the two identity keys under which generated types are shared.
   Hand model of converter/union_types.rs EnumValueEntry::cache_key / entries_to_cache_key and of the reference-set
   key of unions (type_resolver.rs union_type, utils/refs.rs build_union_fingerprints, cache.rs UnionRegistry). *)
From Coq Require Import List Bool String Ascii ZArith NArith.
From OAS Require Import Lib.Str.
Import ListNotations.
Local Open Scope string_scope.

Inductive jv := JStr (s : string) | JNum (z : Z) | JFrac (text : string) | JBool (b : bool) | JNull.

Definition dec_of_Z (z : Z) : string :=
  match z with
  | Z0 => "0"
  | Zpos p => dec_of_N (Npos p)
  | Zneg p => "-" ++ dec_of_N (Npos p)
  end.

(* the wire name of the variant generated for an enum value (serde rename): strings as they are, numbers and
   booleans by their JSON text; null is expressed as Option at the use site *)
Definition wire_name (v : jv) : option string :=
  match v with
  | JStr s => Some s
  | JNum z => Some (dec_of_Z z)
  | JFrac t => Some t
  | JBool true => Some "true"
  | JBool false => Some "false"
  | JNull => None
  end.

Fixpoint filter_map {A B} (f : A -> option B) (l : list A) : list B :=
  match l with [] => [] | x :: r => match f x with Some y => y :: filter_map f r | None => filter_map f r end end.

Fixpoint sinsert (x : string) (l : list string) : list string :=
  match l with [] => [x] | y :: r => if String.leb x y then x :: l else y :: sinsert x r end.
Fixpoint ssort (l : list string) : list string :=
  match l with [] => [] | x :: r => sinsert x (ssort r) end.

Definition wire_names (vs : list jv) : list string := filter_map wire_name vs.
(* entries_to_cache_key since fix 9b79917: every non-null value contributes *)
Definition enum_key (vs : list jv) : list string := ssort (wire_names vs).
(* before the fix: only string values contributed *)
Definition enum_key_old (vs : list jv) : list string :=
  ssort (filter_map (fun v => match v with JStr s => Some s | _ => None end) vs).

(* a union variant: a reference to a named schema or an inline schema (identified by its canonical text) *)
Inductive uvar := VRef (name : string) | VInline (canon : string).
Record union := { variants : list uvar; discriminator : option string }.

Definition refs_of (vs : list uvar) : list string :=
  filter_map (fun v => match v with VRef n => Some n | VInline _ => None end) vs.
Fixpoint sdedup (l : list string) : list string :=
  match l with [] => [] | x :: r => if Str.mem x r then sdedup r else x :: sdedup r end.
Definition ref_set (vs : list uvar) : list string := ssort (sdedup (refs_of vs)).

(* the key under which an inline union is looked up / registered (None: not shared by references).
   Since fix 3dad983 the reference set only counts when every variant is a reference. *)
Definition union_key (u : union) : option (list string * option string) :=
  let rs := ref_set (variants u) in
  if Nat.leb 2 (List.length rs) && Nat.eqb (List.length rs) (List.length (variants u))
  then Some (rs, discriminator u) else None.
Definition union_key_old (u : union) : option (list string * option string) :=
  let rs := ref_set (variants u) in
  if Nat.leb 2 (List.length rs) then Some (rs, discriminator u) else None.

(* a union of values: every variant is a set of values (const / enum) or "open" (a plain integer, an object, a
   freeform string, ... identified by its canonical text) which accepts documents that are not listed values.
   inline_resolver.rs value_enum_cache_key (since fix 286df18): such a union has an enum key only when no variant is
   open; before the fix the open variants were simply skipped. *)
Inductive vvar := VValues (vs : list jv) | VOpen (canon : string).
Definition vu_values (u : list vvar) : list jv :=
  flat_map (fun v => match v with VValues vs => vs | VOpen _ => [] end) u.
Definition vu_open (u : list vvar) : bool :=
  existsb (fun v => match v with VOpen _ => true | VValues vs => match vs with [] => true | _ => false end end) u.
Definition value_union_key (u : list vvar) : option (list string) :=
  if vu_open u then None else Some (enum_key (vu_values u)).
Definition value_union_key_old (u : list vvar) : option (list string) := Some (enum_key (vu_values u)).
