(* Library contract (trusted base, validated by the arena): the associated constants of
   http::StatusCode (http 1.4, src/status.rs) and the status-class predicates. *)
From OAS Require Import Lib.Str.

Definition http_consts : list (string * N) :=
  [("CONTINUE", 100); ("SWITCHING_PROTOCOLS", 101); ("PROCESSING", 102); ("EARLY_HINTS", 103); ("OK", 200); ("CREATED", 201); ("ACCEPTED", 202); ("NON_AUTHORITATIVE_INFORMATION", 203); ("NO_CONTENT", 204); ("RESET_CONTENT", 205); ("PARTIAL_CONTENT", 206); ("MULTI_STATUS", 207); ("ALREADY_REPORTED", 208); ("IM_USED", 226); ("MULTIPLE_CHOICES", 300); ("MOVED_PERMANENTLY", 301); ("FOUND", 302); ("SEE_OTHER", 303); ("NOT_MODIFIED", 304); ("USE_PROXY", 305); ("TEMPORARY_REDIRECT", 307); ("PERMANENT_REDIRECT", 308); ("BAD_REQUEST", 400); ("UNAUTHORIZED", 401); ("PAYMENT_REQUIRED", 402); ("FORBIDDEN", 403); ("NOT_FOUND", 404); ("METHOD_NOT_ALLOWED", 405); ("NOT_ACCEPTABLE", 406); ("PROXY_AUTHENTICATION_REQUIRED", 407); ("REQUEST_TIMEOUT", 408); ("CONFLICT", 409); ("GONE", 410); ("LENGTH_REQUIRED", 411); ("PRECONDITION_FAILED", 412); ("PAYLOAD_TOO_LARGE", 413); ("URI_TOO_LONG", 414); ("UNSUPPORTED_MEDIA_TYPE", 415); ("RANGE_NOT_SATISFIABLE", 416); ("EXPECTATION_FAILED", 417); ("IM_A_TEAPOT", 418); ("MISDIRECTED_REQUEST", 421); ("UNPROCESSABLE_ENTITY", 422); ("LOCKED", 423); ("FAILED_DEPENDENCY", 424); ("TOO_EARLY", 425); ("UPGRADE_REQUIRED", 426); ("PRECONDITION_REQUIRED", 428); ("TOO_MANY_REQUESTS", 429); ("REQUEST_HEADER_FIELDS_TOO_LARGE", 431); ("UNAVAILABLE_FOR_LEGAL_REASONS", 451); ("INTERNAL_SERVER_ERROR", 500); ("NOT_IMPLEMENTED", 501); ("BAD_GATEWAY", 502); ("SERVICE_UNAVAILABLE", 503); ("GATEWAY_TIMEOUT", 504); ("HTTP_VERSION_NOT_SUPPORTED", 505); ("VARIANT_ALSO_NEGOTIATES", 506); ("INSUFFICIENT_STORAGE", 507); ("LOOP_DETECTED", 508); ("NOT_EXTENDED", 510); ("NETWORK_AUTHENTICATION_REQUIRED", 511)].

Definition http_const (name : string) : option N := assoc name http_consts.

(* http::StatusCode::from_u16 accepts exactly 100..=999 *)
Definition from_u16_ok (n : N) : bool := (100 <=? n) && (n <=? 999).

(* is_informational / is_success / is_redirection / is_client_error / is_server_error *)
Definition status_class_method (m : string) (code : N) : option bool :=
  if String.eqb m "is_informational" then Some ((100 <=? code) && (code <? 200))
  else if String.eqb m "is_success" then Some ((200 <=? code) && (code <? 300))
  else if String.eqb m "is_redirection" then Some ((300 <=? code) && (code <? 400))
  else if String.eqb m "is_client_error" then Some ((400 <=? code) && (code <? 500))
  else if String.eqb m "is_server_error" then Some ((500 <=? code) && (code <? 600))
  else None.
