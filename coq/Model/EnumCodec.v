(* C15 — model of converter/value_enums.rs (build_enum_from_values, both collision strategies),
   naming/inference.rs NormalizedVariant, and the codec semantics of the emitted enum:
   serde derive on unit variants with rename/alias, and the hand-written case-insensitive Deserialize. *)
From Coq Require Import ZArith.
From OAS Require Import Lib.Str Model.Ident.
Local Open Scope list_scope.

Inductive jval : Type := JS (s : astr) | JI (z : Z) | JB (b : bool) | JOther.

Definition dec_Z (z : Z) : astr :=
  match z with
  | Z0 => la "0"
  | Zpos p => dec_astr (Npos p)
  | Zneg p => "-"%char :: dec_astr (Npos p)
  end.

Definition replace_dot_minus (s : astr) : astr :=
  map (fun c => if Ascii.eqb c "."%char || Ascii.eqb c "-"%char then US else c) s.

(* NormalizedVariant::try_from: (variant name, rename value) *)
Definition normalize (v : jval) : option (astr * astr) :=
  match v with
  | JS s => Some (to_rust_type_name (map Asc s), s)
  | JI z => let raw := dec_Z z in Some (la "Value" ++ replace_dot_minus raw, raw)
  | JB b => Some (if b then la "True" else la "False", if b then la "true" else la "false")
  | JOther => None
  end.

Record variant : Type := { v_name : astr; v_rename : astr; v_alias : list astr }.

Fixpoint add_alias (name alias : astr) (vs : list variant) : list variant :=
  match vs with
  | [] => []
  | v :: r => if astr_eqb (v_name v) name
              then {| v_name := v_name v; v_rename := v_rename v; v_alias := v_alias v ++ [alias] |} :: r
              else v :: add_alias name alias r
  end.

Definition has_name (n : astr) (vs : list variant) : bool := existsb (fun v => astr_eqb (v_name v) n) vs.

(* the fold of build_enum_from_values; [i] is the index of the entry in the schema's enum array.
   `seen` is keyed by name and always equals the names of the variants pushed so far *)
Fixpoint build (dedup : bool) (entries : list jval) (i : N) (vs : list variant) : list variant :=
  match entries with
  | [] => vs
  | e :: r =>
      match normalize e with
      | None => build dedup r (i + 1) vs
      | Some (name, ren) =>
          if has_name name vs then
            if dedup then build dedup r (i + 1) (add_alias name ren vs)
            else build dedup r (i + 1) (vs ++ [ {| v_name := name ++ dec_astr i; v_rename := ren; v_alias := [] |} ])
          else build dedup r (i + 1) (vs ++ [ {| v_name := name; v_rename := ren; v_alias := [] |} ])
      end
  end.

Definition build_enum (dedup : bool) (entries : list jval) : list variant := build dedup entries 0 [].

(* ---- codec semantics *)

(* serde derive(Deserialize) on unit variants: the JSON must be a string naming a variant by rename or alias *)
Definition dec_strict (vs : list variant) (s : astr) : option variant :=
  find (fun v => astr_eqb (v_rename v) s || astr_mem s (v_alias v)) vs.

Definition enc (v : variant) : astr := v_rename v.

Definition lower_a (s : astr) : astr := map lower_ascii s.

(* the emitted case-insensitive Deserialize: one match arm per accepted text (rename, then aliases) of each
   variant in order, compared lower-cased — first arm wins *)
Definition accepted_lower (v : variant) : list astr := map lower_a (v_rename v :: v_alias v).
(* ... and a last arm: when a variant is NAMED `Unknown` or `Other` (EnumDef::fallback_variant — the first such
   variant), every other string decodes to it; otherwise the string is rejected *)
Definition is_fallback_name (n : astr) : bool := astr_eqb n (la "Unknown") || astr_eqb n (la "Other").
Definition fallback (vs : list variant) : option variant := find (fun v => is_fallback_name (v_name v)) vs.
Definition dec_relaxed (vs : list variant) (s : astr) : option variant :=
  match find (fun v => astr_mem (lower_a s) (accepted_lower v)) vs with
  | Some v => Some v
  | None => fallback vs
  end.

Definition names_nodup (vs : list variant) : bool :=
  (fix go (l : list variant) : bool :=
     match l with [] => true | v :: r => negb (has_name (v_name v) r) && go r end) vs.
