(* C20 — model of the SSE stack:
     bytes --Utf8Stream--> strings --(eventsource-stream) line parser + EventBuilder--> events
           --(oas3-gen-support) EventStream<T>--> decoded items
   Bytes are Coq [ascii] (8 bits).  The distinguished characters (LF, CR, ':', ' ') are ASCII, so on
   well-formed UTF-8 the byte-level line parser coincides with the char-level nom parser. *)
From Coq Require Import Ascii List NArith Bool Lia.
Import ListNotations.
Open Scope N_scope.

Definition bytes := list ascii.

Definition LF : ascii := "010"%char.
Definition CR : ascii := "013"%char.
Definition COLON : ascii := ":"%char.
Definition SP : ascii := " "%char.

Definition is_eol (c : ascii) : bool := Ascii.eqb c CR || Ascii.eqb c LF.

(* ------------------------------------------------------------------ nom (streaming) line parser *)

Inductive rawline : Type :=
| RComment
| RField (name : bytes) (value : option bytes)
| REmpty.

Inductive lres : Type :=
| LIncomplete
| LDone (rest : bytes) (l : rawline).

(* take_while(is_any_char): longest prefix without CR / LF *)
Fixpoint span_noneol (s : bytes) : bytes * bytes :=
  match s with
  | [] => ([], [])
  | c :: r => if is_eol c then ([], s) else let (a, b) := span_noneol r in (c :: a, b)
  end.

(* take_while1(is_name_char): longest prefix without CR / LF / ':' *)
Fixpoint span_name (s : bytes) : bytes * bytes :=
  match s with
  | [] => ([], [])
  | c :: r => if is_eol c || Ascii.eqb c COLON then ([], s) else let (a, b) := span_name r in (c :: a, b)
  end.

(* alt((tag "\r\n", take_while_m_n(1,1,is_cr), take_while_m_n(1,1,is_lf))) with *streaming* semantics:
   a lone CR at the end of the input is Incomplete (the tag could still match) *)
Definition eol (s : bytes) : option bytes :=
  match s with
  | c :: r =>
      if Ascii.eqb c CR then
        match r with
        | [] => None
        | d :: r' => if Ascii.eqb d LF then Some r' else Some r
        end
      else if Ascii.eqb c LF then Some r else None
  | [] => None
  end.

Definition after_eol (rest : bytes) (l : rawline) : lres :=
  match eol rest with Some r' => LDone r' l | None => LIncomplete end.

(* alt((comment, field, empty)) *)
Definition line (s : bytes) : lres :=
  match s with
  | [] => LIncomplete
  | c :: r =>
      if Ascii.eqb c COLON then
        let (body, rest) := span_noneol r in after_eol rest RComment
      else if is_eol c then after_eol s REmpty
      else
        let (name, rest) := span_name s in
        match rest with
        | [] => LIncomplete
        | d :: r1 =>
            if Ascii.eqb d COLON then
              match r1 with
              | [] => LIncomplete
              | e :: r2 =>
                  let v0 := if Ascii.eqb e SP then r2 else r1 in
                  let (val, rest2) := span_noneol v0 in
                  after_eol rest2 (RField name (Some val))
              end
            else after_eol rest (RField name None)
        end
  end.

(* ------------------------------------------------------------------ EventBuilder (data only) *)

Definition DATA : bytes := ["d"; "a"; "t"; "a"]%char.

Fixpoint bytes_eqb (a b : bytes) : bool :=
  match a, b with
  | [], [] => true
  | x :: a', y :: b' => Ascii.eqb x y && bytes_eqb a' b'
  | _, _ => false
  end.

Definition strip_last_lf (d : bytes) : bytes :=
  match rev d with
  | c :: r => if Ascii.eqb c LF then rev r else d
  | [] => d
  end.

(* one line into the builder: new data buffer and the event dispatched by this line, if any
   (dispatch yields nothing when the data buffer is empty) *)
Definition step (d : bytes) (l : rawline) : bytes * list bytes :=
  match l with
  | RComment => (d, [])
  | RField name v =>
      if bytes_eqb name DATA then (d ++ (match v with Some x => x | None => [] end) ++ [LF], [])
      else (d, [])
  | REmpty => ([], match d with [] => [] | _ => [strip_last_lf d] end)
  end.

(* ------------------------------------------------------------------ draining the buffer *)

(* big-step: all complete lines of [buf] are consumed *)
Inductive Drain : bytes -> bytes -> list bytes -> bytes -> bytes -> Prop :=
| Drain_stop buf d : line buf = LIncomplete -> Drain buf d [] buf d
| Drain_step buf d r l d' ev es bf df :
    line buf = LDone r l -> step d l = (d', ev) -> Drain r d' es bf df ->
    Drain buf d (ev ++ es) bf df.

(* executable version (fuel = an upper bound on the number of lines) *)
Fixpoint drain (fuel : nat) (buf d : bytes) : option (list bytes * bytes * bytes) :=
  match fuel with
  | O => None
  | S f =>
      match line buf with
      | LIncomplete => Some ([], buf, d)
      | LDone r l =>
          let (d', ev) := step d l in
          match drain f r d' with
          | Some (es, bf, df) => Some (ev ++ es, bf, df)
          | None => None
          end
      end
  end.

Definition drain_all (buf d : bytes) : list bytes * bytes * bytes :=
  match drain (S (length buf)) buf d with
  | Some x => x
  | None => ([], buf, d)   (* unreachable: drain_fuel_enough *)
  end.

(* ------------------------------------------------------------------ chunk-level semantics *)

(* state of the line layer: (buffer, data buffer).  Feeding a string chunk appends and drains. *)
Definition feed (st : bytes * bytes) (c : bytes) : list bytes * (bytes * bytes) :=
  let '(es, bf, df) := drain_all (fst st ++ c) (snd st) in (es, (bf, df)).

Fixpoint feed_all (st : bytes * bytes) (cs : list bytes) : list bytes * (bytes * bytes) :=
  match cs with
  | [] => ([], st)
  | c :: r => let (e1, st1) := feed st c in let (e2, st2) := feed_all st1 r in (e1 ++ e2, st2)
  end.

(* what the support crate hands out: events with non-empty data, decoded *)
Definition nonempty (e : bytes) : bool := match e with [] => false | _ => true end.

(* ------------------------------------------------------------------ UTF-8 layer *)

Definition bn (b : ascii) : N := N_of_ascii b.
Definition cont (b : ascii) : bool := (128 <=? bn b) && (bn b <=? 191).
Definition inr (lo hi : N) (b : ascii) : bool := (lo <=? bn b) && (bn b <=? hi).

(* length of the well-formed scalar encoding at the head (Unicode Table 3-7), None when the head is
   ill-formed or incomplete *)
Definition scalar_len (s : bytes) : option nat :=
  match s with
  | [] => None
  | b0 :: r =>
      if bn b0 <? 128 then Some 1%nat
      else if inr 194 223 b0 then
        match r with b1 :: _ => if cont b1 then Some 2%nat else None | _ => None end
      else if inr 224 239 b0 then
        match r with
        | b1 :: b2 :: _ =>
            let ok1 := if bn b0 =? 224 then inr 160 191 b1
                       else if bn b0 =? 237 then inr 128 159 b1 else cont b1 in
            if ok1 && cont b2 then Some 3%nat else None
        | _ => None
        end
      else if inr 240 244 b0 then
        match r with
        | b1 :: b2 :: b3 :: _ =>
            let ok1 := if bn b0 =? 240 then inr 144 191 b1
                       else if bn b0 =? 244 then inr 128 143 b1 else cont b1 in
            if ok1 && cont b2 && cont b3 then Some 4%nat else None
        | _ => None
        end
      else None
  end.

(* std::str::from_utf8(..).valid_up_to() *)
Fixpoint valid_up_to_fuel (fuel : nat) (s : bytes) : nat :=
  match fuel with
  | O => O
  | S f => match scalar_len s with
           | Some n => (n + valid_up_to_fuel f (skipn n s))%nat
           | None => O
           end
  end.
Definition valid_up_to (s : bytes) : nat := valid_up_to_fuel (length s) s.
Definition well_formed (s : bytes) : bool := Nat.eqb (valid_up_to s) (length s).

(* Utf8Stream on one chunk: emitted string and new pending bytes *)
Definition utf8_feed (pending c : bytes) : bytes * bytes :=
  let b := pending ++ c in let n := valid_up_to b in (firstn n b, skipn n b).

(* ------------------------------------------------------------------ poll-level machine *)

Inductive input : Type := Chunk (c : bytes) | Pending.

Inductive item : Type :=
| Item (data : bytes)     (* one event with non-empty data, to be decoded by the caller's [dec] *)
| ErrUtf8
| Panic.                  (* the BOM strip `&string[1..]` inside a 3-byte char *)

Inductive sstate : Type := NotStarted | Started | Terminated.

Record st : Type := {
  s_pending : bytes;       (* Utf8Stream.buffer *)
  s_uterm : bool;          (* Utf8Stream.terminated *)
  s_buf : bytes;           (* EventStream.buffer *)
  s_data : bytes;          (* EventBuilder data *)
  s_state : sstate
}.

Definition st0 : st := {| s_pending := []; s_uterm := false; s_buf := []; s_data := []; s_state := NotStarted |}.

Definition BOM : bytes := [ascii_of_N 239; ascii_of_N 187; ascii_of_N 191].

Fixpoint is_prefix (p s : bytes) : bool :=
  match p, s with
  | [], _ => true
  | a :: p', b :: s' => Ascii.eqb a b && is_prefix p' s'
  | _, [] => false
  end.

(* parse_event: first dispatched event (possibly with empty data after LF-stripping) *)
Fixpoint parse_event (fuel : nat) (buf d : bytes) : option bytes * bytes * bytes :=
  match fuel with
  | O => (None, buf, d)
  | S f =>
      match line buf with
      | LIncomplete => (None, buf, d)
      | LDone r l =>
          let (d', ev) := step d l in
          match ev with
          | e :: _ => (Some e, r, d')
          | [] => parse_event f r d'
          end
      end
  end.

Inductive pres : Type :=
| PReady (i : item)
| PSkip               (* inner produced an event with empty data: the support stream loops *)
| PPending
| PEnd.

(* one poll of eventsource_stream::EventStream given the remaining input script;
   returns the result, new state, remaining script.  [fuel] bounds the inner `loop`. *)
Fixpoint es_poll (fuel : nat) (s : st) (script : list input) : pres * st * list input :=
  match parse_event (S (length (s_buf s))) (s_buf s) (s_data s) with
  | (Some e, r, d') =>
      (match e with [] => PSkip | _ => PReady (Item e) end,
       {| s_pending := s_pending s; s_uterm := s_uterm s; s_buf := r; s_data := d'; s_state := s_state s |}, script)
  | (None, _, _) =>
      match s_state s with
      | Terminated => (PEnd, s, script)
      | _ =>
        match fuel with
        | O => (PPending, s, script)
        | S f =>
          if s_uterm s then
            (PEnd, {| s_pending := s_pending s; s_uterm := true; s_buf := s_buf s; s_data := s_data s; s_state := Terminated |}, script)
          else
          match script with
          | Pending :: rest => (PPending, s, rest)
          | [] =>
              (* end of the byte stream *)
              match s_pending s with
              | [] => (PEnd, {| s_pending := []; s_uterm := true; s_buf := s_buf s; s_data := s_data s; s_state := Terminated |}, [])
              | p => if well_formed p
                     then (* cannot happen: pending never holds a complete scalar; kept for totality *)
                       es_poll f {| s_pending := []; s_uterm := true; s_buf := s_buf s ++ p; s_data := s_data s; s_state := Started |} []
                     else (PReady ErrUtf8, {| s_pending := []; s_uterm := true; s_buf := s_buf s; s_data := s_data s; s_state := s_state s |}, [])
              end
          | Chunk c :: rest =>
              let (str, pend) := utf8_feed (s_pending s) c in
              match str with
              | [] => es_poll f {| s_pending := pend; s_uterm := false; s_buf := s_buf s; s_data := s_data s; s_state := s_state s |} rest
              | _ =>
                  match s_state s with
                  | Started =>
                      es_poll f {| s_pending := pend; s_uterm := false; s_buf := s_buf s ++ str; s_data := s_data s; s_state := Started |} rest
                  | _ =>
                      if is_prefix BOM str
                      then (PReady Panic, s, rest)
                      else es_poll f {| s_pending := pend; s_uterm := false; s_buf := s_buf s ++ str; s_data := s_data s; s_state := Started |} rest
                  end
              end
          end
        end
      end
  end.

(* drive oas3_gen_support::EventStream to the end, re-polling after Pending as an executor does *)
Fixpoint run_fuel (fuel : nat) (s : st) (script : list input) : list item :=
  match fuel with
  | O => []
  | S f =>
      match es_poll (S (length script)) s script with
      | (PReady Panic, _, _) => [Panic]
      | (PReady i, s', rest) => i :: run_fuel f s' rest
      | (PSkip, s', rest) => run_fuel f s' rest
      | (PPending, s', rest) => run_fuel f s' rest
      | (PEnd, _, _) => []
      end
  end.

Fixpoint script_size (script : list input) : nat :=
  match script with
  | [] => O
  | Chunk c :: r => (S (length c) + script_size r)%nat
  | Pending :: r => S (script_size r)
  end.

Definition run (script : list input) : list item := run_fuel (2 * script_size script + 4) st0 script.

(* ------------------------------------------------------------------ the HTML-standard reading *)

(* split a whole stream into lines at CRLF | CR | LF; an unterminated last line is dropped, as is a
   trailing lone CR-terminated line when nothing follows (the parser cannot know) — see Props/C20 *)
Fixpoint spec_lines_fuel (fuel : nat) (s : bytes) (cur : bytes) : list bytes :=
  match fuel with
  | O => []
  | S f =>
      match s with
      | [] => []
      | c :: r =>
          if Ascii.eqb c LF then rev cur :: spec_lines_fuel f r []
          else if Ascii.eqb c CR then
            match r with
            | d :: r' => if Ascii.eqb d LF then rev cur :: spec_lines_fuel f r' [] else rev cur :: spec_lines_fuel f r []
            | [] => [rev cur]            (* the standard: CR ends the line *)
            end
          else spec_lines_fuel f r (c :: cur)
      end
  end.
Definition spec_lines (s : bytes) : list bytes := spec_lines_fuel (S (length s)) s [].

Definition field_of_line (l : bytes) : option (bytes * bytes) :=
  match l with
  | [] => None
  | c :: _ =>
      if Ascii.eqb c COLON then None
      else let (name, rest) := span_name l in
           match rest with
           | _ :: e :: r2 => Some (name, if Ascii.eqb e SP then r2 else e :: r2)
           | _ => Some (name, [])
           end
  end.

Fixpoint spec_events (ls : list bytes) (d : bytes) : list bytes :=
  match ls with
  | [] => []
  | l :: r =>
      match l with
      | [] => (match d with [] => [] | _ => [strip_last_lf d] end) ++ spec_events r []
      | _ => match field_of_line l with
             | Some (name, v) => if bytes_eqb name DATA then spec_events r (d ++ v ++ [LF]) else spec_events r d
             | None => spec_events r d
             end
      end
  end.

(* "stream = [ bom ] *event": one leading BOM is ignored *)
Definition sse_spec (s : bytes) : list bytes :=
  let s' := if is_prefix BOM s then skipn 3 s else s in
  filter nonempty (spec_events (spec_lines s') []).

(* ------------------------------------------------------------------ bytes -> strings -> events *)

Fixpoint utf8_all (pending : bytes) (cs : list bytes) : list bytes * bytes :=
  match cs with
  | [] => ([], pending)
  | c :: r => let (s, p) := utf8_feed pending c in let (ss, p') := utf8_all p r in (s :: ss, p')
  end.

(* events delivered for a list of network chunks, and the undecodable tail left at the end *)
Definition events_of_chunks (cs : list bytes) : list bytes * bytes :=
  let (strs, p) := utf8_all [] cs in (fst (feed_all ([], []) strs), p).
