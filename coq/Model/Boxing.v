(* C10 — finite size of emitted types.
   Hand model of generator/schema_registry.rs: [collect] (which references of a schema are recorded as dependencies),
   utils/refs.rs [build_union_fingerprints], and [detect_cycles] (petgraph kosaraju_scc, filtered to components of
   size > 1 or with a self-loop: exactly "the node lies on a cycle").  Schemas are numbered in BTreeMap (name) order.
   A reference to a named schema is boxed iff the *target* is marked cyclic (type_resolver.rs / variants.rs /
   inline_resolver.rs all ask [graph().is_cyclic(target)]). *)
From Coq Require Import Relations List Bool NArith.
Import ListNotations.

(* ---------- abstract statement ---------- *)
Section Abstract.
  Variable node : Type.
  Variable dep : node -> node -> Prop.          (* dependency graph handed to the SCC marking *)
  Variable byval_pos : node -> node -> Prop.    (* mentions in a position that is by value unless boxed *)
  Definition cyclic (n : node) : Prop := clos_trans node dep n n.
  Definition byval (a b : node) : Prop := byval_pos a b /\ ~ cyclic b.
End Abstract.

(* ---------- executable model ---------- *)
Inductive sch :=
| SRef (n : N)                                   (* $ref: "#/components/.../<name>" *)
| SObj (props allof oneof anyof : list sch) (items addl : option sch) (disc : bool).   (* inline / component schema; disc: has a discriminator *)

Definition memN (x : N) (l : list N) : bool := existsb (N.eqb x) l.
Definition inclN (a b : list N) : bool := forallb (fun x => memN x b) a.
Definition set_eqN (a b : list N) : bool := inclN a b && inclN b a.
Fixpoint dedupN (l : list N) : list N :=
  match l with [] => [] | x :: r => if memN x r then dedupN r else x :: dedupN r end.

(* extract_union_fingerprint: the set of directly referenced names among the variants *)
Definition fingerprint (vs : list sch) : list N :=
  dedupN (flat_map (fun v => match v with SRef n => [n] | _ => [] end) vs).

(* build_union_fingerprints: scan schemas in name order, oneOf then anyOf, sets of >= 2 names that cover every
   variant, of schemas without a discriminator (fix 3a55828) (since fix: 'share a union type by its reference set only when every variant is a reference');
   later inserts overwrite *)
Definition fp_table := list (list N * N).
Fixpoint build_fp_from (i : N) (ss : list sch) : fp_table :=
  match ss with
  | [] => []
  | s :: r =>
      let here := match s with
                  | SObj _ _ o y _ _ k =>
                      flat_map (fun vs => let f := fingerprint vs in
                                          if negb k && Nat.leb 2 (length f) && Nat.eqb (length f) (length vs) then [(f, i)] else []) [o; y]
                  | SRef _ => []
                  end in
      here ++ build_fp_from (N.succ i) r
  end.
Definition build_fp (ss : list sch) : fp_table := build_fp_from 0 ss.
(* BTreeMap::get after overwriting inserts = the last inserted entry with an equal key *)
Definition fp_lookup (t : fp_table) (f : list N) : option N :=
  match find (fun e => set_eqN (fst e) f) (rev t) with Some e => Some (snd e) | None => None end.

Definition fp_match (t : fp_table) (vs : list sch) : list N :=
  let f := fingerprint vs in
  match f with [] => [] | _ => match fp_lookup t f with Some n => [n] | None => [] end end.

(* collect / collect_ref: properties, anyOf ++ oneOf ++ allOf, fingerprint matches, items, additionalProperties
   (the last since the fix: commit 2636f9c) *)
Fixpoint cref (t : fp_table) (s : sch) : list N :=
  match s with
  | SRef n => [n]
  | SObj p a o y i d _ =>
      flat_map (cref t) p ++ flat_map (cref t) y ++ flat_map (cref t) o ++ flat_map (cref t) a
      ++ fp_match t o ++ fp_match t y
      ++ match i with Some x => cref t x | None => [] end
      ++ match d with Some x => cref t x | None => [] end
  end.
Definition collect (t : fp_table) (s : sch) : list N :=
  match s with SRef _ => [] | SObj _ _ _ _ _ _ _ => cref t s end.

Fixpoint deps_from (t : fp_table) (i : N) (ss : list sch) : list (N * N) :=
  match ss with
  | [] => []
  | s :: r => map (fun d => (i, d)) (collect t s) ++ deps_from t (N.succ i) r
  end.
Definition deps (ss : list sch) : list (N * N) := deps_from (build_fp ss) 0 ss.

(* reachability by saturation with a closedness check (conservative if the fuel did not suffice) *)
Definition succs (es : list (N * N)) (S : list N) : list N :=
  map snd (filter (fun e => memN (fst e) S) es).
Fixpoint saturate (fuel : nat) (es : list (N * N)) (S : list N) : list N :=
  match fuel with O => S | Datatypes.S f => saturate f es (dedupN (S ++ succs es S)) end.
Definition closedb (es : list (N * N)) (S : list N) : bool :=
  forallb (fun e => implb (memN (fst e) S) (memN (snd e) S)) es.
Definition cyclicb (es : list (N * N)) (n : N) : bool :=
  let S := saturate (length es) es (succs es [n]) in
  if closedb es S then memN n S else true.

Definition edge (es : list (N * N)) (a b : N) : Prop := In (a, b) es.

(* what the harness compares with the emitted code: per schema its recorded dependencies and the cyclic marks *)
Definition marks (ss : list sch) : list (N * bool) :=
  let es := deps ss in
  map (fun i => (N.of_nat i, cyclicb es (N.of_nat i))) (seq 0 (length ss)).
Definition mark_of (ss : list sch) (n : N) : bool := cyclicb (deps ss) n.

(* ---------- C07: reachability from the selected operations (SchemaRegistry::reachable) ---------- *)
(* an operation, as far as SchemaRegistry::reachable looks at it: the schemas of its path item's and its own
   parameters, of its request body's media types and of its responses' media types *)
Definition op := list sch.
Definition seeds (t : fp_table) (ops : list op) : list N := flat_map (flat_map (cref t)) ops.
(* the expanded set, and whether the saturation closed within its fuel (it always does; the harness checks) *)
Definition reach (ss : list sch) (ops : list op) : list N * bool :=
  let es := deps ss in
  let S := saturate (length es) es (dedupN (seeds (build_fp ss) ops)) in
  (S, closedb es S).
