(* Path templates: model of ast/parsed_path.rs (tokenizer, segments, axum pattern). Shared by C03/C05. *)
From OAS Require Import Lib.Str.
Local Open Scope list_scope.

Inductive part : Type := PLit (s : string) | PPar (name : string).

Definition flush (acc : string) (l : list part) : list part :=
  match acc with EmptyString => l | _ => PLit (srev acc) :: l end.

Definition LB : ascii := "{"%char.
Definition RB : ascii := "}"%char.

(* PathSegment::tokenize; None = any PathParseError *)
Fixpoint tokenize_go (s : string) (inpar : bool) (acc : string) : option (list part) :=
  match s with
  | EmptyString => if inpar then None else Some (flush acc [])
  | String c r =>
      if inpar then
        if Ascii.eqb c RB then
          match acc with
          | EmptyString => None
          | _ => match tokenize_go r false "" with Some l => Some (PPar (srev acc) :: l) | None => None end
          end
        else if Ascii.eqb c LB then None
        else tokenize_go r true (String c acc)
      else
        if Ascii.eqb c LB then
          match tokenize_go r true "" with Some l => Some (flush acc l) | None => None end
        else if Ascii.eqb c RB then None
        else tokenize_go r false (String c acc)
  end.
Definition tokenize (seg : string) : option (list part) := tokenize_go seg false "".

(* split on a character, keeping empty pieces *)
Fixpoint split_on_acc (c : ascii) (s : string) (cur : string) : list string :=
  match s with
  | EmptyString => [srev cur]
  | String a r => if Ascii.eqb a c then srev cur :: split_on_acc c r "" else split_on_acc c r (String a cur)
  end.
Definition split_on (c : ascii) (s : string) : list string := split_on_acc c s "".

Definition path_part (path : string) : string :=
  match split_at "?"%char path with Some (p, _) => p | None => path end.

(* ParsedPath::parse: segments of the template (None if any segment fails to tokenize) *)
Fixpoint all_some {A} (l : list (option A)) : option (list A) :=
  match l with
  | [] => Some []
  | Some x :: r => match all_some r with Some xs => Some (x :: xs) | None => None end
  | None :: _ => None
  end.

Definition parse_path (path : string) : option (list (list part)) :=
  all_some (map tokenize (filter (fun s => negb (String.eqb s "")) (split_on "/"%char (path_part path)))).

(* to_axum_segment, with [field] = Rust field name of the declared parameter (or the raw name) *)
Definition axum_segment (field : string -> string) (ps : list part) : string :=
  String.concat "" (map (fun p => match p with PLit l => l | PPar n => ("{" ++ field n ++ "}")%string end) ps).

Definition axum_path (field : string -> string) (segs : list (list part)) : string :=
  match segs with
  | [] => "/"
  | _ => String.concat "" (map (fun s => ("/" ++ axum_segment field s)%string) segs)
  end.

Definition no_brace (s : string) : bool := sall (fun c => negb (Ascii.eqb c LB || Ascii.eqb c RB)) s.
Definition parts_ok (ps : list part) : bool :=
  forallb (fun p => match p with PLit l => no_brace l | PPar n => no_brace n end) ps.
