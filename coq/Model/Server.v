(* C05/C06 — model of codegen/server.rs: router table, response status/encoding; tables from Gen/. *)
From OAS Require Import Lib.Str Gen.StatusTable Gen.Content Gen.Methods Model.HttpConsts Model.Media Model.Responses Model.Path.
Local Open Scope list_scope.

Definition route_fn (m : string) : string :=
  match assoc m route_fn_table with Some f => f | None => route_fn_default end.

Record sop : Type := { so_path : string; so_method : string; so_handler : string }.   (* axum path, METHOD, fn name *)

(* BTreeMap<String, Vec<_>> insertion keeping per-key order *)
Fixpoint bt_insert (k : string) (v : string * string) (m : list (string * list (string * string))) :=
  match m with
  | [] => [(k, [v])]
  | (k', vs) :: r =>
      if String.eqb k k' then (k', vs ++ [v]) :: r
      else if String.ltb k k' then (k, [v]) :: m
      else (k', vs) :: bt_insert k v r
  end.

Definition route_table (ops : list sop) : list (string * list (string * string)) :=
  fold_left (fun m o => bt_insert (so_path o) (route_fn (so_method o), so_handler o) m) ops [].

Definition flat_routes (t : list (string * list (string * string))) : list (string * string * string) :=
  flat_map (fun kv => map (fun v => (fst kv, fst v, snd v)) (snd kv)) t.

(* status the generated IntoResponse sends for a variant of token t *)
Definition server_status (t : tok) : option N := http_value (tok_http_status t).

(* does the status a token's variant is sent with satisfy the client's condition for the same token? *)
Definition status_roundtrip (t : tok) : bool :=
  match server_status t with Some c => cond_holds (tok_condition t) c | None => false end.

(* the encoder the generated IntoResponse uses for a variant's payload: `cat` is the content category of the variant's
   first media type, `ty` the payload's primitive ("String" stands for String / &'static str, "Bytes" for Vec<u8>),
   `plain` says the payload type is not optional, an array or boxed. "raw" = the value itself (axum labels a String
   text/plain and bytes application/octet-stream). Table from Gen/Methods.v. *)
Definition payload_encoder (cat ty : string) (plain : bool) : string :=
  if plain && existsb (fun r => String.eqb (fst r) cat && String.eqb (snd r) ty) server_raw_payload then "raw"
  else server_payload_encoder.
