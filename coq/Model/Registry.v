(* C08 — hand model of operation_registry.rs + naming/operations.rs::trim_common_affixes.
   An operation is represented by its *base id* (compute_stable_id, i.e. C09's field-name sanitiser
   applied to operationId or to method_path); positions in the list identify operations. *)
From OAS Require Import Lib.Str.
Local Open Scope list_scope.

(* ---------------------------------------------------------------- snake segments *)

Fixpoint split_us_acc (s : string) (cur : string) : list string :=
  match s with
  | EmptyString => [srev cur]
  | String c r => if Ascii.eqb c "_"%char then srev cur :: split_us_acc r "" else split_us_acc r (String c cur)
  end.
(* split('_').filter(non-empty) *)
Definition split_snake (s : string) : list string :=
  filter (fun x => negb (String.eqb x "")) (split_us_acc s "").

Definition join_us (l : list string) : string := String.concat "_" l.

Fixpoint common_prefix_len (first : list string) (rest : list (list string)) : nat :=
  match first with
  | [] => O
  | seg :: f' =>
      if forallb (fun o => match o with x :: _ => String.eqb x seg | [] => false end) rest
      then S (common_prefix_len f' (map (@tl string) rest)) else O
  end.

Definition common_suffix_len (first : list string) (rest : list (list string)) : nat :=
  common_prefix_len (rev first) (map (@rev string) rest).

Definition extract_middle (segs : list string) (p s : nat) : string :=
  let end_idx := (length segs - s)%nat in
  join_us (if Nat.ltb p end_idx then firstn (end_idx - p) (skipn p segs) else segs).

Fixpoint shrink (fuel p s min_len : nat) : nat * nat :=
  match fuel with
  | O => (p, s)
  | S f => if Nat.leb min_len (p + s) && (Nat.ltb 0 p || Nat.ltb 0 s)
           then (if Nat.ltb 0 s then shrink f p (s - 1) min_len else shrink f (p - 1) s min_len)
           else (p, s)
  end.

Fixpoint nodup_strings (l : list string) : bool :=
  match l with [] => true | x :: r => negb (mem x r) && nodup_strings r end.

Definition all_non_empty_and_unique (l : list string) : bool :=
  forallb (fun x => negb (String.eqb x "")) l && nodup_strings l.

(* (since the fix: commit for ids trimmed to numbers) a trimmed id must not start with a digit *)
Definition starts_with_digit (s : string) : bool :=
  match s with
  | String c _ => let n := Ascii.nat_of_ascii c in Nat.leb 48 n && Nat.leb n 57
  | EmptyString => false
  end.

Definition trim_common_affixes (ids : list string) : list string :=
  match ids with
  | [] | [_] => ids
  | _ =>
      let segs := map split_snake ids in
      match segs with
      | [] => ids
      | first :: rest =>
          let p0 := common_prefix_len first rest in
          let s0 := common_suffix_len first rest in
          if Nat.eqb p0 0 && Nat.eqb s0 0 then ids else
          let min_len := fold_right Nat.min (length first) (map (@length string) rest) in
          let (p, s) := shrink (p0 + s0) p0 s0 min_len in
          if Nat.eqb p 0 && Nat.eqb s 0 then ids else
          let simplified := map (fun sg => extract_middle sg p s) segs in
          if all_non_empty_and_unique simplified && forallb (fun x => negb (starts_with_digit x)) simplified then simplified else ids
      end
  end.

(* ---------------------------------------------------------------- filter + ingest *)

Record filter_t : Type := { f_only : option (list string); f_excl : option (list string) }.

Definition accepts (f : filter_t) (base : string) : bool :=
  (match f_only f with Some s => mem base s | None => true end) &&
  (match f_excl f with Some s => negb (mem base s) | None => true end).

(* ensure_unique_snake_case_id: base, base_2, base_3, ... *)
Fixpoint unique_from (fuel : nat) (base : string) (i : N) (taken : list string) : string :=
  let cand := (base ++ "_" ++ dec_of_N i)%string in
  match fuel with
  | O => cand
  | S f => if mem cand taken then unique_from f base (i + 1) taken else cand
  end.
Definition ensure_unique_snake (base : string) (taken : list string) : string :=
  if mem base taken then unique_from (length taken) base 2 taken else base.

(* ingest: (position, base) list -> registered (position, stable id), in order *)
Fixpoint ingest (f : filter_t) (ops : list (nat * string)) (acc : list (nat * string)) : list (nat * string) :=
  match ops with
  | [] => acc
  | (i, b) :: r =>
      if accepts f b then ingest f r (acc ++ [(i, ensure_unique_snake b (map snd acc))]) else ingest f r acc
  end.

Fixpoint number {A} (k : nat) (l : list A) : list (nat * A) :=
  match l with [] => [] | x :: r => (k, x) :: number (S k) r end.

(* the registry for a filter: (operation position, final id) *)
Definition registry (f : filter_t) (bases : list string) : list (nat * string) :=
  let reg := ingest f (number 0 bases) [] in
  combine (map fst reg) (trim_common_affixes (map snd reg)).

Definition no_filter : filter_t := {| f_only := None; f_excl := None |}.

(* `list operations`: (id, position) rows of the unfiltered registry (printed sorted by id) *)
Definition list_rows (bases : list string) : list (nat * string) := registry no_filter bases.
(* positions of the operations emitted under a filter *)
Definition selected (f : filter_t) (bases : list string) : list nat := map fst (registry f bases).

Definition only (s : list string) : filter_t := {| f_only := Some s; f_excl := None |}.
Definition excl (s : list string) : filter_t := {| f_only := None; f_excl := Some s |}.

(* the property's reading: the operations whose `list` row carries an id in S *)
Definition denoted (bases : list string) (s : list string) : list nat :=
  map fst (filter (fun row => mem (snd row) s) (list_rows bases)).
