(* C03 — what goes on the wire: percent-encoding of path segments and the layout of array parameters.
   Bytes are N < 256.  [enc_segment] is a model of the url crate's PathSegmentsMut::push (PATH_SEGMENT encode set);
   [pct_decode] is RFC 3986 percent-decoding and is the ORACLE the harness applies to the segments really sent. *)
From Coq Require Import List Bool NArith Lia.
Import ListNotations.
Local Open Scope N_scope.

Definition hexdigit (n : N) : N := if n <? 10 then 48 + n else 55 + n.          (* 0-9 A-F *)
Definition unhex (c : N) : option N :=
  if (48 <=? c) && (c <=? 57) then Some (c - 48)
  else if (65 <=? c) && (c <=? 70) then Some (c - 55)
  else if (97 <=? c) && (c <=? 102) then Some (c - 87)
  else None.

(* bytes the PATH_SEGMENT set leaves alone: printable ASCII except space, double quote, # < > ? backtick { } / and percent *)
Definition seg_plain (b : N) : bool :=
  (33 <=? b) && (b <=? 126)
  && negb (existsb (N.eqb b) [34; 35; 60; 62; 63; 96; 123; 125; 47; 37]).

Definition enc_byte (b : N) : list N := if seg_plain b then [b] else [37; hexdigit (b / 16); hexdigit (b mod 16)].
Definition enc_segment (bs : list N) : list N := flat_map enc_byte bs.

Fixpoint pct_decode_fuel (fuel : nat) (s : list N) : list N :=
  match fuel with
  | O => []
  | S f =>
      match s with
      | [] => []
      | c :: r =>
          if N.eqb c 37 then
            match r with
            | h :: l :: r' =>
                match unhex h, unhex l with
                | Some a, Some b => (16 * a + b) :: pct_decode_fuel f r'
                | _, _ => c :: pct_decode_fuel f r
                end
            | _ => c :: pct_decode_fuel f r
            end
          else c :: pct_decode_fuel f r
      end
  end.
Definition pct_decode (s : list N) : list N := pct_decode_fuel (S (length s)) s.

Definition is_byte (b : N) : bool := b <? 256.
Definition no_delims (s : list N) : bool := forallb (fun c => negb (existsb (N.eqb c) [47; 63; 35])) s.   (* / ? # *)

(* ---------- array parameters ---------- *)
Inductive style := Form | SpaceDelimited | PipeDelimited | Simple.
Definition delimiter (st : style) : N :=
  match st with Form | Simple => 44 | SpaceDelimited => 32 | PipeDelimited => 124 end.

Fixpoint join (d : N) (vs : list (list N)) : list N :=
  match vs with [] => [] | [v] => v | v :: r => v ++ d :: join d r end.

(* the (name, value) pairs a query array parameter contributes; None = absent *)
Definition layout (st : style) (explode : bool) (name : list N) (values : option (list (list N))) : list (list N * list N) :=
  match values with
  | None => []
  | Some vs => if explode then map (fun v => (name, v)) vs else [(name, join (delimiter st) vs)]
  end.

(* splitting a joined value at the delimiter *)
Fixpoint split_acc (d : N) (s acc : list N) : list (list N) :=
  match s with
  | [] => [rev acc]
  | c :: r => if N.eqb c d then rev acc :: split_acc d r [] else split_acc d r (c :: acc)
  end.
Definition split (d : N) (s : list N) : list (list N) := split_acc d s [].
