(* C17 — model of codegen/coercion.rs (json_to_rust_literal) and of the three places a schema default is
   materialised: better_default's #[default(expr)] (=> T::default() and, through struct-level
   #[serde(default)], decoding a document that omits the member) and bon's builder. *)
From Coq Require Import ZArith.
From OAS Require Import Lib.Str.
Local Open Scope list_scope.

Inductive jv : Type := VNull | VBool (b : bool) | VInt (z : Z) | VStr (s : string) | VOther.   (* arrays, objects, floats *)

Inductive prim : Type :=
| PString | PBool
| PInt (bits : N) (signed : bool)     (* i8..i64, u8..u64 *)
| PFloat
| POther.                             (* enum types, Vec, custom structs, dates, uuid, bytes, Value *)

(* the rendered expression, by meaning *)
Inductive lit : Type :=
| LStr (s : string) | LBool (b : bool)
| LInt (z : Z)                        (* `<z><suffix>` *)
| LTypeDefault.                       (* `Default::default()` *)

Definition is_digit_string (s : string) : bool := negb (String.eqb s "") && sall is_digit s.

(* str::parse::<i64>(): optional sign, at least one digit, within range *)
Definition parse_int (s : string) : option Z :=
  match s with
  | String "-" r => if is_digit_string r then Some (- Z.of_N (dec_val r))%Z else None
  | String "+" r => if is_digit_string r then Some (Z.of_N (dec_val r)) else None
  | _ => if is_digit_string s then Some (Z.of_N (dec_val s)) else None
  end.

Definition i64_ok (z : Z) : bool := ((- 9223372036854775808 <=? z) && (z <=? 9223372036854775807))%Z.
Definition u64_ok (z : Z) : bool := ((0 <=? z) && (z <=? 18446744073709551615))%Z.

Definition coerce (v : jv) (p : prim) : lit :=
  match p with
  | PString => match v with
               | VStr s => LStr s
               | VInt z => LStr (match z with Z0 => "0" | Zpos q => dec_of_N (Npos q) | Zneg q => "-" ++ dec_of_N (Npos q) end)%string
               | VBool b => LStr (if b then "true" else "false")
               | _ => LTypeDefault
               end
  | PBool => match v with
             | VBool b => LBool b
             | VInt z => LBool (negb (Z.eqb z 0))
             | VStr s => LBool (mem (lower s) ["true"; "1"; "yes"])
             | _ => LTypeDefault
             end
  | PInt _ true => match v with
                   | VInt z => if i64_ok z then LInt z else LTypeDefault
                   | VStr s => match parse_int s with Some z => if i64_ok z then LInt z else LTypeDefault | None => LTypeDefault end
                   | _ => LTypeDefault
                   end
  | PInt _ false => match v with
                    | VInt z => if u64_ok z then LInt z else LTypeDefault
                    | VStr s => match parse_int s with
                                | Some z => if u64_ok z && negb (starts_with "-" s) then LInt z else LTypeDefault
                                | None => LTypeDefault end
                    | _ => LTypeDefault
                    end
  | PFloat => LTypeDefault    (* floats are outside the model: see Props/C17 *)
  | POther => LTypeDefault
  end.

(* json_to_rust_literal: None for JSON null, Some(expr) for nullable (Option) members *)
Inductive dexpr : Type := DNone | DSome (l : lit) | DBare (l : lit).
Definition json_to_rust_literal (v : jv) (p : prim) (nullable : bool) : dexpr :=
  match v with
  | VNull => DNone
  | _ => if nullable then DSome (coerce v p) else DBare (coerce v p)
  end.

(* does the typed literal fit its type? (otherwise rustc rejects it: overflowing_literals is deny-by-default) *)
Definition lit_fits (l : lit) (p : prim) : bool :=
  match l, p with
  | LInt z, PInt bits true => ((- 2 ^ (Z.of_N bits - 1) <=? z) && (z <? 2 ^ (Z.of_N bits - 1)))%Z
  | LInt z, PInt bits false => ((0 <=? z) && (z <? 2 ^ Z.of_N bits))%Z
  | _, _ => true
  end.

(* does the materialised value mean the declared default? *)
Definition means (l : lit) (v : jv) : bool :=
  match l, v with
  | LStr a, VStr b => String.eqb a b
  | LBool a, VBool b => Bool.eqb a b
  | LInt a, VInt b => Z.eqb a b
  | _, _ => false
  end.

(* with_builder_attrs: a bon default is attached only to non-Option members *)
Definition builder_gets_default (nullable hidden : bool) : bool := negb hidden && negb nullable.
