(* C13 — canonical-schema identity (converter/hashing.rs CanonicalSchema::from_schema): the schema is serialised to
   a JSON tree, arrays of strings directly under the keys required / type / enum are sorted
   (normalize_schema_semantics + sort_string_array_in_place), and the tree is written as RFC 8785 canonical JSON
   (object members ordered by key).  Two schemas share a cache entry iff the results are equal. *)
From Coq Require Import List Bool String ZArith.
From OAS Require Import Model.Sharing.
Import ListNotations.
Local Open Scope string_scope.
Local Open Scope list_scope.

Inductive jt := JS (s : string) | JN (z : Z) | JB (b : bool) | J0 | JA (l : list jt) | JO (l : list (string * jt)).

Definition set_key (k : string) : bool := String.eqb k "required" || String.eqb k "type" || String.eqb k "enum".

Fixpoint strings_of (l : list jt) : option (list string) :=
  match l with
  | [] => Some []
  | JS s :: r => match strings_of r with Some t => Some (s :: t) | None => None end
  | _ => None
  end.

(* insertion of an object member by key (stable) *)
Fixpoint kinsert (kv : string * jt) (l : list (string * jt)) : list (string * jt) :=
  match l with
  | [] => [kv]
  | x :: r => if String.leb (fst kv) (fst x) then kv :: l else x :: kinsert kv r
  end.
Fixpoint ksort (l : list (string * jt)) : list (string * jt) :=
  match l with [] => [] | kv :: r => kinsert kv (ksort r) end.

Fixpoint norm (t : jt) : jt :=
  match t with
  | JA l => JA (map norm l)
  | JO l =>
      JO (ksort (map (fun kv => match kv with
                                | (k, v) =>
                                    (k, match v with
                                        | JA items =>
                                            match (if set_key k then strings_of items else None) with
                                            | Some ss => JA (map JS (ssort ss))
                                            | None => JA (map norm items)
                                            end
                                        | _ => norm v
                                        end)
                                end) l))
  | _ => t
  end.
