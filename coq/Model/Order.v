(* C11 — the parse step erases key order: oas3 keeps every JSON/YAML object in a BTreeMap<String, _>.
   Model: building a key-sorted association list by successive insertion (later duplicate wins). *)
From Coq Require Import Permutation.
From OAS Require Import Lib.Str.
Local Open Scope list_scope.

Section Btree.
  Variable A : Type.

  Fixpoint ins (k : string) (v : A) (m : list (string * A)) : list (string * A) :=
    match m with
    | [] => [(k, v)]
    | (k', v') :: r =>
        if String.eqb k k' then (k, v) :: r
        else if String.ltb k k' then (k, v) :: m
        else (k', v') :: ins k v r
    end.

  Definition build (l : list (string * A)) : list (string * A) :=
    fold_left (fun m kv => ins (fst kv) (snd kv) m) l [].
End Btree.
Arguments ins {A}. Arguments build {A}.
