(* Hand model of converter/responses.rs (variants, handlers) and of the *semantics of the emitted
   parse_response method* (codegen/structs.rs ParseResponseMethodFragment and friends).
   Tables (status tokens, conditions, content categories and checks) come from Gen/. *)
From OAS Require Import Lib.Str Gen.StatusTable Gen.Content Model.HttpConsts Model.Media.
Local Open Scope list_scope.

(* ---------------------------------------------------------------- spec side *)

(* a media type's schema as far as response handling is concerned *)
Inductive sspec : Type :=
| SNone                      (* no schema, or an empty inline schema *)
| SRef (name : string)       (* $ref to a component whose Rust name is [name] *)
| SPrim (rust : string).     (* inline bare primitive, already as Rust text: String, i64, f64, bool *)

Definition response : Type := list (string * sspec).          (* content map, BTreeMap order *)
Definition responses : Type := list (string * response).      (* responses map, BTreeMap order *)

(* ---------------------------------------------------------------- key -> token *)

Definition tok_of_key (k : string) : tok :=
  let l := lower k in
  match assoc l tok_from_str_table with
  | Some t => t
  | None => match parse_u16 l with Some n => Unknown n | None => Default end
  end.

Definition tok_variant (t : tok) : string :=
  match t with
  | Unknown n => (tok_variant_unknown_prefix ++ dec_of_N n)%string
  | _ => tok_variant_name t
  end.

(* ---------------------------------------------------------------- variants *)

Record mtype : Type := { mt_cat : category; mt_schema : option string }.

Definition resolve (c : category) (succ : bool) (s : sspec) : option string :=
  if cat_eqb c CatBinary && succ then Some "Vec<u8>"
  else match s with SNone => None | SRef n => Some n | SPrim p => Some p end.

Definition default_media_type : string := "application/json".

Definition media_types (t : tok) (content : response) : list mtype :=
  match content with
  | [] => [ {| mt_cat := category_of default_media_type; mt_schema := None |} ]
  | _ => map (fun cs => let c := category_of (fst cs) in
                        {| mt_cat := c; mt_schema := resolve c (tok_is_success t) (snd cs) |}) content
  end.

Definition primary_category (ms : list mtype) : category :=
  match ms with [] => CatJson | m :: _ => mt_cat m end.

Definition gkey (m : mtype) : option string :=
  match mt_schema m with
  | None => None
  | Some t => Some (if cat_eqb (mt_cat m) CatEventStream
                    then ("oas3_gen_support::EventStream<" ++ t ++ ">")%string else t)
  end.

Fixpoint group_insert (k : string) (m : mtype) (gs : list (string * list mtype)) :=
  match gs with
  | [] => [(k, [m])]
  | (k', ms) :: r => if String.eqb k k' then (k', ms ++ [m]) :: r else (k', ms) :: group_insert k m r
  end.

Definition group_media (ms : list mtype) : list (string * list mtype) :=
  fold_left (fun gs m => match gkey m with None => gs | Some k => group_insert k m gs end) ms [].

Fixpoint cat_mem (c : category) (l : list category) : bool :=
  match l with [] => false | x :: r => cat_eqb c x || cat_mem c r end.

Fixpoint cats_nodup (l : list category) : bool :=
  match l with [] => true | x :: r => negb (cat_mem x r) && cats_nodup r end.

Record variant : Type := {
  v_tok : tok; v_name : string; v_media : list mtype; v_schema : option string;
  v_key : string  (* provenance: the responses key it was generated from; "" = synthetic *)
}.

Definition split_variants (key : string) (t : tok) (base : string) (ms : list mtype) : list variant :=
  let g := group_media ms in
  match g with
  | [] => [ {| v_tok := t; v_name := base; v_media := ms; v_schema := None; v_key := key |} ]
  | _ =>
      let needs := Nat.ltb 1 (length g) in
      let dup := needs && negb (cats_nodup (map (fun kt => primary_category (snd kt)) g)) in
      map (fun kt =>
             let pc := primary_category (snd kt) in
             {| v_tok := t;
                v_name := if needs then (if dup then (base ++ fst kt)%string else (base ++ category_suffix pc)%string) else base;
                v_media := snd kt; v_schema := Some (fst kt); v_key := key |}) g
  end.

Definition variants_of_entry (e : string * response) : list variant :=
  let t := tok_of_key (fst e) in
  split_variants (fst e) t (tok_variant t) (media_types t (snd e)).

Definition unknown_variant : variant :=
  {| v_tok := Default; v_name := "Unknown";
     v_media := [ {| mt_cat := category_of default_media_type; mt_schema := None |} ];
     v_schema := None; v_key := "" |}.

Definition with_default_variant (vs : list variant) : list variant :=
  match vs with
  | [] => []
  | _ => if existsb (fun v => tok_is_default (v_tok v)) vs then vs else vs ++ [unknown_variant]
  end.

Definition all_variants (rs : responses) : list variant :=
  with_default_variant (flat_map variants_of_entry rs).

(* ---------------------------------------------------------------- handlers *)

Record vcase : Type := { vc_cat : category; vc_var : variant }.

Inductive dispatch : Type :=
| Single (c : vcase)
| ContentDispatch (streams others : list vcase).

Record handler : Type := { h_tok : tok; h_disp : dispatch }.

Definition tok_eqb (a b : tok) : bool :=
  match a, b with
  | Unknown x, Unknown y => N.eqb x y
  | Unknown _, _ | _, Unknown _ => false
  | _, _ => String.eqb (tok_as_str a) (tok_as_str b)
  end.

Fixpoint tgroup_insert (v : variant) (gs : list (tok * list variant)) :=
  match gs with
  | [] => [(v_tok v, [v])]
  | (t, vs) :: r => if tok_eqb (v_tok v) t then (t, vs ++ [v]) :: r else (t, vs) :: tgroup_insert v r
  end.

Definition group_by_tok (vs : list variant) : list (tok * list variant) :=
  fold_left (fun gs v => tgroup_insert v gs) vs [].

Fixpoint vc_mem (c : category) (n : string) (l : list vcase) : bool :=
  match l with
  | [] => false
  | x :: r => (cat_eqb c (vc_cat x) && String.eqb n (v_name (vc_var x))) || vc_mem c n r
  end.

(* unique_by (category, variant name), keeping first occurrences *)
Fixpoint vc_unique (l : list vcase) (seen : list vcase) : list vcase :=
  match l with
  | [] => []
  | x :: r => if vc_mem (vc_cat x) (v_name (vc_var x)) seen then vc_unique r seen
              else x :: vc_unique r (x :: seen)
  end.

Definition from_content_types (g : list variant) : dispatch :=
  let all := flat_map (fun v =>
      (match v_media v with [] => [ {| vc_cat := primary_category []; vc_var := v |} ] | _ => [] end)
      ++ map (fun m => {| vc_cat := mt_cat m; vc_var := v |}) (v_media v)) g in
  let u := vc_unique all [] in
  ContentDispatch (filter (fun c => cat_eqb (vc_cat c) CatEventStream) u)
                  (filter (fun c => negb (cat_eqb (vc_cat c) CatEventStream)) u).

Fixpoint cats_unique_count (l : list category) (seen : list category) : nat :=
  match l with
  | [] => O
  | x :: r => if cat_mem x seen then cats_unique_count r seen else S (cats_unique_count r (x :: seen))
  end.

Definition from_variants (g : list variant) : dispatch :=
  match g with
  | [v] => if Nat.leb (cats_unique_count (map mt_cat (v_media v)) []) 1
           then Single {| vc_cat := primary_category (v_media v); vc_var := v |}
           else from_content_types g
  | _ => from_content_types g
  end.

Definition build_handlers (vs : list variant) : list handler * option vcase :=
  let dv := filter (fun v => tok_is_default (v_tok v)) vs in
  let sv := filter (fun v => negb (tok_is_default (v_tok v))) vs in
  (map (fun tg => {| h_tok := fst tg; h_disp := from_variants (snd tg) |}) (group_by_tok sv),
   match dv with [] => None | v :: _ => Some {| vc_cat := primary_category (v_media v); vc_var := v |} end).

Definition gen (rs : responses) : list handler * option vcase := build_handlers (all_variants rs).

(* ---------------------------------------------------------------- semantics of emitted code *)

Inductive extraction : Type :=
| ENone | EJson (t : string) | EXml (t : string) | EText | ETextParse (t : string) | EBytes | EStream (t : string).

Definition prim_names : list string :=
  ["i8"; "i16"; "i32"; "i64"; "i128"; "isize"; "u8"; "u16"; "u32"; "u64"; "u128"; "usize"; "f32"; "f64"; "bool";
   "String"; "Vec<u8>"; "chrono::NaiveDate"; "chrono::DateTime<chrono::Utc>"; "chrono::NaiveTime";
   "chrono::Duration"; "uuid::Uuid"; "serde_json::Value"; "()"].

Definition is_custom (t : string) : bool := negb (mem t prim_names).

Definition extraction_of (c : category) (schema : option string) : extraction :=
  match schema with
  | None => ENone
  | Some t =>
      match c with
      | CatText => if String.eqb t "String" then EText else if is_custom t then EJson t else ETextParse t
      | CatBinary => if String.eqb t "Vec<u8>" then EBytes else EJson t
      | CatEventStream => EStream t
      | CatXml => EXml t
      | _ => EJson t
      end
  end.

(* what the caller observes: the chosen enum variant, how its payload is extracted, and (ghost) the
   responses key the variant was generated from *)
Record outcome : Type := { o_variant : string; o_extract : extraction; o_key : string }.

Definition run_case (c : vcase) : outcome :=
  {| o_variant := v_name (vc_var c); o_extract := extraction_of (vc_cat c) (v_schema (vc_var c));
     o_key := v_key (vc_var c) |}.

Definition http_value (h : hstatus) : option N :=
  match h with
  | HConst name => http_const name
  | HFromU16OrISE n => if from_u16_ok n then Some n else http_const "INTERNAL_SERVER_ERROR"
  end.

Definition cond_holds (c : scond) (code : N) : bool :=
  match c with
  | SCTrue => true
  | SCFalse => false
  | SCMethod m => match status_class_method m code with Some b => b | None => false end
  | SCEqHttp h => match http_value h with Some v => N.eqb code v | None => false end
  end.

(* every table entry must be interpretable — checked as a theorem over Gen/ *)
Definition cond_wf (c : scond) : bool :=
  match c with
  | SCTrue | SCFalse => true
  | SCMethod m => match status_class_method m 0 with Some _ => true | None => false end
  | SCEqHttp h => match http_value h with Some _ => true | None => false end
  end.

Fixpoint first_case (p : vcase -> bool) (l : list vcase) : option vcase :=
  match l with [] => None | c :: r => if p c then Some c else first_case p r end.

Definition run_dispatch (d : dispatch) (ct : option string) : option outcome :=
  match d with
  | Single c => Some (run_case c)
  | ContentDispatch streams others =>
      let s := match ct with Some s => s | None => dispatch_default_content_type end in
      match first_case (fun _ => ceval dispatch_stream_check s) streams with
      | Some c => Some (run_case c)
      | None => match first_case (fun c => ceval (category_check (vc_cat c)) s) others with
                | Some c => Some (run_case c)
                | None => None
                end
      end
  end.

Fixpoint parse_handlers (hs : list handler) (code : N) (ct : option string) : option outcome :=
  match hs with
  | [] => None
  | h :: r =>
      if cond_holds (tok_condition (h_tok h)) code then
        match run_dispatch (h_disp h) ct with
        | Some o => Some o
        | None => parse_handlers r code ct
        end
      else parse_handlers r code ct
  end.

Definition fallback_outcome (d : option vcase) : outcome :=
  match d with
  | Some c => run_case c
  | None => {| o_variant := "Unknown"; o_extract := ENone; o_key := "" |}
  end.

Definition parse (g : list handler * option vcase) (code : N) (ct : option string) : outcome :=
  match parse_handlers (fst g) code ct with
  | Some o => o
  | None => fallback_outcome (snd g)
  end.

(* ---------------------------------------------------------------- the property's own reading *)

Definition exact_key (code : N) : string := dec_of_N code.
Definition range_key (code : N) : string := (dec_of_N (code / 100) ++ "XX")%string.

Definition dispatch_of_entry (e : string * response) : dispatch := from_variants (variants_of_entry e).

Definition try_key (rs : responses) (k : string) (ct : option string) : option outcome :=
  match assoc k rs with
  | Some r => run_dispatch (dispatch_of_entry (k, r)) ct
  | None => None
  end.

Definition default_outcome (rs : responses) : outcome :=
  match assoc "default" rs with
  | Some r => match variants_of_entry ("default", r) with
              | v :: _ => run_case {| vc_cat := primary_category (v_media v); vc_var := v |}
              | [] => fallback_outcome None
              end
  | None => match rs with
            | [] => fallback_outcome None
            | _ => run_case {| vc_cat := primary_category (v_media unknown_variant); vc_var := unknown_variant |}
            end
  end.

(* exact status first, then the NXX range, then default / synthetic Unknown *)
Definition spec_parse (rs : responses) (code : N) (ct : option string) : outcome :=
  match try_key rs (exact_key code) ct with
  | Some o => o
  | None => match try_key rs (range_key code) ct with
            | Some o => o
            | None => default_outcome rs
            end
  end.

(* the key universe of the property: three-digit codes 100..599, 1XX..5XX, default *)
Definition codes : list N := map N.of_nat (seq 100 500).
Definition key_universe : list string :=
  map exact_key codes ++ ["1XX"; "2XX"; "3XX"; "4XX"; "5XX"; "default"].

Definition valid_rs (rs : responses) : bool :=
  sorted_keys (map fst rs) && forallb (fun k => mem k key_universe) (map fst rs).

Definition key_covers (k : string) (code : N) : bool :=
  String.eqb k (exact_key code) || String.eqb k (range_key code) || String.eqb k "default".

(* ---------------------------------------------------------------- printing for the correspondence *)

Definition extraction_show (e : extraction) : string :=
  match e with
  | ENone => "null" | EJson t => ("json:" ++ t)%string | EXml t => ("xml:" ++ t)%string | EText => "text"
  | ETextParse t => ("text_parse:" ++ t)%string | EBytes => "bytes" | EStream t => ("stream:" ++ t)%string
  end.

Definition cond_show (c : scond) : string :=
  match c with
  | SCTrue => "true" | SCFalse => "false"
  | SCMethod m => ("method:" ++ m)%string
  | SCEqHttp (HConst n) => ("eq:" ++ n)%string
  | SCEqHttp (HFromU16OrISE n) => ("eq_u16:" ++ dec_of_N n)%string
  end.
