"""C19 — text from the spec never turns into code."""
import copy, glob, json, os, random, re
import vlib, specgen, inv, arena
from vlib import Result, log

THEOREMS = ["C19_display_escaped", "C19_display_unescaped_refuted", "C19_mixed_path", "C19_nonvacuous", "C19_doc_lines_single",
            "C19_doc_phys_lines_single", "C19_doc_phys_lines_content", "C19_doc_tokens_single", "C19_doc_tokens_content", "C19_doc_lines_unnormalized_refuted", "C19_doc_nonvacuous"]
TARGETS = ["Props/C19.v"]
INERT = "INERTxq7"

PAYLOADS = [
    'a"b', "a\\b", 'a\\"b', "*/ x /*", "]", "#[derive(Evil)]", "{}", "{0}", "{{", "}", '"#', "r#\"x\"#", "line1\nline2", "a\r\nb", "a\rb", "x\r",
    "nul\u0000x", "‮evil", "'", "//c", "/*c", "`tick`", "${x}", "; fn pwn() {}", "\")]; struct P;", "<T>", "\t", "é日😀",
]
LONG = "L" * 65536
# valid regular expressions that try to leave a (raw) string literal
# text that starts like a number but is not one
NUMTEXT_PAYLOADS = ["7 * 24 * 3600", "1 + spec_injected_fn() - 1", "9; fn pwn() {}", "1u8 as i64", "0x10", "1_000", "3.0e2 + 1.0", "12 /* c */", "true && panic!()", "1) , (2"]
PATTERN_PAYLOADS = ['^href="# // [a-z]+$', 'a"#.repeat(3).as_str() // "', 'x"##y"###z', 'q"# ; let _x = 1; //', "^a\\d+\"$", "r#\"x\"#", "[\"']+", "^\\\\$"]


def templates(text):
    """(macro, template literal) of every format-style macro invocation in an emitted file"""
    out = []
    for m in re.finditer(r'\b(format|write|writeln|print|println|eprint|eprintln|panic|format_args|unreachable|todo|unimplemented|assert|debug_assert|anyhow|bail)!\s*\(\s*(?:[A-Za-z_][\w.]*\s*,\s*)?"((?:[^"\\]|\\.)*)"', text):
        out.append((m.group(1), m.group(2)))
    return out


def placeholders(tpl):
    """the placeholders of a std::fmt template ('{{' and '}}' are escapes); None if it is malformed"""
    # the text is Rust source of a string literal: escapes (\u{..}, \n, \", \\) are not template syntax
    tpl = re.sub(r"\\u\{[0-9a-fA-F_]+\}", "?", tpl)
    tpl = re.sub(r"\\.", "?", tpl)
    out, i = [], 0
    while i < len(tpl):
        c = tpl[i]
        if c == "{":
            if tpl[i + 1:i + 2] == "{":
                i += 2
                continue
            j = tpl.find("}", i)
            if j < 0:
                return None
            out.append(tpl[i + 1:j])
            i = j + 1
        elif c == "}":
            if tpl[i + 1:i + 2] == "}":
                i += 2
                continue
            return None
        else:
            i += 1
    return out


def base_spec():
    return {
        "openapi": "3.1.0",
        "info": {"title": "T " + INERT, "version": "1", "description": "D " + INERT},
        "servers": [{"url": "https://example.com/" + "base"}],
        "paths": {"/items": {"post": {"operationId": "createItem", "requestBody": {"required": True, "content": {"application/json": {"schema": {"$ref": "#/components/schemas/NewItem"}}}},
                                      "responses": {"204": {"description": "made"}}}},
                  "/items/{id}": {
            "get": {"operationId": "getItem", "summary": "S " + INERT, "description": "OD " + INERT,
                    "parameters": [{"name": "id", "in": "path", "required": True, "description": "PD " + INERT, "schema": {"type": "string", "default": "dflt"}},
                                   {"name": "X-H", "in": "header", "description": "HD " + INERT, "schema": {"type": "string", "example": "ex"}}],
                    "responses": {"200": {"description": "RD " + INERT, "content": {"application/json": {"schema": {"$ref": "#/components/schemas/Item"}}}}}},
            # same response set as getItem (one shared response enum): its texts are varied independently of getItem's
            "put": {"operationId": "replaceItem", "parameters": [{"name": "id", "in": "path", "required": True, "schema": {"type": "string"}}],
                    "requestBody": {"required": True, "content": {"application/json": {"schema": {"$ref": "#/components/schemas/NewItem"}}}},
                    "responses": {"200": {"description": "RD " + INERT, "content": {"application/json": {"schema": {"$ref": "#/components/schemas/Item"}}}}}}}},
        "components": {"schemas": {
            "NewItem": {"type": "object", "properties": {"code": {"type": "string", "pattern": "^abc$"}, "label": {"type": "string", "default": "lb", "maxLength": 40},
                                                         "count": {"type": "integer", "default": "n/a"}, "size": {"type": "integer", "format": "int32", "minimum": 0, "default": "n/a"},
                                                         "ratio": {"type": "number", "default": "n/a"}, "on": {"type": "boolean", "default": "n/a"}}},
            "Item": {"type": "object", "description": "SD " + INERT, "title": "ItemTitle",
                     "properties": {"name": {"type": "string", "description": "FD " + INERT, "default": "nm", "example": "ex2"},
                                    "kind": {"type": "string", "enum": ["alpha", "beta"], "description": "ED " + INERT, "default": "alpha"},
                                    "tier": {"allOf": [{"$ref": "#/components/schemas/Kind"}], "default": "one"},
                                    "fixed": {"type": "string", "const": "cv"},
                                    "code": {"type": "string", "pattern": "^abc$"}}},
            "Kind": {"type": "string", "enum": ["one", "two"]},
            # const variants whose texts are already identifier-shaped and share an affix (the variant names are trimmed)
            "SortOrder": {"oneOf": [{"const": "SortAscending"}, {"const": "SortDescending"}]},
            "Pet": {"oneOf": [{"$ref": "#/components/schemas/Cat"}, {"$ref": "#/components/schemas/Dog"}],
                    "discriminator": {"propertyName": "t", "mapping": {"cat": "#/components/schemas/Cat", "dog": "#/components/schemas/Dog", "hound": "#/components/schemas/Dog"}}},
            "Cat": {"type": "object", "required": ["t"], "properties": {"t": {"type": "string"}, "m": {"type": "boolean"}}},
            "Dog": {"type": "object", "required": ["t"], "properties": {"t": {"type": "string"}, "b": {"type": "boolean"}}},
        }},
    }


# positions: (name, setter(spec, text), kind) ; kind: "text" = must stay inside literals/docs, skeleton with identifiers
# must be unchanged; "ident" = the text is also the source of an identifier (compare skeletons with identifiers erased)
def P(path, kind="text", wrap=lambda t: t):
    def setter(spec, text):
        cur = spec
        for k in path[:-1]:
            cur = cur[k]
        cur[path[-1]] = wrap(text)
    cur = base_spec()
    for k in path:
        cur = cur[k]
    return ("/".join(str(p) for p in path), setter, kind, cur)     # cur = the inert text at this position


def _rename_mapping_key(spec, text):
    m = spec["components"]["schemas"]["Pet"]["discriminator"]["mapping"]
    m[text] = m.pop("hound")


POSITIONS = [
    # a discriminator tag (a KEY of the mapping) next to another tag of the same schema
    ("components/schemas/Pet/discriminator/mapping#key", _rename_mapping_key, "text", "hound"),
    P(["components", "schemas", "SortOrder", "oneOf", 0, "const"], kind="ident"),
    P(["info", "title"], kind="ident"), P(["info", "description"]),
    P(["paths", "/items/{id}", "get", "summary"]), P(["paths", "/items/{id}", "get", "description"]),
    P(["paths", "/items/{id}", "get", "parameters", 0, "description"]), P(["paths", "/items/{id}", "get", "parameters", 1, "description"]),
    P(["paths", "/items/{id}", "get", "responses", "200", "description"]),
    P(["components", "schemas", "Item", "description"]), P(["components", "schemas", "Item", "properties", "name", "description"]),
    P(["components", "schemas", "Item", "properties", "name", "default"]), P(["components", "schemas", "Item", "properties", "name", "example"]),
    P(["components", "schemas", "Item", "properties", "fixed", "const"]),
    P(["paths", "/items/{id}", "get", "parameters", 0, "schema", "default"]),
    P(["paths", "/items/{id}", "get", "parameters", 1, "schema", "example"]),
    P(["components", "schemas", "Item", "properties", "code", "pattern"], wrap=lambda t: "^" + re.escape(t) + "$"),
    P(["components", "schemas", "NewItem", "properties", "code", "pattern"], kind="rawpattern"),
    P(["components", "schemas", "NewItem", "properties", "code", "pattern"], wrap=lambda t: "^" + re.escape(t) + "$"),
    P(["components", "schemas", "NewItem", "properties", "label", "default"]),
    # defaults of numeric / boolean members written as JSON strings (the text is coerced to a literal of the member's type)
    P(["components", "schemas", "NewItem", "properties", "count", "default"], kind="numtext"),
    P(["components", "schemas", "NewItem", "properties", "size", "default"], kind="numtext"),
    P(["components", "schemas", "NewItem", "properties", "ratio", "default"], kind="numtext"),
    P(["components", "schemas", "NewItem", "properties", "on", "default"], kind="numtext"),
    P(["paths", "/items/{id}", "put", "responses", "200", "description"]),
    # string defaults of enum-typed members (inline enum, referenced enum): also with the other declared value as the text
    P(["components", "schemas", "Item", "properties", "kind", "default"], kind="enumdefault"),
    P(["components", "schemas", "Item", "properties", "tier", "default"], kind="enumdefault"),
    P(["servers", 0, "url"], wrap=lambda t: "https://example.com/" + t),
    P(["components", "schemas", "Item", "properties", "kind", "enum", 1], kind="ident"),
    P(["components", "schemas", "Kind", "enum", 0], kind="ident"),
    P(["components", "schemas", "Item", "title"], kind="ident"),
]


def out_files(mode, outp):
    if mode.endswith("-mod"):
        return [os.path.join(outp, f) for f in sorted(os.listdir(outp))] if os.path.isdir(outp) else []
    return [outp] if os.path.exists(outp) else []


def main(tier, seed, replay=None):
    res = Result("C19", tier, seed)
    vlib.build_repo()
    vlib.build_vtool()
    coq_ok, out = vlib.standard_coq_obligations(res, TARGETS, THEOREMS, expect_closed=7)
    cur = inv.current()
    ok, detail, n, gone = inv.compare("splice", cur)
    res.oblige(f"inventory: every place where a String becomes tokens other than through a literal ({n} site keys) is in the reviewed list", ok, detail)
    rnd = random.Random(seed)
    d = vlib.scratch("C19")
    payloads = list(PAYLOADS)
    if tier == "quick":
        rnd.shuffle(payloads)
        payloads = payloads[:12] + ["{}", "*/ x /*", 'a"b']
        payloads = list(dict.fromkeys(payloads))
    else:
        payloads.append(LONG)
    modes = ["types", "client-mod", "server-mod"]
    POS_UNIQ = []
    for k, pos in enumerate(POSITIONS):
        POS_UNIQ.append((pos[0] + ("#raw" if pos[2] == "rawpattern" else ""),) + tuple(pos[1:]))
    jobs = [("inert", None, m) for m in modes] + [(pos[0], pl, m) for pos in POS_UNIQ for pl in (PATTERN_PAYLOADS if pos[2] == "rawpattern" else NUMTEXT_PAYLOADS if pos[2] == "numtext" else payloads + ["beta", "two", "Beta"] if pos[2] == "enumdefault" else payloads + (["v2/", "a//", "x*/"] if pos[0].startswith("servers") else [])) for m in modes]
    if replay:
        r = json.load(open(replay))
        jobs = [("inert", None, r["mode"])] + ([(r["position"], r["payload"], r["mode"])] if r["position"] != "doc-lines" else [])
    posmap = {p[0]: p for p in POS_UNIQ}

    def one(j):
        posname, pl, mode = j
        spec = base_spec()
        if pl is not None:
            posmap[posname][1](spec, pl)
        tag = f"{abs(hash((posname, pl))) % 10**9}_{mode}"
        sp = os.path.join(d, f"s_{tag}.json")
        json.dump(spec, open(sp, "w"))
        outp = os.path.join(d, f"o_{tag}" + ("" if mode.endswith("-mod") else ".rs"))
        rc, txt = vlib.oas(["generate", mode, "-i", sp, "-o", outp, "-q", "--all-schemas"], timeout=60)
        return rc, txt[-300:], out_files(mode, outp)
    results = vlib.pmap(one, jobs)
    allfiles = [f for r in results for f in r[2]]
    sk = {x["file"]: x for x in vlib.vtool_lines("skeleton", allfiles)}
    viol, known_hits = [], set()
    inert, inert_files = {}, {}
    for (posname, pl, mode), (rc, txt, files) in zip(jobs, results):
        if pl is None:
            inert_files[mode] = files
            inert[mode] = [sk[f] for f in files]
            if rc != 0 or any("error" in s for s in inert[mode]):
                viol.append((posname, pl, mode, f"inert run failed rc={rc} {txt}"))
    n_cmp = 0
    for (posname, pl, mode), (rc, txt, files) in zip(jobs, results):
        if pl is None or mode not in inert:
            continue
        kind = posmap[posname][2]
        n_cmp += 1
        if rc != 0:
            crashed = "panicked" in txt
            viol.append((posname, pl, mode, f"payload {pl[:30]!r} at {posname}: generator {'panicked' if crashed else 'failed'} rc={rc}: {txt[-200:]}"))
            continue
        # a bare carriage return can only be a line break of the file itself, never part of a comment (rustc rejects it)
        cr = [f for f in files if re.search(rb"\r(?!\n)", open(f, "rb").read())]
        if cr:
            viol.append((posname, pl, mode, f"payload {pl[:30]!r} at {posname}: {os.path.basename(cr[0])} contains a bare carriage return (rustc: bare CR not allowed in doc-comment)"))
            continue
        sks = [sk[f] for f in files]
        bad = [s for s in sks if "error" in s]
        if bad:
            viol.append((posname, pl, mode, f"payload {pl[:30]!r} at {posname}: emitted file does not lex/parse: {bad[0]['error'][:200]}"))
            continue
        key = "skeleton" if kind in ("text", "rawpattern", "numtext", "enumdefault") else "skeleton_noident"
        for a, b in zip(inert[mode], sks):
            if a[key] != b[key]:
                # first difference
                i = next((k for k in range(min(len(a[key]), len(b[key]))) if a[key][k] != b[key][k]), 0)
                viol.append((posname, pl, mode, f"payload {pl[:30]!r} at {posname}: item/attribute/expression structure changed near `{a[key][max(0,i-60):i+60]}` vs `{b[key][max(0,i-60):i+60]}`"))
                break
        else:
            # format templates: the placeholders of every format-style macro must be those of the inert run
            for fa, fb in zip(inert_files[mode], files):
                ta, tb = templates(open(fa, errors="replace").read()), templates(open(fb, errors="replace").read())
                if [m for m, _ in ta] == [m for m, _ in tb]:
                    for (m1, x), (_, y) in zip(ta, tb):
                        px, py = placeholders(x), placeholders(y)
                        if px != py:
                            viol.append((posname, pl, mode, f"payload {pl[:30]!r} at {posname}: spec text is interpreted as a format template: {m1}!(\"{y[:80]}\") has placeholders {py}, the inert run {px}"))
                            break
            # recoverability: wherever the inert marker was a literal/doc, the payload must be found byte-for-byte
            inert_lits = [l for s in inert[mode] for l in s["literals"]]
            lits = [l for s in sks for l in s["literals"]]
            # (replaceItem shares getItem's response enum: the description of the merged-away copy is legitimately absent)
            if kind in ("text", "rawpattern") and posname not in ("components/schemas/Item/properties/code/pattern", "components/schemas/NewItem/properties/code/pattern",
                                                                   "paths//items/{id}/put/responses/200/description"):
                had = any(INERT in l for l in inert_lits) if posname.endswith(("description", "summary", "title")) else True
                want = pl
                found = any(want in l for l in lits) or any(want.replace("\r\n", "\n") in l for l in lits)
                found = found or all(any(line.strip() in l for l in lits) for line in re.split(r"[\r\n]+", want) if line.strip())
                marker = posmap[posname][3]
                emitted_inert = [l for l in inert_lits if marker in l and (len(marker) > 3 or l.split(":", 1)[1].strip().strip('"') == marker)]
                if emitted_inert and not found:
                    viol.append((posname, pl, mode, f"payload {pl[:30]!r} at {posname}: not recoverable byte-for-byte from the literals/doc lines of the output"))
    # doc-line correspondence: coq/Model/DocLines.v (normalize_line_breaks + str::lines) against the doc lines the
    # generator emits for a schema description and for the title, on random CR / LF / CRLF mixtures
    n_doc, doc_dist = 0, {}
    if not replay or json.load(open(replay))["position"] == "doc-lines":
        ALPH = ["a", "b", " ", "\r", "\n", "\r\n", "\u00e9", "x y"]
        texts = ["a\rb", "a\r\nb", "a\n\rb", "a\r\r\nb", "\ra", "a\r", "a\n", "\n", "\r\n\r", "a\n\nb", "plain", "a\r\n\r\nb\r"]
        for _ in range(28 if tier == "quick" else 300):
            texts.append("".join(rnd.choice(ALPH) for _ in range(rnd.randint(1, 14))))
        texts = [t for t in dict.fromkeys(texts)]
        if replay:
            texts = [json.load(open(replay))["payload"]]

        def doc_one(k):
            t = texts[k]
            spec = {"openapi": "3.1.0", "info": {"title": "T" + t, "version": "1"}, "paths": {},
                    "components": {"schemas": {"Zq": {"type": "object", "description": t, "properties": {"f": {"type": "string"}}}}}}
            sp = os.path.join(d, f"doc_{k}.json")
            json.dump(spec, open(sp, "w"))
            outp = os.path.join(d, f"doc_{k}.rs")
            rc, txt = vlib.oas(["generate", "types", "-i", sp, "-o", outp, "-q", "--all-schemas"], timeout=60)
            spec2 = {"openapi": "3.1.0", "info": {"title": "t", "version": "1"},
                     "paths": {"/x": {"get": {"operationId": "getX", "responses": {"200": {"description": t}}}}}}
            sp2, outp2 = os.path.join(d, f"docr_{k}.json"), os.path.join(d, f"docr_{k}.rs")
            json.dump(spec2, open(sp2, "w"))
            rc2, txt2 = vlib.oas(["generate", "types", "-i", sp2, "-o", outp2, "-q"], timeout=60)
            spec3 = {"openapi": "3.1.0", "info": {"title": "t", "version": "1"},
                     "paths": {"/" + t: {"get": {"operationId": "getX", "responses": {"200": {"description": "ok"}}}}}}
            sp3, outp3 = os.path.join(d, f"docp_{k}.json"), os.path.join(d, f"docp_{k}")
            json.dump(spec3, open(sp3, "w"))
            rc3, txt3 = vlib.oas(["generate", "client-mod", "-i", sp3, "-o", outp3, "-q"], timeout=60)
            return rc or rc2 or rc3, (txt + txt2 + txt3)[-200:], outp, outp2, os.path.join(outp3, "client.rs")
        dres = vlib.pmap(doc_one, range(len(texts)))
        okf = [f for r in dres if r[0] == 0 for f in r[2:5]]
        dsk = {x["file"]: x for x in vlib.vtool_lines("skeleton", okf)}
        inputs = [("T" + t) for t in texts] + texts + ["200: " + t for t in texts]
        model = vlib.coq_doc_lines(d, inputs)
        # the `* Path:` line is a stored line of a Documentation value: Documentation::to_tokens (phys_lines)
        model_p = vlib.coq_doc_lines(d, ["* Path: `GET /" + t + "`" for t in texts], fn="phys_lines (enc l)", name="doc_cases_p")
        model = model if model_p is not None else None
        for k, t in enumerate(texts):
            rc, txt, outp, outp2, outp3 = dres[k]
            n_doc += 1
            kind = "crlf" if "\r\n" in t else "cr" if "\r" in t else "lf" if "\n" in t else "none"
            doc_dist[kind] = doc_dist.get(kind, 0) + 1
            if rc != 0 or outp not in dsk or "error" in dsk[outp] or outp2 not in dsk or "error" in dsk[outp2]:
                viol.append(("doc-lines", t, "types", f"description/title {t!r}: generator failed or output does not parse: {txt}"))
                continue
            docs = [l[4:] for l in dsk[outp]["literals"] if l.startswith("doc:")]
            try:
                i0, i1 = docs.index(" AUTO-GENERATED CODE - DO NOT EDIT!") + 2, next(i for i, l in enumerate(docs) if l.startswith(" Source: "))
                i2 = next(i for i, l in enumerate(docs) if l.startswith(" Generated by ")) + 2
            except (ValueError, StopIteration):
                viol.append(("doc-lines", t, "types", f"description/title {t!r}: file header not found in the doc lines"))
                continue
            canon = lambda ls: [(" " + l).rstrip(" ") for l in ls]
            got_title, got_desc = [l.rstrip(" ") for l in docs[i0:i1]], [l.rstrip(" ") for l in docs[i2:]]
            if model is None:
                continue
            want_title, want_desc = canon(model[k]), canon(model[len(texts) + k])
            docs3 = [l[4:] for l in dsk[outp3]["literals"] if l.startswith("doc:")] if outp3 in dsk and "error" not in dsk[outp3] else None
            if docs3 is None or not any(l.startswith(" * Path: `GET /") for l in docs3):
                viol.append(("doc-lines", t, "client-mod", f"path {'/' + t!r}: the `* Path:` doc line was not found in client.rs"))
                continue
            got_path = [l.rstrip(" ") for l in docs3[next(i for i, l in enumerate(docs3) if l.startswith(" * Path: `GET /")):]]
            want_path = canon(model_p[k])
            if got_path != want_path:
                viol.append(("doc-lines", t, "client-mod", f"path {'/' + t!r}: doc lines of the method {got_path} differ from the model's {want_path} (Model/DocLines.v phys_lines)"))
                continue
            docs2 = [l[4:] for l in dsk[outp2]["literals"] if l.startswith("doc:")]
            if " Response types for getX" in docs2 and "default: Unknown response" in docs2:
                got_resp = [l.rstrip(" ") for l in docs2[docs2.index(" Response types for getX") + 1:docs2.index("default: Unknown response")]]
                want_resp = [l.rstrip(" ") for l in model[2 * len(texts) + k]]
                if got_resp != want_resp:
                    viol.append(("doc-lines", t, "types", f"response description {t!r}: variant doc lines {got_resp} differ from the model's {want_resp} (Model/DocLines.v)"))
                    continue
            else:
                viol.append(("doc-lines", t, "types", f"response description {t!r}: the response enum's doc lines were not found"))
                continue
            if got_title != want_title:
                viol.append(("doc-lines", t, "types", f"title {'T' + t!r}: header doc lines {got_title} differ from the model's {want_title} (Model/DocLines.v)"))
            elif got_desc != want_desc:
                viol.append(("doc-lines", t, "types", f"schema description {t!r}: doc lines {got_desc} differ from the model's {want_desc} (Model/DocLines.v)"))
        res.oblige("Model/DocLines.v evaluated by coqc on the same texts as the generator", model is not None, "coqc failed on the cases file")
    # Display of enum values (template site): compile and print
    n_disp = 0
    vals = ["x{}y", "p{{q", "r}s", "a{b}c", "plain", "u{0}v", "q\"uote", "back\\slash", "w{:?}z"]
    spec = {"openapi": "3.1.0", "info": {"title": "t", "version": "1"}, "paths": {}, "components": {"schemas": {"E": {"type": "string", "enum": vals}}}}
    sp = os.path.join(d, "disp.json")
    json.dump(spec, open(sp, "w"))
    outp = os.path.join(d, "disp.rs")
    rc, txt = vlib.oas(["generate", "types", "-i", sp, "-o", outp, "-q", "--all-schemas", "--no-helpers"])
    if rc == 0:
        ar = arena.Arena("C19")
        ar.add_case(0, outp)
        ar.write_main('''fn main() {
    for j in %s {
        let v: case_0::E = serde_json::from_str(j).unwrap();
        println!("{}\\t{}", j, serde_json::to_string(&format!("{}", v)).unwrap());
    }
}
''' % ("[" + ", ".join(json.dumps(json.dumps(v)) for v in vals) + "]"))
        okb, diags, err = ar.cargo("build")
        if not okb:
            viol.append(("enum-display", vals, "types", f"enum with brace/quote values does not compile: {(diags[0]['message'] if diags else err)[:200]}"))
        else:
            rc2, o2, e2 = ar.run("")
            for line in o2.strip().split("\n"):
                a, b = line.split("\t")
                n_disp += 1
                if json.loads(a) != json.loads(b):
                    viol.append(("enum-display", json.loads(a), "types", f"Display of enum value {a} prints {b}"))
    else:
        viol.append(("enum-display", vals, "types", f"generator failed on brace/quote enum values: {txt[-200:]}"))
    res.counts.update({"evaluations": len(jobs) + n_disp + n_doc, "doc_line_texts": n_doc, "doc_line_text_kinds": doc_dist, "distinct_nontrivial": n_cmp, "payloads": len(payloads), "positions": len(POSITIONS),
                       "traces_validated_against_impl": len(jobs),
                       "rule": "a catalogue of injection payloads (quote/escape breakers, comment terminators, `]`, attribute syntax, format braces, raw-string terminators, newlines, NUL, bidi control, code fragments; 64 KiB text in thorough) substituted at every text-bearing position of a corpus spec (title, descriptions, summaries, defaults, examples, const, pattern, server URL, enum values, schema title) x modes, compared with the inert run: syn token skeleton with string literals erased (identifiers also erased only where the text is by design the source of one identifier) and payload recoverability from literal values; plus compiled Display of brace/quote enum values"})
    for posname, pl, mode in jobs[3:6]:
        res.sample({"position": posname, "payload": pl, "mode": mode})
    res.cov["trusted_base"] = vlib.COMMON_TRUSTED + ["coq/Model/Splice.v: std::fmt positional template semantics (hand model)", "coq/Model/DocLines.v: str::replace + str::lines on bytes (hand model, run against the generator on random CR/LF/CRLF texts; trailing blanks of a doc line are not compared: the pretty-printer trims them)", "quote!/LitStr produce one literal token whose value is the string (proc_macro2 contract)", "tools/vtool skeleton + inventory"]
    res.assumptions = ["header names and media types are not payload positions (they must be valid header names / media types to be accepted at all)",
                       "regex patterns are injected escaped (an invalid regex is dropped by design)"]
    kf = {k["key"]: k["text"] for k in vlib.known_findings("C19")}
    for k in sorted(known_hits):
        if k in kf:
            res.known(k, kf[k])
    for (posname, pl, mode, dsc) in viol[:3]:
        res.violation(dsc, {"position": posname, "payload": pl, "mode": mode})
    broken = [o for o in res.obligations if not o[1]]
    if broken and not viol:
        res.violation("proof obligation or inventory no longer checks: " + "; ".join(o[0] for o in broken),
                      {"broken": [[o[0], o[2]] for o in broken]}, no_input=True)
    return res.finish()
