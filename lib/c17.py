"""C17 — schema defaults are honoured wherever a value is filled in."""
import json, os, random, re
import vlib, arena
from vlib import Result, log

THEOREMS = ["C17_string", "C17_bool", "C17_int_signed", "C17_int_unsigned", "C17_null", "C17_option_wraps",
            "C17_refuted_other", "C17_refuted_width", "C17_refuted_builder", "C17_nonvacuous"]
TARGETS = ["Props/C17.v", "Extract/C17.v"]

# member type: (key, schema, model prim, JSON kind of a matching default)
MEMBER_TYPES = [
    ("string", {"type": "string"}, "string", "str"),
    ("int", {"type": "integer"}, "i64", "int"),
    ("int32", {"type": "integer", "format": "int32"}, "i32", "int"),
    ("int64", {"type": "integer", "format": "int64"}, "i64", "int"),
    ("uint64", {"type": "integer", "format": "uint64"}, "u64", "uint"),
    ("uint32", {"type": "integer", "format": "uint32"}, "u32", "uint"),
    ("number", {"type": "number"}, "float", "num"),
    ("bool", {"type": "boolean"}, "bool", "bool"),
    ("enum", {"type": "string", "enum": ["x", "y", "z"]}, "other", "enum"),
    ("refenum", {"$ref": "#/components/schemas/Color"}, "other", "refenum"),
    ("array", {"type": "array", "items": {"type": "string"}}, "other", "arr"),
    ("datetime", {"type": "string", "format": "date-time"}, "other", "str"),
    ("uuid", {"type": "string", "format": "uuid"}, "other", "str"),
]
DEFAULTS = {
    "str": ["hello", "", "a \"q\" b", "12", ", ", "  ", " lead", "trail ", "\r\n", "\ttab\t"],
    "int": [7, 0, -3, 2147483648, "12", "-5"],
    "uint": [7, 0, 4294967295, 4294967296, 9223372036854775808, 18446744073709551615, -1, "12"],
    "num": [1.5, 2, -0.25],
    "bool": [True, False, "yes"],
    "enum": ["y", "z"],
    "refenum": ["green"],
    "arr": [["a", "b"], []],
}


def vtok(v):
    if v is None:
        return "N"
    if isinstance(v, bool):
        return "Bt" if v else "Bf"
    if isinstance(v, int):
        return f"I{v}"
    if isinstance(v, str):
        return "S" + v.encode().hex()
    return "O"


def spec_for(tschema, d, required, use_const=False):
    m = dict(tschema)
    if "$ref" in m:
        m = {"allOf": [tschema], "default": d}
    elif use_const == "single":
        m["enum"] = [d]
    elif use_const:
        m["const"] = d
    else:
        m["default"] = d
    s = {"type": "object", "properties": {"m": m, "plain": {"type": "string"}}}
    if required:
        s["required"] = ["m"]
    return {"openapi": "3.1.0", "info": {"title": "t", "version": "1"}, "paths": {},
            "components": {"schemas": {"S": s, "Color": {"type": "string", "enum": ["red", "green", "blue"]}}}}


def read_default_attr(dump):
    it = [x for x in dump.get("items", []) if x["kind"] == "struct" and x["name"] == "S"]
    if not it:
        return None, None
    f = [y for y in it[0]["fields"] if y["name"] == "m"]
    if not f:
        return None, None
    attr = None
    for a in f[0]["attrs"]:
        t = a.get("attr", "")
        if t.startswith("default("):
            attr = t[len("default("):-1]
    return attr, f[0]["ty"]


def canon_attr(expr):
    """emitted #[default(expr)] -> model notation"""
    if expr is None:
        return "NoAttr"
    if expr == "None":
        return "None"
    wrap = "Bare"
    e = expr
    m = re.fullmatch(r"Some\((.*)\)", e)
    if m:
        wrap, e = "Some", m.group(1)
    if e == "Default::default()":
        return f"{wrap} D"
    if e == "String::new()":
        return f"{wrap} S"
    m = re.fullmatch(r'"((?:[^"\\]|\\.)*)"\.to_string\(\)', e)
    if m:
        s = json.loads('"' + m.group(1) + '"')
        return f"{wrap} S{s.encode().hex()}"
    if e in ("true", "false"):
        return f"{wrap} B{'t' if e == 'true' else 'f'}"
    m = re.fullmatch(r"(-?\d+)([iu]\d+)", e)
    if m:
        return f"{wrap} I{m.group(1)}"
    m = re.fullmatch(r"(-?[\d.eE+-]+)f(32|64)", e)
    if m:
        return f"{wrap} F{m.group(1)}"
    return f"{wrap} ?{e}"


def twin_defaults_part(viol):
    shape = lambda n, mode, ratio, flag: {"type": "object", "properties": {"n": {"type": "integer", "default": n}, "mode": {"type": "string", "default": mode},
                                                                          "ratio": {"type": "number", "default": ratio}, "flag": {"type": "boolean", "default": flag}}}
    spec = {"openapi": "3.1.0", "info": {"title": "t", "version": "1"}, "paths": {}, "components": {"schemas": {
        "Pipeline": {"type": "object", "properties": {"primary": shape(3, "fast", 0.5, True), "fallback": shape(10, "safe", 2.5, False)}},
        "Other": {"type": "object", "properties": {"tuning": shape(7, "mid", 1.5, True)}}}}}
    d = vlib.scratch("C17t")
    sp = os.path.join(d, "spec.json")
    json.dump(spec, open(sp, "w"))
    outp = os.path.join(d, "out.rs")
    rc, txt = vlib.oas(["generate", "types", "-i", sp, "-o", outp, "-q", "--all-schemas", "--no-helpers"])
    if rc != 0:
        viol.append(({"twin": True}, f"twin-defaults spec: generation failed {txt[-200:]}"))
        return 0
    ar = arena.Arena("C17t")
    ar.add_case(0, outp)
    ar.write_main('''fn main() {
    let p: case_0::Pipeline = serde_json::from_str(r#"{"primary":{},"fallback":{}}"#).unwrap();
    println!("{}", serde_json::to_string(&p).unwrap());
    let o: case_0::Other = serde_json::from_str(r#"{"tuning":{}}"#).unwrap();
    println!("{}", serde_json::to_string(&o).unwrap());
}
''')
    ok, diags, err = ar.cargo("build")
    if not ok:
        viol.append(({"twin": True}, f"twin-defaults spec does not compile: {(diags[0]['message'] if diags else err)[:200]}"))
        return 0
    rc, outp_, errp = ar.run("")
    lines = outp_.strip().split("\n")
    want = [{"primary": {"n": 3, "mode": "fast", "ratio": 0.5, "flag": True}, "fallback": {"n": 10, "mode": "safe", "ratio": 2.5, "flag": False}},
            {"tuning": {"n": 7, "mode": "mid", "ratio": 1.5, "flag": True}}]
    for w, l in zip(want, lines + ["null"] * 2):
        try:
            got = json.loads(l)
        except Exception:
            got = l
        if got != w:
            viol.append(({"twin": True, "spec": spec}, f"inline objects of the same shape with different defaults: decoding empty members yields {json.dumps(got)}, the schemas' defaults are {json.dumps(w)}"))
    return 2


def reserved_builder_part(viol):
    """members named like bon's own builder methods (`build`, `builder`) that carry a const / single value / default: the
    builder that does not set them still yields the declared values"""
    spec = {"openapi": "3.1.0", "info": {"title": "t", "version": "1"}, "paths": {}, "components": {"schemas": {"Manifest": {"type": "object", "required": ["builder", "build"], "properties": {
        "builder": {"type": "string", "enum": ["buildkit"]}, "build": {"type": "integer", "const": 2}, "label": {"type": "string"}}}}}}
    d = vlib.scratch("C17b")
    sp = os.path.join(d, "spec.json")
    json.dump(spec, open(sp, "w"))
    outp = os.path.join(d, "out.rs")
    rc, txt = vlib.oas(["generate", "types", "-i", sp, "-o", outp, "-q", "--all-schemas", "--no-helpers", "--enable-builders"])
    if rc != 0:
        viol.append(({"reserved_builder": True}, f"reserved-name builder spec: generation failed {txt[-200:]}"))
        return 0
    ar = arena.Arena("C17b")
    ar.add_case(0, outp)
    ar.write_main('''fn main() {
    let m = case_0::Manifest::builder().build();
    println!("{}", serde_json::to_string(&m).unwrap());
    println!("{}", serde_json::to_string(&case_0::Manifest::default()).unwrap());
    let d: case_0::Manifest = serde_json::from_str("{}").unwrap_or_default();
    println!("{}", serde_json::to_string(&d).unwrap());
}
''')
    ok, diags, err = ar.cargo("build")
    if not ok:
        viol.append(({"reserved_builder": True, "spec": spec}, f"members named build / builder with declared values: a builder that leaves them unset does not compile: {(diags[0]['message'] if diags else err)[:300]}"))
        return 0
    rc, out_, errp = ar.run("")
    want = {"build": 2, "builder": "buildkit"}      # (optional members with defaults: the recorded builder-ignores-defaults class)
    n = 0
    for how, line in zip(("builder", "Default", "decode of {}"), out_.strip().split("\n") + [""] * 3):
        n += 1
        try:
            got = json.loads(line)
        except Exception:
            got = line
        if got != want:
            viol.append(({"reserved_builder": True, "spec": spec}, f"members named build / builder: {how} yields {json.dumps(got)}, the declared values are {json.dumps(want)}"))
    return n


def param_defaults_part(viol):
    """parameters are members of the request's query / header structs: their defaults (default / const / single-value
    enum; required or optional) are the values of the struct's Default and are written on encoding"""
    P = lambda n, w, sc, req=False: {"name": n, "in": w, "required": req, "schema": sc}
    spec = {"openapi": "3.1.0", "info": {"title": "t", "version": "1"}, "paths": {"/search": {"get": {"operationId": "search", "parameters": [
        P("q", "query", {"type": "string"}, True), P("api-version", "query", {"type": "string", "enum": ["2024-01"]}, True), P("format", "query", {"type": "string", "const": "json"}, True),
        P("page", "query", {"type": "integer", "default": 1}, True), P("exact", "query", {"type": "boolean", "default": True}, True),
        P("big", "query", {"type": "integer", "format": "uint64", "default": 18446744073709551615}, True),
        P("limit", "query", {"type": "integer", "format": "int32", "default": 20}), P("sort", "query", {"type": "string", "default": "name"}), P("ratio", "query", {"type": "number", "default": 0.5}),
        P("X-Mode", "header", {"type": "string", "default": "fast"}), P("X-Ver", "header", {"type": "string", "const": "v1"}, True), P("X-Plain", "header", {"type": "string"})],
        "responses": {"204": {"description": "n"}}}}}, "components": {"schemas": {}}}
    d = vlib.scratch("C17p")
    sp = os.path.join(d, "spec.json")
    json.dump(spec, open(sp, "w"))
    outs = []
    for mode in ("client-mod", "server-mod"):
        outp = os.path.join(d, mode)
        rc, txt = vlib.oas(["generate", mode, "-i", sp, "-o", outp, "-q"])
        if rc != 0:
            viol.append(({"params": True, "spec": spec}, f"parameter-defaults spec: {mode} generation failed {txt[-200:]}"))
            return 0
        outs.append(outp)
    ar = arena.Arena("C17p")
    ar.add_case(0, outs[0])
    ar.add_case(1, outs[1])
    ar.write_main('''fn main() {
    let q = case_0::SearchRequestQuery::default();
    println!("{:?}", q);
    println!("{}", serde_json::to_string(&q).unwrap());
    println!("{:?}", case_0::SearchRequestHeader::default());
    println!("{:?}", case_1::SearchRequestHeader::default());
}
''')
    ok, diags, err = ar.cargo("build")
    if not ok:
        viol.append(({"params": True, "spec": spec}, f"parameter-defaults spec does not compile: {(diags[0]['message'] if diags else err)[:300]}"))
        return 0
    rc, out_, errp = ar.run("")
    want = ['SearchRequestQuery { q: "", api_version: "2024-01", format: "json", page: 1, exact: true, big: 18446744073709551615, limit: Some(20), sort: Some("name"), ratio: Some(0.5) }',
            '{"q":"","api-version":"2024-01","format":"json","page":1,"exact":true,"big":18446744073709551615,"limit":20,"sort":"name","ratio":0.5}',
            'SearchRequestHeader { x_mode: Some("fast"), x_ver: "v1", x_plain: None }', 'SearchRequestHeader { x_mode: Some("fast"), x_ver: "v1", x_plain: None }']
    got = out_.strip().split("\n")
    for w, g in zip(want, got + [""] * 4):
        if w != g:
            viol.append(({"params": True, "spec": spec}, f"parameter defaults: the request's parameter struct gives {g!r}, the declared defaults give {w!r}"))
    return len(want)


def main(tier, seed, replay=None):
    res = Result("C17", tier, seed)
    vlib.build_repo()
    vlib.build_vtool()
    coq_ok, out = vlib.standard_coq_obligations(res, TARGETS, THEOREMS, expect_closed=5)
    exe = vlib.ocaml_build("c17") if coq_ok else None
    if coq_ok:
        res.oblige("extracted model driver builds", exe is not None)
    cases = []
    for key, tsch, prim, kind in MEMBER_TYPES:
        for d in DEFAULTS[kind] + [None]:
            for required in (False, True):
                for builders in (False, True):
                    cases.append({"type": key, "tschema": tsch, "prim": prim, "kind": kind, "d": d, "required": required, "builders": builders, "const": False})
    for d in ("fixed", 5):
        for required in (False, True):
            for how in (True, "single"):
                # const / single-value enum, also as the ONLY value-carrying member and required
                for builders in (False, True):
                    cases.append({"type": "string" if isinstance(d, str) else "int", "tschema": {"type": "string"} if isinstance(d, str) else {"type": "integer"},
                                  "prim": "string" if isinstance(d, str) else "i64", "kind": "str" if isinstance(d, str) else "int", "d": d, "required": required, "builders": builders, "const": how})
    cases.append({"type": "int8", "tschema": {"type": "integer", "format": "int8"}, "prim": "i8", "kind": "int", "d": 300, "required": False, "builders": False, "const": False})
    if replay:
        cases = [json.load(open(replay))["case"]]
    d_ = vlib.scratch("C17")

    def one(i):
        c = cases[i]
        sp = os.path.join(d_, f"s{i}.json")
        json.dump(spec_for(c["tschema"], c["d"], c["required"], c["const"]), open(sp, "w"))
        outp = os.path.join(d_, f"o{i}.rs")
        rc, txt = vlib.oas(["generate", "types", "-i", sp, "-o", outp, "-q", "--all-schemas", "--no-helpers"] + (["--enable-builders"] if c["builders"] else []))
        return rc, txt, outp
    outs = vlib.pmap(one, range(len(cases)))
    dumps = vlib.vtool_lines("dump", [o[2] for o in outs])
    dis, viol, known_hits = [], [], set()
    def is_opt(dump):
        try:
            return (read_default_attr(dump)[1] or "Option<").replace(" ", "").startswith("Option<")
        except Exception:
            return True
    # the Option wrapper follows the emitted member type (required const / single-value members are not optional)
    mq = [f"{vtok(c['d'])} {c['prim']} {1 if is_opt(dp) else 0}" for c, dp in zip(cases, dumps)]
    model = vlib.run_driver(exe, mq) if exe else None
    ar = arena.Arena("C17")
    for i, (c, (rc, txt, outp), dump) in enumerate(zip(cases, outs, dumps)):
        if rc != 0 or "error" in dump:
            viol.append((c, f"generator failed rc={rc} {txt[-200:]}"))
            continue
        attr, ty = read_default_attr(dump)
        got = canon_attr(attr)
        if model is not None and c["prim"] != "float":
            exp = model[i].split(" fits=")[0]
            exp = "NoAttr" if (exp == "None" and attr is None) else exp
            if got != exp and not (exp == "Some S" and got == "Some S"):
                dis.append(f"member {c['type']} default {c['d']!r} required={c['required']}: emitted #[default({attr})] = {got}, model {exp}")
        ar.add_case(i, outp)

    def body(cs):
        fns = []
        for i in cs:
            b = cases[i]["builders"] and cases[i]["d"] is not None
            fns.append(f'''            {i} => {{
                let a = serde_json::from_str::<case_{i}::S>("{{}}").map(|v| serde_json::to_string(&v).unwrap()).unwrap_or_else(|_| "ERR".into());
                let b = serde_json::to_string(&case_{i}::S::default()).unwrap();
                let c = {f'serde_json::to_string(&case_{i}::S::builder().build()).unwrap()' if b else '"-".to_string()'};
                format!("{{}}\\t{{}}\\t{{}}", a, b, c)
            }}''')
        return '''
use std::io::BufRead;
fn main() {
    for line in std::io::stdin().lock().lines() {
        let c: usize = line.unwrap().trim().parse().unwrap();
        let r = match c {
''' + "\n".join(fns) + '''
            _ => "NOCASE".to_string(),
        };
        println!("{}", r);
    }
}
'''
    ok, failed, err = ar.build_bisect(body, sub="build")
    for ci, dg in failed.items():
        c = cases[ci]
        if model is not None and "fits=false" in model[ci] and any("out of range" in x["message"] for x in dg):
            known_hits.add("default-literal-out-of-range")
            continue
        viol.append((c, f"member {c['type']} default {c['d']!r}: emitted code does not compile: {dg[0]['code']} {dg[0]['message'][:160]}"))
    n_obs = 0
    if ok and ar.cases:
        rc, outp, errp = ar.run("\n".join(str(i) for i in ar.cases) + "\n")
        for i, line in zip(ar.cases, outp.split("\n")):
            c = cases[i]
            parts = line.split("\t")
            if len(parts) != 3:
                viol.append((c, f"runner output {line[:100]}"))
                continue
            n_obs += 1
            dec0, dflt, bld = parts
            d = c["d"]
            well_typed = (c["kind"] == "str" and isinstance(d, str)) or (c["kind"] == "int" and isinstance(d, int) and not isinstance(d, bool)) or \
                         (c["kind"] == "bool" and isinstance(d, bool)) or (c["kind"] == "num" and isinstance(d, (int, float)) and not isinstance(d, bool)) or \
                         (c["kind"] in ("enum", "refenum") and isinstance(d, str)) or (c["kind"] == "arr" and isinstance(d, list))
            if d is None or not well_typed:
                continue
            def member(txt):
                try:
                    return json.loads(txt).get("m", "<absent>")
                except Exception:
                    return "<ERR>"
            exp = d
            obs = {"decode-omitted": member(dec0), "Default::default()": member(dflt)}
            if c["builders"]:
                obs["builder"] = member(bld)
            for how, v in obs.items():
                same = (v == exp) or (isinstance(exp, (int, float)) and isinstance(v, (int, float)) and not isinstance(v, bool) and float(v) == float(exp))
                if not same:
                    if how == "builder" and c.get("const") and c["required"]:
                        # a required const / single-value member is not an Option and carries #[builder(default = ..)]
                        viol.append((c, f"member {c['type']} {'const' if c['const'] is True else 'single-value enum'} {d!r} required=True: {how} yields m={v!r}"))
                    elif how == "builder" and obs["Default::default()"] == exp:
                        known_hits.add("builder-ignores-defaults")
                    elif c["prim"] == "other":
                        known_hits.add("default-replaced-by-type-default")
                    elif how == "builder":
                        known_hits.add("builder-ignores-defaults")
                    else:
                        viol.append((c, f"member {c['type']} default {d!r} required={c['required']}: {how} yields m={v!r}"))
    # ---- two inline objects of the same shape whose members carry DIFFERENT defaults (they must not share a type)
    n_twin = twin_defaults_part(viol)
    # ---- parameters with defaults (query / header structs of a request, client and server side)
    n_par = param_defaults_part(viol)
    n_par += reserved_builder_part(viol)
    res.counts.update({"evaluations": len(cases), "twin_default_observations": n_twin, "parameter_default_observations": n_par, "distinct_nontrivial": n_obs, "traces_validated_against_impl": len(cases),
                       "exhaustive": True,
                       "rule": "exhaustive over 13 member types (incl. uint32 / uint64 with defaults up to 2^64-1) x default values of every JSON type (matching, string-encoded, null) x {required, optional} x {builders on, off} (+ const and single-value enum members, required and optional; int8 overflow): #[default(..)] expression read back with syn vs the extracted coercion model; every case compiled in the arena and observed three ways: decode of {} , T::default(), T::builder().build(); plus twin inline objects with different defaults and the Default / encoding of a request's query and header parameter structs (required and optional parameters with default / const / single-value enum)"})
    for c in cases[:2] + cases[60:62]:
        res.sample({k: c[k] for k in ("type", "d", "required", "builders")})
    res.oblige(f"correspondence: model literal = emitted #[default(..)] on {len(cases)} members", not dis, dis[0] if dis else "")
    res.cov["trusted_base"] = vlib.COMMON_TRUSTED + ["coq/Model/Defaults.v: hand model of coercion.rs (floats outside the model)", "better_default / serde(default) / bon semantics are exercised in the arena, not modelled"]
    res.assumptions = ["float defaults are checked by observation only (no model of f64 formatting)"]
    kf = {k["key"]: k["text"] for k in vlib.known_findings("C17")}
    for k in sorted(known_hits):
        if k in kf:
            res.known(k, kf[k])
        else:
            viol.append(({}, f"unlisted failing class {k}"))
    for (c, dsc) in viol[:3]:
        res.violation(dsc, {"case": c})
    broken = [o for o in res.obligations if not o[1]]
    if broken and not viol:
        res.violation("proof obligation or correspondence no longer checks: " + "; ".join(o[0] for o in broken),
                      {"broken": [[o[0], o[2]] for o in broken]}, no_input=True)
    return res.finish()
