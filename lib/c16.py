"""C16 — generated validation is sound (and, for satisfiable schemas, complete) with respect to declared constraints."""
import itertools, json, os, random, re
import vlib
from vlib import Result, log
from arena import Arena

THEOREMS = ["C16_range_exact", "C16_range_sound", "C16_exclusive_clamp_refuted", "C16_nested_reaches", "C16_nested_minimal", "C16_clamp_table_from_source", "C16_nonvacuous"]
TARGETS = ["Props/C16.v"]

I32_MAX, I32_MIN = 2**31 - 1, -2**31
I64_MAX = 2**63 - 1


KEYS = ("type", "minLength", "maxLength", "minimum", "maximum", "exclusiveMinimum", "exclusiveMaximum", "pattern", "minItems", "maxItems", "items")


def jvalid_batch(pairs):
    """JSON Schema verdicts (python jsonschema, Draft 2020-12, tooling venv) restricted to the keywords the property lists"""
    import subprocess
    data = [({k: sc[k] for k in sc if k in KEYS}, v) for sc, v in pairs]
    pj = subprocess.run(["python3-vt", "-c", "import sys,json,jsonschema\nfrom jsonschema import Draft202012Validator as V\nd=json.load(sys.stdin)\nprint(json.dumps([V(s).is_valid(i) for s,i in d]))"],
                        input=json.dumps(data), stdout=subprocess.PIPE, stderr=subprocess.PIPE, text=True, timeout=600)
    if pj.returncode != 0:
        return None, pj.stderr[-300:]
    return json.loads(pj.stdout), ""


def S(n, ch="a"):
    return ch * n


def members():
    """(key, member schema, probe values[, format verdicts])"""
    out = []
    for (mn, mx) in ((2, 4), (0, 3), (3, None), (None, 2), (1, 1), (None, None)):
        sch = {"type": "string"}
        if mn is not None:
            sch["minLength"] = mn
        if mx is not None:
            sch["maxLength"] = mx
        lens = sorted({x for x in ((mn or 0) - 1, mn or 0, (mn or 0) + 1, (mx or 3) - 1, mx or 3, (mx or 3) + 1) if x >= 0})
        vals = [S(n) for n in lens] + [S(n, "é") for n in lens if n > 0] + [S(n, "日") for n in lens if n > 0] + [S(n, "😀") for n in lens if n > 0]
        out.append((f"len_{mn}_{mx}", sch, vals))
    ints = []
    for fmt, lo, hi in (("int32", I32_MIN, I32_MAX), ("int64", -2**63, I64_MAX), (None, -2**63, I64_MAX)):
        for b in ({"minimum": 0, "maximum": 10}, {"minimum": -5}, {"maximum": 7}, {"exclusiveMinimum": 0, "exclusiveMaximum": 10}, {"minimum": 3, "exclusiveMaximum": 4},
                  {"exclusiveMinimum": -1, "maximum": 0}, {"minimum": 1, "maximum": 1}, {"exclusiveMaximum": 2**40}, {"exclusiveMinimum": -2**40}, {"maximum": 2**40}, {"minimum": -2**40},
                  {"minimum": lo, "maximum": hi},
                  # both forms on one side: the stricter one decides
                  {"minimum": 5, "exclusiveMinimum": 0}, {"minimum": 0, "exclusiveMinimum": 5}, {"maximum": 10, "exclusiveMaximum": 100}, {"maximum": 100, "exclusiveMaximum": 10},
                  {"minimum": 1, "exclusiveMinimum": 1, "maximum": 3, "exclusiveMaximum": 3}):
            sch = dict({"type": "integer"}, **b)
            if fmt:
                sch["format"] = fmt
            pts = set()
            for v in b.values():
                pts |= {v - 1, v, v + 1}
            pts |= {lo, hi, 0}
            vals = sorted(x for x in pts if lo <= x <= hi)
            ints.append((f"int_{fmt}_{'_'.join(f'{k[:4]}{v}' for k, v in b.items())}", sch, vals))
    out += ints
    # unsigned formats (the bounds keep the values non-negative, as the type does)
    for fmt, hi in (("uint32", 2**32 - 1), ("uint64", 2**63 - 1), ("uint8", 255)):
        for b in ({"exclusiveMinimum": 0, "maximum": 100}, {"minimum": 0, "maximum": 10}, {"minimum": 1}, {"exclusiveMinimum": 0}, {"minimum": 0, "exclusiveMaximum": 7}, {"exclusiveMinimum": 3, "exclusiveMaximum": 5}):
            sch = dict({"type": "integer", "format": fmt}, **b)
            pts = {0, 1, hi}
            for v in b.values():
                pts |= {v - 1, v, v + 1}
            out.append((f"int_{fmt}_{'_'.join(f'{k[:4]}{v}' for k, v in b.items())}", sch, sorted(x for x in pts if 0 <= x <= hi)))
    for b in ({"minimum": 0.5, "maximum": 1.5}, {"exclusiveMinimum": 0, "exclusiveMaximum": 1}, {"minimum": -2.25}, {"exclusiveMaximum": 100},
              {"minimum": 1, "exclusiveMinimum": 0}, {"maximum": 10, "exclusiveMaximum": 100}):
        sch = dict({"type": "number"}, **b)
        vals = sorted({x for v in b.values() for x in (v - 0.25, v, v + 0.25)})
        out.append((f"num_{'_'.join(f'{k[:4]}{v}' for k, v in b.items())}", sch, vals))
    out.append(("pattern_lower", {"type": "string", "pattern": "^[a-z]+$"}, ["abc", "a", "Abc", "ab1", "é"]))   # no trailing-newline probe: python's `$` differs from ECMA-262
    out.append(("pattern_unanchored", {"type": "string", "pattern": "[0-9]{3}"}, ["123", "x123y", "12", "abc", "１２３"]))
    out.append(("pattern_len", {"type": "string", "pattern": "^a", "minLength": 2, "maxLength": 3}, ["a", "ab", "abc", "abcd", "bc", "b"]))
    for (mn, mx) in ((1, 2), (0, 1), (2, None), (None, 1)):
        sch = {"type": "array", "items": {"type": "integer"}}
        if mn is not None:
            sch["minItems"] = mn
        if mx is not None:
            sch["maxItems"] = mx
        out.append((f"items_{mn}_{mx}", sch, [[1] * n for n in range(0, 4)]))
    out.append(("array_of_bounded_strings", {"type": "array", "items": {"type": "string", "maxLength": 3}}, [[], ["abc"], ["abcd"], ["ab", "abcde"]]))
    out.append(("array_of_bounded_ints", {"type": "array", "maxItems": 3, "items": {"type": "integer", "minimum": 1, "maximum": 5}}, [[1, 5], [0], [3, 6], [1, 2, 3, 4]]))
    # formats combined with length / pattern: every probe is a well-formed address / URL, only the other constraints vary
    out.append(("email_len_pat", {"type": "string", "format": "email", "minLength": 8, "maxLength": 20, "pattern": "@example\\.com$"},
                ["a@b.co", "ab@example.com", "x@example.com", "averyveryverylong@example.com", "someone@other.org"]))
    out.append(("uri_len_pat", {"type": "string", "format": "uri", "maxLength": 24, "pattern": "^https://"},
                ["https://example.com/x", "http://example.com/x", "https://example.com/a/very/long/path"]))
    out.append(("url_len", {"type": "string", "format": "url", "minLength": 20}, ["https://example.com/x", "https://a.io"]))
    out.append(("email", {"type": "string", "format": "email"}, ["a@b.co", "not-an-email"]))
    out.append(("uri", {"type": "string", "format": "uri"}, ["https://example.com/x", "not a url"]))
    return out


FORMAT_VERDICT = {"a@b.co": True, "not-an-email": False, "https://example.com/x": True, "not a url": False,
                  "ab@example.com": True, "x@example.com": True, "averyveryverylong@example.com": True, "someone@other.org": True,
                  "http://example.com/x": True, "https://example.com/a/very/long/path": True, "https://a.io": True}

# how the member under test is reached from the top-level request type
PLACEMENTS = ["direct", "direct_required", "in_member", "in_optional_member", "in_array_items", "in_boxed_recursive", "two_levels", "outer_first",
              "twin_loose_first", "twin_loose_last", "in_recursive_array", "allof_refines", "via_named_array"]
CONSTRAINT_KEYS = ("minLength", "maxLength", "minimum", "maximum", "exclusiveMinimum", "exclusiveMaximum", "pattern", "minItems", "maxItems", "format")
KW_MEMBER_NAMES = ["title", "description", "example", "examples", "default", "plain"]


def loosened(msch):
    """the member schema without its constraints (items of arrays too)"""
    out = {k: v for k, v in msch.items() if k not in CONSTRAINT_KEYS or (k == "format" and v in ("int32", "int64"))}
    if isinstance(out.get("items"), dict):
        out["items"] = loosened(out["items"])
    return out


def build_spec(msch, placement):
    inner = {"type": "object", "properties": {"m": msch}}
    schemas = {}
    if placement == "direct":
        schemas["Top"] = {"type": "object", "properties": {"m": msch, "pad": {"type": "boolean"}}}
        path = ["m"]
    elif placement == "direct_required":
        schemas["Top"] = {"type": "object", "required": ["m"], "properties": {"m": msch}}
        path = ["m"]
    elif placement == "in_member":
        schemas["Inner"] = inner
        schemas["Top"] = {"type": "object", "required": ["inner"], "properties": {"inner": {"$ref": "#/components/schemas/Inner"}}}
        path = ["inner", "m"]
    elif placement == "in_optional_member":
        schemas["Inner"] = inner
        schemas["Top"] = {"type": "object", "properties": {"inner": {"$ref": "#/components/schemas/Inner"}}}
        path = ["inner", "m"]
    elif placement == "in_array_items":
        schemas["Inner"] = inner
        schemas["Top"] = {"type": "object", "properties": {"list": {"type": "array", "items": {"$ref": "#/components/schemas/Inner"}}}}
        path = ["list", 0, "m"]
    elif placement == "in_boxed_recursive":
        schemas["Top"] = {"type": "object", "properties": {"m": msch, "next": {"$ref": "#/components/schemas/Top"}}}
        path = ["next", "next", "m"]
    elif placement == "two_levels":
        schemas["Inner"] = inner
        schemas["Mid"] = {"type": "object", "properties": {"inner": {"$ref": "#/components/schemas/Inner"}, "k": {"type": "integer"}}}
        schemas["Top"] = {"type": "object", "properties": {"mid": {"$ref": "#/components/schemas/Mid"}}}
        path = ["mid", "inner", "m"]
    elif placement == "outer_first":
        # type names sort outer-to-inner (Top < Umid < Vleaf): the nested-validation fix point needs a second pass
        schemas["Vleaf"] = inner
        schemas["Umid"] = {"type": "object", "properties": {"leaf": {"$ref": "#/components/schemas/Vleaf"}}}
        schemas["Top"] = {"type": "object", "properties": {"mid": {"$ref": "#/components/schemas/Umid"}}}
        path = ["mid", "leaf", "m"]
    elif placement == "in_recursive_array":
        schemas["Top"] = {"type": "object", "properties": {"m": msch, "children": {"type": "array", "items": {"$ref": "#/components/schemas/Top"}}}}
        path = ["children", 0, "children", 0, "m"]
    elif placement == "allof_refines":
        # the usual refinement idiom: a referenced base declares the member loosely, a later allOf member tightens it
        schemas["Named"] = {"type": "object", "properties": {"m": loosened(msch), "other": {"type": "string"}}}
        schemas["Top"] = {"allOf": [{"$ref": "#/components/schemas/Named"}, {"type": "object", "properties": {"m": msch}}]}
        path = ["m"]
    elif placement == "via_named_array":
        # the member is reached through a NAMED array schema (a $ref to `array of $ref Inner`)
        schemas["Inner"] = inner
        schemas["InnerList"] = {"type": "array", "items": {"$ref": "#/components/schemas/Inner"}}
        schemas["Top"] = {"type": "object", "properties": {"list": {"$ref": "#/components/schemas/InnerList"}}}
        path = ["list", 0, "m"]
    elif placement in ("twin_loose_first", "twin_loose_last"):
        # the same inline object twice, the other copy without the constraints; the member is named like a schema
        # annotation keyword: the two inline types must not be merged (each site enforces its own constraints)
        mname = KW_MEMBER_NAMES[sum(map(ord, json.dumps(msch, sort_keys=True))) % len(KW_MEMBER_NAMES)]
        twin = lambda m: {"type": "object", "properties": {mname: m, "pad": {"type": "string"}}}
        schemas["Aloose" if placement == "twin_loose_first" else "Zloose"] = {"type": "object", "properties": {"inner": twin(loosened(msch))}}
        schemas["Top"] = {"type": "object", "properties": {"inner": twin(msch)}}
        path = ["inner", mname]
    spec = {"openapi": "3.1.0", "info": {"title": "t", "version": "1"}, "paths": {}, "components": {"schemas": schemas}}
    return spec, path


def doc_for(path, v):
    doc = v
    for k in reversed(path):
        doc = [doc] if isinstance(k, int) else {k: doc}
    return doc


def main(tier, seed, replay=None):
    res = Result("C16", tier, seed)
    vlib.build_repo()
    rep = vlib.translate()
    r = rep.get("IntRender.v", {"ok": False, "error": "missing"})
    res.oblige("translator: Gen/IntRender.v regenerated from current source", r.get("ok"), r.get("error", ""))
    coq_ok, out = vlib.standard_coq_obligations(res, TARGETS, THEOREMS, expect_closed=5)
    rng = random.Random(seed * 97 + 16)
    mem = members()
    cases = []
    for (key, msch, vals) in mem:
        pls = PLACEMENTS if tier != "quick" else ["direct", "direct_required", "outer_first"] + rng.sample(PLACEMENTS[2:7], 2) + [rng.choice(PLACEMENTS[8:10]), PLACEMENTS[10], rng.choice(PLACEMENTS[11:])]
        for pl in pls:
            cases.append({"member": key, "schema": msch, "values": vals, "placement": pl})
    if replay:
        r = json.load(open(replay))
        if "case" in r:
            cases = [r["case"]]
    d = vlib.scratch("C16")

    def one(i):
        c = cases[i]
        spec, path = build_spec(c["schema"], c["placement"])
        base = os.path.join(d, f"c{i}")
        os.makedirs(base, exist_ok=True)
        sp = os.path.join(base, "spec.json")
        json.dump(spec, open(sp, "w"))
        outp = os.path.join(base, "out.rs")
        rc, txt = vlib.oas(["generate", "types", "-i", sp, "-o", outp, "-q", "--all-schemas", "--no-helpers"], timeout=120)
        return rc, txt[-300:], outp, path
    results = vlib.pmap(one, range(len(cases)))
    viol = []
    ar = Arena("c16")
    probes = {}
    for i, c in enumerate(cases):
        rc, txt, outp, path = results[i]
        if rc != 0:
            viol.append((c, f"{c['member']}@{c['placement']}: generation failed rc={rc} {txt.strip()[-160:]}", None))
            continue
        ar.add_case(i, outp)
        text = open(outp).read()
        c["has_validate"] = bool(re.search(r"(?s)#\[derive\([^\]]*validator::Validate[^\]]*\)\]\s*(#\[[^\]]*\]\s*)*pub struct Top ", text))
        probes[i] = [json.dumps(doc_for(path, v)) for v in c["values"]]

    def body(cs):
        arms = []
        for i in cs:
            lits = ", ".join(json.dumps(p) for p in probes[i])
            # a type without any constraint below it derives no Validate: nothing is checked, everything is accepted
            check = "validator::Validate::validate(&v).is_ok()" if cases[i].get("has_validate") else "{ let _ = &v; true }"
            arms.append(f'''    for (k, doc) in [{lits}].iter().enumerate() {{
        let r: Result<case_{i}::Top, _> = serde_json::from_str(doc);
        match r {{
            Ok(v) => println!("{i}\\t{{}}\\t{{}}", k, if {check} {{ "V" }} else {{ "I" }}),
            Err(e) => println!("{i}\\t{{}}\\tD {{}}", k, e.to_string().replace("\\n", " ")),
        }}
    }}''')
        return "fn main() {\n" + "\n".join(arms) + "\n}\n"
    ok, failed, err = ar.build_bisect(body, sub="build")
    for ci, diags in failed.items():
        c = cases[ci]
        viol.append((c, f"{c['member']}@{c['placement']}: rustc rejects the emitted validation: {diags[0]['message'][:200]}", classify_compile(c, diags)))
    res.oblige(f"arena: emitted types with validation attributes compile ({len(ar.cases)} modules)", ok, err[:300])
    n_probe = n_sound = n_complete = 0
    pairs = [(c["schema"], v) for c in cases for v in c["values"]]
    verdicts, jerr = jvalid_batch(pairs)
    res.oblige("independent validator (python jsonschema, Draft 2020-12) available", verdicts is not None, jerr)
    want_of, kk = {}, 0
    for ci, c in enumerate(cases):
        for k, v in enumerate(c["values"]):
            want_of[(ci, k)] = verdicts[kk] if verdicts is not None else None
            kk += 1
    if ok and verdicts is not None:
        rc, so, se = ar.run("")
        obs = {}
        for line in so.split("\n"):
            parts = line.split("\t")
            if len(parts) >= 3:
                obs[(int(parts[0]), int(parts[1]))] = parts[2]
        for i in ar.cases:
            c = cases[i]
            for k, v in enumerate(c["values"]):
                o = obs.get((i, k))
                if o is None:
                    viol.append((c, f"{c['member']}@{c['placement']}: no observation for value {v!r} (rc={rc} {se[-120:]})", None))
                    continue
                n_probe += 1
                if "format" in c["schema"] and c["schema"]["format"] in ("email", "uri", "url"):
                    want = FORMAT_VERDICT[v] and want_of[(i, k)]
                else:
                    want = want_of[(i, k)]
                if o.startswith("D"):
                    # the type cannot even represent the value: acceptable only if the schema forbids it too
                    if want:
                        viol.append((c, f"{c['member']}@{c['placement']}: value {v!r} satisfies the schema but cannot be decoded: {o[2:120]}", None))
                    continue
                accepted = o == "V"
                if accepted and not want:
                    n_sound += 1
                    viol.append((c, f"{c['member']}@{c['placement']}: validate() accepts {json.dumps(v)} which violates {json.dumps(c['schema'])}", classify_unsound(c, v)))
                elif not accepted and want:
                    # completeness: required strings may be demanded non-empty
                    if c["placement"] == "direct_required" and v == "" and c["schema"].get("type") == "string":
                        continue
                    n_complete += 1
                    viol.append((c, f"{c['member']}@{c['placement']}: validate() rejects {json.dumps(v)} which satisfies {json.dumps(c['schema'])}", classify_incomplete(c, v)))
    # ---- an operation-level parameter overrides the path-item one, constraints included
    n_override = override_part(d, viol)
    n_override += regex_names_part(d, viol)
    # ---- the client validates before sending
    n_methods, bad_methods = client_validates(d)
    res.oblige(f"client: the generated client ({n_methods} methods) could be read back", n_methods > 0, "; ".join(bad_methods[:1]) if n_methods == 0 else "")
    for b in (bad_methods if n_methods > 0 else []):
        viol.append(({"client_spec": "lib/c16.py client_validates", "method": b.split(":")[0]}, f"generated client method does not refuse an invalid request before building it: {b}", None))
    res.counts.update({"evaluations": len(cases), "distinct_nontrivial": len(ar.cases), "comparisons": n_probe, "probes": n_probe,
                       "parameter_override_comparisons": n_override, "unsound_observations": n_sound, "incomplete_observations": n_complete, "traces_validated_against_impl": len(ar.cases),
                       "exhaustive": tier != "quick",
                       "rule": "constraint combinations (string lengths incl. multi-byte at the limits, integer ranges for int32 / int64 / unformatted with inclusive, exclusive, single-point, whole-range and out-of-range bounds, float ranges, patterns, array lengths, item constraints, email / uri) x placements (direct, required, in a member, in an optional member, in array items, in a boxed recursive member, through recursive array items, a named array schema, a base member tightened by a later allOf member (map values are not among the positions the property names: they carry no nested validation), two levels down, next to an unconstrained twin of the same inline object whose member is named like an annotation keyword; all in the thorough tier) x boundary values (bound-1, bound, bound+1, type limits); compiled validate() verdict vs a JSON Schema oracle restricted to the listed keywords, both directions; plus: an operation-level parameter that overrides a looser path-item parameter yields the same request struct as the operation-level declaration alone (path / query / header); plus the syntactic check that client methods validate first"})
    for c in cases[:4]:
        res.sample({"member": c["member"], "placement": c["placement"], "values": len(c["values"])})
    res.cov["trusted_base"] = vlib.COMMON_TRUSTED + [
        "coq/Model/Validation.v: hand model of ValidationAttribute::range + render_integer clamping and of NestedValidationProcessor",
        "the validator crate's semantics of range / length / regex / email / url / nested, observed in the arena; python jsonschema as the oracle for the listed keywords; email / uri verdicts only for clear-cut probes"]
    res.assumptions = ["PARTIAL: theorems cover integer range translation and the nested fix point; every other constraint kind is decided by the arena differential against the JSON Schema oracle on boundary values",
                       "types are generated with --all-schemas and no operations so that they derive Deserialize as well as Validate (request-only types are Serialize-only and could not be fed documents)"]
    kf = {k["key"]: k["text"] for k in vlib.known_findings("C16")}
    seen_known, real = set(), []
    for (c, dsc, cls) in viol:
        if cls and cls in kf:
            seen_known.add(cls)
        else:
            real.append((c, dsc + (f" [unlisted class {cls}]" if cls else "")))
    for k in sorted(seen_known):
        res.known(k, kf[k])
    for (c, dsc) in real[:3]:
        res.violation(dsc, {"case": c})
    if len(real) > 3:
        log(f"  ... {len(real)} violations in total: " + "; ".join(x[1][:120] for x in real[:30]))
    broken = [o for o in res.obligations if not o[1]]
    if broken and not real:
        res.violation("proof obligation no longer checks: " + "; ".join(o[0] for o in broken),
                      {"broken": [[o[0], o[2]] for o in broken]}, no_input=True)
    return res.finish()


def regex_names_part(d, viol):
    """members of different structs whose regex constants derive the same name (User.profile_name / UserProfile.name):
    each member is validated against its OWN pattern"""
    spec = {"openapi": "3.1.0", "info": {"title": "t", "version": "1"}, "paths": {}, "components": {"schemas": {
        "User": {"type": "object", "properties": {"profile_name": {"type": "string", "pattern": "^[a-z][a-z0-9_]{2,31}$"}, "tag": {"type": "string", "pattern": "^[a-z]+$"}}},
        "UserProfile": {"type": "object", "properties": {"name": {"type": "string", "pattern": "^[A-Z][A-Za-z '-]{0,63}$"}, "tag": {"type": "string", "pattern": "^[a-z]+$"}}},
        "UserProfileName": {"type": "object", "properties": {"v": {"type": "string", "pattern": "^[0-9]+$"}}}}}}
    base = os.path.join(d, "regex_names")
    os.makedirs(base, exist_ok=True)
    sp = os.path.join(base, "spec.json")
    json.dump(spec, open(sp, "w"))
    outp = os.path.join(base, "out.rs")
    rc, txt = vlib.oas(["generate", "types", "-i", sp, "-o", outp, "-q", "--all-schemas", "--no-helpers"], timeout=120)
    if rc != 0:
        viol.append(({"regex_names": True}, f"regex constant names: generation failed {txt[-200:]}", None))
        return 0
    probes = [("User", {"profile_name": "ab_1"}, True), ("User", {"profile_name": "Ab C"}, False), ("UserProfile", {"name": "Ab C"}, True), ("UserProfile", {"name": "ab_1"}, False),
              ("UserProfileName", {"v": "123"}, True), ("UserProfileName", {"v": "abc"}, False), ("User", {"tag": "abc"}, True), ("UserProfile", {"tag": "ABC"}, False)]
    ar = Arena("c16r")
    ar.add_case(0, outp)
    body = "fn main() {\n" + "\n".join(
        f'    {{ let v: case_0::{ty} = serde_json::from_str({json.dumps(json.dumps(doc))}).unwrap(); println!("{k}\t{{}}", validator::Validate::validate(&v).is_ok()); }}'
        for k, (ty, doc, _) in enumerate(probes)) + "\n}\n"
    ar.write_main(body)
    ok, diags, err = ar.cargo("build")
    if not ok:
        viol.append(({"regex_names": True, "spec": spec}, f"regex constant names: the emitted types do not compile: {(diags[0]['message'] if diags else err)[:300]}", None))
        return 0
    rc, so, se = ar.run("")
    got = dict(l.split("\t") for l in so.strip().split("\n") if "\t" in l)
    for k, (ty, doc, want) in enumerate(probes):
        if got.get(str(k)) != ("true" if want else "false"):
            viol.append(({"regex_names": True, "spec": spec}, f"regex constant names: {ty} {json.dumps(doc)}: validate() says {got.get(str(k))}, the member's own pattern says {want}", None))
    return len(probes)


def override_part(d, viol):
    """an operation-level parameter replaces the path-item parameter of the same name and location: the request type of
    the overriding operation carries exactly the validation it carries when only the operation-level one is declared"""
    mem = [(k, m) for (k, m, _) in members() if any(c in m for c in CONSTRAINT_KEYS) and m.get("type") in ("string", "integer", "number")]
    jobs = []
    for loc in ("path", "query", "header"):
        for (key, msch) in mem[::3] if loc != "query" else mem:
            if loc == "path" and msch.get("type") != "string" and "format" not in msch:
                pass
            jobs.append((loc, key, msch))

    def spec_of(loc, msch, with_item):
        name = "code" if loc != "header" else "X-Code"
        p = lambda sch: {"name": name, "in": loc, "required": loc == "path", "schema": sch}
        other = {"name": "keep", "in": "query", "schema": {"type": "string", "maxLength": 9}}
        item = {"get": {"operationId": "purge_items", "parameters": [p(msch)], "responses": {"204": {"description": "n"}}},
                "delete": {"operationId": "wipe_all", "responses": {"204": {"description": "n"}}}}
        item["parameters"] = ([p(loosened(msch))] if with_item else [p(msch)] if False else []) + [other]
        if not with_item and loc == "path":
            item["delete"]["parameters"] = [p({"type": msch.get("type", "string")})]
        return {"openapi": "3.1.0", "info": {"title": "t", "version": "1"}, "paths": {"/items/{code}" if loc == "path" else "/items": item}, "components": {"schemas": {}}}

    def one(j):
        loc, key, msch = j
        texts = []
        for with_item in (True, False):
            base = os.path.join(d, f"ov_{loc}_{key}_{int(with_item)}")
            os.makedirs(base, exist_ok=True)
            sp = os.path.join(base, "spec.json")
            json.dump(spec_of(loc, msch, with_item), open(sp, "w"))
            outp = os.path.join(base, "out.rs")
            rc, txt = vlib.oas(["generate", "types", "-i", sp, "-o", outp, "-q"], timeout=120)
            texts.append((rc, open(outp).read() if rc == 0 and os.path.exists(outp) else txt[-200:]))
        return texts
    n = 0
    for (loc, key, msch), texts in zip(jobs, vlib.pmap(one, jobs)):
        if texts[0][0] != 0 or texts[1][0] != 0:
            viol.append(({"override": [loc, key]}, f"parameter override {loc}/{key}: generation failed: {texts[0][1] if texts[0][0] else texts[1][1]}", None))
            continue
        group = {"path": "Path", "query": "Query", "header": "Header"}[loc]
        pick = lambda t: re.search(r"(?s)((?:#\[[^\n]*\n|///[^\n]*\n)*)pub struct PurgeItemsRequest" + group + r" \{(.*?)\n\}", t)
        a, b = pick(texts[0][1]), pick(texts[1][1])
        n += 1
        strip = lambda m: re.sub(r"(?m)^\s*///.*\n", "", m.group(2)) if m else None
        if a is None or b is None or strip(a) != strip(b):
            viol.append(({"override": [loc, key], "schema": msch, "spec": spec_of(loc, msch, True)},
                         f"parameter override {loc}/{key}: the {group.lower()} struct of the overriding operation differs from the one generated when only the operation declares the parameter {json.dumps(msch)}: {(strip(a) or 'missing').strip()[:200]!r} vs {(strip(b) or 'missing').strip()[:200]!r}", None))
    return n


def client_validates(d):
    spec = {"openapi": "3.1.0", "info": {"title": "t", "version": "1"}, "paths": {
        "/a/{id}": {"post": {"operationId": "make_a", "parameters": [{"name": "id", "in": "path", "required": True, "schema": {"type": "string", "maxLength": 5}},
                                                                      {"name": "n", "in": "query", "schema": {"type": "integer", "minimum": 1}}],
                             "requestBody": {"required": True, "content": {"application/json": {"schema": {"type": "object", "properties": {"s": {"type": "string", "minLength": 2}}}}}},
                             "responses": {"204": {"description": "n"}}},
                    "get": {"operationId": "get_a", "parameters": [{"name": "id", "in": "path", "required": True, "schema": {"type": "string"}}], "responses": {"204": {"description": "n"}}}},
        "/w": {"post": {"operationId": "make_w", "requestBody": {"required": True, "content": {"application/json": {"schema": {"type": "object", "required": ["name"], "properties": {
                                     "name": {"type": "string", "minLength": 3, "pattern": "^w"}, "n": {"type": "integer", "maximum": 9}}}}}}, "responses": {"204": {"description": "n"}}},
               "put": {"operationId": "put_w", "requestBody": {"content": {"application/json": {"schema": {"type": "object", "properties": {"mail": {"type": "string", "format": "email"}}}}}}, "responses": {"204": {"description": "n"}}}},
        "/b": {"delete": {"operationId": "del_b", "parameters": [{"name": "X-K", "in": "header", "schema": {"type": "string", "pattern": "^k"}}], "responses": {"204": {"description": "n"}}}}},
        "components": {"schemas": {}}}
    sp = os.path.join(d, "client.json")
    json.dump(spec, open(sp, "w"))
    outp = os.path.join(d, "client_out")
    rc, txt = vlib.oas(["generate", "client-mod", "-i", sp, "-o", outp, "-q"], timeout=120)
    if rc != 0:
        return 0, [f"client generation failed: {txt[-200:]}"]
    text = open(os.path.join(outp, "client.rs")).read()
    bad, n = [], 0
    for m in re.finditer(r"(?s)pub async fn (\w+)\s*\(([^)]*)\)[^{]*\{(.*?)\n    \}", text):
        name, args, body = m.group(1), m.group(2), m.group(3)
        if "request" not in args:
            continue
        n += 1
        first = body.strip().split(";")[0]
        # the first statement must be `request.validate()...?` (an early return on failure), before any use of the client
        if not re.match(r"^request\s*\.validate\(\)(\s*\.context\([^)]*\))?\s*\?$", first.strip()):
            bad.append(f"{name}: first statement is `{first.strip()[:80]}`")
    return n, bad


def classify_compile(c, diags):
    return None


def classify_unsound(c, v):
    sc = c["schema"]
    if sc.get("type") == "array" and isinstance(sc.get("items"), dict) and any(k in sc["items"] for k in ("minLength", "maxLength", "minimum", "maximum", "exclusiveMinimum", "exclusiveMaximum", "pattern")):
        # the array itself satisfies minItems / maxItems: only an item constraint is violated
        n_ok = (sc.get("minItems", 0) <= len(v)) and (len(v) <= sc.get("maxItems", 10**9))
        if n_ok:
            return "array-item-constraints-not-validated"
    return None


def classify_incomplete(c, v):
    sc = c["schema"]
    if sc.get("format") == "int32":
        if sc.get("exclusiveMaximum", 0) > I32_MAX and v == I32_MAX:
            return "exclusive-bound-clamped"
        if sc.get("exclusiveMinimum", 0) < I32_MIN and v == I32_MIN:
            return "exclusive-bound-clamped"
    return None
