"""Common machinery for /verif checks: builds (repo CLI, vtool, Coq, OCaml drivers),
evidence, violations, known findings."""
import ast, fcntl, glob, hashlib, json, os, re, shutil, subprocess, sys, time

VERIF = os.path.dirname(os.path.dirname(os.path.abspath(__file__)))
REPO = os.environ.get("VERIF_REPO", "/repo")
CACHE = os.path.join(VERIF, ".cache")
COQ = os.path.join(VERIF, "coq")
OAS_BIN = os.path.join(REPO, "target", "debug", "oas3-gen")
VTOOL = os.path.join(CACHE, "vtool-target", "debug", "vtool")
NPROC = os.cpu_count() or 4

ENV = dict(os.environ)
ENV.update({"CARGO_NET_OFFLINE": "true", "CARGO_TERM_COLOR": "never", "NO_COLOR": "1"})
ENV.pop("RUST_BACKTRACE", None)


class Lock:
    def __init__(self, name):
        os.makedirs(os.path.join(CACHE, "locks"), exist_ok=True)
        self.path = os.path.join(CACHE, "locks", name + ".lock")

    def __enter__(self):
        self.f = open(self.path, "w")
        fcntl.flock(self.f, fcntl.LOCK_EX)
        return self

    def __exit__(self, *a):
        fcntl.flock(self.f, fcntl.LOCK_UN)
        self.f.close()


def run(cmd, cwd=None, timeout=None, env=None, input=None):
    p = subprocess.run(cmd, cwd=cwd, timeout=timeout, env=env or ENV, input=input,
                       stdout=subprocess.PIPE, stderr=subprocess.STDOUT, text=True)
    return p.returncode, p.stdout


def log(msg):
    print(f"[check] {msg}", flush=True)


# ------------------------------------------------------------------ builds

def build_repo():
    """cargo build of the current /repo working tree (binary + support crate)."""
    with Lock("repo"):
        t = time.time()
        rc, out = run(["cargo", "build", "--offline", "-q", "-p", "oas3-gen"], cwd=REPO, timeout=1800)
        if rc != 0:
            print(out[-4000:])
            raise SystemExit("FATAL: /repo does not build (cargo build failed); cannot check")
        log(f"repo binary built in {time.time()-t:.1f}s")
    return OAS_BIN


def build_vtool():
    with Lock("vtool"):
        env = dict(ENV)
        env["CARGO_TARGET_DIR"] = os.path.join(CACHE, "vtool-target")
        rc, out = run(["cargo", "build", "--offline", "-q"], cwd=os.path.join(VERIF, "tools", "vtool"),
                      timeout=1800, env=env)
        if rc != 0:
            print(out[-4000:])
            raise SystemExit("FATAL: vtool does not build")
    return VTOOL


def translate():
    """Regenerate coq/Gen from the current sources. Returns report dict {file: {ok, error?}}."""
    build_vtool()
    with Lock("coq"):
        rc, out = run([VTOOL, "translate", REPO, os.path.join(COQ, "Gen")], timeout=300)
    try:
        return json.loads(out)
    except Exception:
        return {"_translator": {"ok": False, "error": out[-2000:]}}


FORBIDDEN = re.compile(r"\b(Admitted|admit|Axiom|Axioms|Parameter|Parameters|Conjecture|Hypothesis|Variable)\b|Unset\s+Guard|bypass_check|type-in-type|impredicative-set|Admit Obligations")


def scan_forbidden():
    """Grep the whole development for declarations the brief forbids. Section Variables/Hypotheses are
    allowed only inside a Section (checked syntactically per file)."""
    bad = []
    for p in sorted(glob.glob(os.path.join(COQ, "**", "*.v"), recursive=True)):
        src = open(p).read()
        src_nc = re.sub(r"\(\*.*?\*\)", "", src, flags=re.S)
        depth = 0
        for ln, line in enumerate(src_nc.split("\n"), 1):
            if re.match(r"\s*Section\b", line):
                depth += 1
            if re.match(r"\s*End\b", line) and depth > 0:
                depth -= 1
            m = FORBIDDEN.search(line)
            if m:
                w = m.group(0)
                if w in ("Variable", "Hypothesis", "Variables") and depth > 0:
                    continue
                bad.append(f"{os.path.relpath(p, VERIF)}:{ln}: {line.strip()[:100]}")
    return bad


def coq_makefile():
    files = []
    for sub in ("Lib", "Gen", "Model", "Proof", "Props", "Extract"):
        files += sorted(glob.glob(os.path.join(COQ, sub, "*.v")))
    rel = [os.path.relpath(f, COQ) for f in files]
    stamp = os.path.join(COQ, ".filelist")
    new = "\n".join(rel)
    old = open(stamp).read() if os.path.exists(stamp) else None
    if old != new or not os.path.exists(os.path.join(COQ, "Makefile")):
        rc, out = run(["coq_makefile", "-f", "_CoqProject", "-o", "Makefile"] + rel, cwd=COQ, timeout=120)
        if rc != 0:
            raise SystemExit("FATAL: coq_makefile failed: " + out)
        open(stamp, "w").write(new)


def coq_make(targets, timeout=3000):
    """Full .vo build of the given targets (paths relative to coq/, .v names). Returns (ok, output)."""
    with Lock("coq"):
        coq_makefile()
        vos = [t[:-2] + ".vo" if t.endswith(".v") else t for t in targets]
        # touch Props files so that Print Assumptions output is produced on every run
        for t in targets:
            if t.startswith("Props/") or t.startswith("Extract/"):
                vo = os.path.join(COQ, t[:-2] + ".vo")
                if os.path.exists(vo):
                    os.remove(vo)
        t0 = time.time()
        rc, out = run(["timeout", str(timeout), "make", f"-j{NPROC}"] + vos, cwd=COQ, timeout=timeout + 60)
        log(f"coq make {' '.join(vos)}: rc={rc} in {time.time()-t0:.1f}s")
        return rc == 0, out


def parse_assumptions(out):
    """Count 'Closed under the global context' vs axiom lists in coqc output."""
    closed = out.count("Closed under the global context")
    axioms = re.findall(r"^Axioms:\n((?:.+\n)+?)(?=\S|\Z)", out, flags=re.M)
    return closed, axioms


def ocaml_build(name, timeout=600):
    """Build .cache/ocaml/<name>/<name>_driver from coq/Extract/<name>_model.ml + ocaml/<name>_driver.ml."""
    d = os.path.join(CACHE, "ocaml", name)
    with Lock("ocaml_" + name):
        os.makedirs(d, exist_ok=True)
        srcs = [os.path.join(COQ, "Extract", f"{name}_model.mli"), os.path.join(COQ, "Extract", f"{name}_model.ml"),
                os.path.join(VERIF, "ocaml", f"{name}_driver.ml")]
        h = hashlib.sha256()
        for s in srcs:
            if not os.path.exists(s):
                return None
            h.update(open(s, "rb").read())
        stamp = os.path.join(d, "stamp")
        exe = os.path.join(d, f"{name}_driver")
        if os.path.exists(exe) and os.path.exists(stamp) and open(stamp).read() == h.hexdigest():
            return exe
        for s in srcs:
            shutil.copy(s, d)
        rc, out = run(["ocamlfind", "ocamlopt", "-w", "-a", f"{name}_model.mli", f"{name}_model.ml",
                       f"{name}_driver.ml", "-o", f"{name}_driver"], cwd=d, timeout=timeout)
        if rc != 0:
            print(out[-3000:])
            return None
        open(stamp, "w").write(h.hexdigest())
        return exe


def run_driver(exe, lines, timeout=1200):
    p = subprocess.run([exe], input="\n".join(lines) + "\n", stdout=subprocess.PIPE, stderr=subprocess.PIPE,
                       text=True, timeout=timeout)
    if p.returncode != 0:
        raise RuntimeError(f"model driver failed: {p.stderr[-2000:]}")
    return p.stdout.split("\n")[:len(lines)]


def coq_doc_lines(scratch_dir, texts, fn="rust_lines (normalize_line_breaks (enc l))", name="doc_cases"):
    """Evaluate rust_lines (normalize_line_breaks t) of coq/Model/DocLines.v inside Coq for every text (UTF-8 bytes).
    Returns a list of lists of str, or None if coqc fails."""
    def lit(t):
        return "[" + "; ".join(str(b) for b in t.encode("utf-8")) + "]"
    src = ("From OAS Require Import Lib.Str Model.DocLines.\nLocal Open Scope list_scope.\n"
           "Definition enc (l : list N) : string := fold_right (fun n s => String (ascii_of_N n) s) EmptyString l.\n"
           "Fixpoint dec (s : string) : list N := match s with EmptyString => [] | String c r => N_of_ascii c :: dec r end.\n"
           "Definition run (l : list N) := map dec (" + fn + ").\n"
           "Eval vm_compute in map run [" + ";\n ".join(lit(t) for t in texts) + "].\n")
    f = os.path.join(scratch_dir, name + ".v")
    open(f, "w").write(src)
    with Lock("coq"):
        rc, out = run(["timeout", "300", "coqc", "-noglob", "-Q", COQ, "OAS", f], cwd=scratch_dir, timeout=360)
    if rc != 0:
        log("coqc doc_cases.v failed: " + out[-500:])
        return None
    m = re.search(r"=\s*(\[.*\])\s*:\s*list", out, flags=re.S)
    if not m:
        return None
    body = re.sub(r"%N", "", m.group(1)).replace(";", ",")
    val = ast.literal_eval(re.sub(r"\s+", " ", body))
    return [[bytes(l).decode("utf-8", errors="replace") for l in ls] for ls in val]


# ------------------------------------------------------------------ CLI helpers

def oas(args, timeout=60, cwd=None, env=None):
    """Run the freshly built CLI. Returns (rc, stdout+stderr)."""
    try:
        p = subprocess.run([OAS_BIN] + args, stdout=subprocess.PIPE, stderr=subprocess.STDOUT, text=True,
                           timeout=timeout, env=env or ENV, cwd=cwd)
        return p.returncode, p.stdout
    except subprocess.TimeoutExpired:
        return -999, "TIMEOUT"


def scratch(prop):
    d = os.path.join(CACHE, "scratch", prop)
    shutil.rmtree(d, ignore_errors=True)
    os.makedirs(d, exist_ok=True)
    return d


def vtool_lines(cmd, files):
    p = subprocess.run([VTOOL, cmd, "-"], input="\n".join(files) + "\n", stdout=subprocess.PIPE,
                       stderr=subprocess.PIPE, text=True, timeout=1200)
    return [json.loads(l) for l in p.stdout.split("\n") if l.strip()]


def pmap(fn, items, workers=None):
    from concurrent.futures import ThreadPoolExecutor
    with ThreadPoolExecutor(max_workers=workers or NPROC) as ex:
        return list(ex.map(fn, items))


# ------------------------------------------------------------------ known findings

def known_findings(prop):
    """Parse /verif/known-findings.txt: lines 'known: property=<id> key=<k> <text>' / 'fixed: ...'."""
    res = []
    p = os.path.join(VERIF, "known-findings.txt")
    if not os.path.exists(p):
        return res
    for line in open(p):
        line = line.strip()
        m = re.match(r"known:\s+property=(\S+)\s+key=(\S+)\s+(.*)", line)
        if m and m.group(1) == prop:
            res.append({"key": m.group(2), "text": m.group(3)})
    return res


# ------------------------------------------------------------------ result reporting

class Result:
    def __init__(self, prop, tier, seed, level="proof"):
        self.prop, self.tier, self.seed, self.level = prop, tier, seed, level
        self.t0 = time.time()
        self.obligations = []      # (name, ok:bool, detail)
        self.violations = []       # dict(kind, detail, replay)
        self.known_hits = []
        self.cov = {"samples": [], "trusted_base": [], "checker_cmd": ""}
        self.assumptions = []
        self.counts = {}

    def oblige(self, name, ok, detail=""):
        self.obligations.append((name, bool(ok), detail))
        if not ok:
            log(f"obligation FAILED: {name} {detail[:300]}")

    def sample(self, s):
        if len(self.cov["samples"]) < 12:
            self.cov["samples"].append(s)

    def violation(self, detail, replay_obj, no_input=False):
        os.makedirs(os.path.join(VERIF, "replays"), exist_ok=True)
        h = hashlib.sha256(json.dumps(replay_obj, sort_keys=True, default=str).encode()).hexdigest()[:12]
        path = os.path.join(VERIF, "replays", f"{self.prop}-{h}.json")
        replay_obj = dict(replay_obj)
        replay_obj["property"] = self.prop
        replay_obj["detail"] = detail
        json.dump(replay_obj, open(path, "w"), indent=1, default=str)
        self.violations.append({"detail": detail, "replay": path, "no_input": no_input})

    def known(self, key, text):
        self.known_hits.append((key, text))

    def finish(self):
        wall = time.time() - self.t0
        nob = len(self.obligations)
        ndis = sum(1 for o in self.obligations if o[1])
        cov = dict(self.cov)
        cov.update(self.counts)
        cov["obligations"] = nob
        cov["discharged"] = ndis
        cov["obligation_names"] = [o[0][:160] for o in self.obligations]
        cov["failed_obligations"] = [f"{o[0]}: {o[2][:200]}" for o in self.obligations if not o[1]]
        ev = {"property_id": self.prop, "tier": self.tier, "seed": self.seed, "level": self.level,
              "coverage": cov, "assumptions": self.assumptions, "wall_s": round(wall, 1),
              "violations": len(self.violations)}
        os.makedirs(os.path.join(VERIF, "evidence"), exist_ok=True)
        json.dump(ev, open(os.path.join(VERIF, "evidence", f"{self.prop}.json"), "w"), indent=1, default=str)
        for key, text in self.known_hits:
            print(f"KNOWN-FINDING: property={self.prop} {key}: {text}")
        for v in self.violations:
            tail = " no-failing-input-found" if v["no_input"] else ""
            print(f"VIOLATION property={self.prop} replay={v['replay']}{tail}")
            log("  " + v["detail"][:500])
        log(f"{self.prop} {self.tier}: obligations {ndis}/{nob}, violations {len(self.violations)}, "
            f"known {len(self.known_hits)}, {wall:.1f}s")
        return 1 if self.violations else 0


COMMON_TRUSTED = [
    "Coq 8.16.1 kernel incl. vm_compute (used for finite sweeps); native_compute not used",
    "tools/vtool translate (syn-based translator, fails closed) for coq/Gen/*.v",
    "Coq extraction with ExtrOcamlBasic + ExtrOcamlString (Extract Inductive bool/list/option/prod/unit/sumbool/ascii/string; no Extract Constant of ours beyond those libraries') and ocaml/*_driver.ml",
    "tools/vtool read-back (syn) of the emitted files; lib/*.py harness",
]


def standard_coq_obligations(res, targets, theorem_names, expect_closed=None):
    """make targets; record one obligation per theorem; check forbidden words and assumptions.
    Returns (ok, output)."""
    bad = scan_forbidden()
    res.oblige("no Admitted/Axiom/Parameter/guard switches in coq/", not bad, "; ".join(bad[:5]))
    ok, out = coq_make(targets)
    closed, axioms = parse_assumptions(out)
    err = ""
    if not ok:
        m = re.search(r"(File .*?\n(?:.*\n){0,12}?.*?Error.*(?:\n.*){0,8})", out)
        err = m.group(1) if m else out[-1500:]
    for n in theorem_names:
        res.oblige(f"theorem {n} checked by coqc", ok, err)
    if ok:
        n_expect = expect_closed if expect_closed is not None else len(theorem_names)
        res.oblige("Print Assumptions: closed under the global context for every pinned theorem",
                   closed >= n_expect and not axioms, f"closed={closed} expected>={n_expect} axioms={axioms}")
    res.cov["checker_cmd"] = f"cd coq && coq_makefile -f _CoqProject -o Makefile <all .v> && make -j{NPROC} " + " ".join(
        t[:-2] + ".vo" for t in targets)
    return ok, out
