"""C03 — the generated client emits exactly the HTTP request the operation describes."""
import binascii, json, os, random, re, urllib.parse
import vlib
from vlib import Result, log
from arena import Arena

THEOREMS = ["C03_param_merge_spec", "C03_param_merge_unique", "C03_param_op_level_wins", "C03_param_item_level_overridden", "C03_param_merge_from_source", "C03_param_merge_nonvacuous", "C03_segment_roundtrip", "C03_segment_stays_one", "C03_layout_exploded", "C03_layout_joined", "C03_layout_absent", "C03_explode_default_from_source",
            "C03_joined_ambiguous_refuted", "C03_nonvacuous"]
TARGETS = ["Props/C03.v", "Extract/C03.v"]

BASE_PATH = "/v1/base"


def feature_spec():
    ok = {"204": {"description": "n"}}
    P = lambda name, where, schema, **kw: dict({"name": name, "in": where, "schema": schema}, **kw)
    S, I, B = {"type": "string"}, {"type": "integer"}, {"type": "boolean"}
    arr = lambda it: {"type": "array", "items": it}
    paths = {
        "/plain": {"get": {"operationId": "get_plain", "responses": ok},
                   "delete": {"operationId": "delete_plain", "parameters": [P("q", "query", S)], "responses": ok},
                   "head": {"operationId": "head_plain", "responses": ok},
                   "options": {"operationId": "options_plain", "parameters": [P("q", "query", S)], "responses": ok}},
        "/one/{id}": {"get": {"operationId": "get_one", "parameters": [P("id", "path", S, required=True)], "responses": ok}},
        "/two/{x}/mid/{y}": {"parameters": [P("x", "path", S, required=True)],
                             "get": {"operationId": "get_two", "parameters": [P("y", "path", I, required=True)], "responses": ok}},
        "/mixed/pre{n}post/{kind}/v{ver}": {"post": {"operationId": "post_mixed", "parameters": [
            P("n", "path", S, required=True), P("kind", "path", {"type": "string", "enum": ["a b", "c/d", "plain"]}, required=True), P("ver", "path", I, required=True)], "responses": ok}},
        "/query": {"parameters": [P("shared", "query", S), P("over", "query", S)],
                   "get": {"operationId": "get_query", "parameters": [
                       P("over", "query", I), P("s", "query", S), P("page-size", "query", I), P("flag", "query", B), P("req", "query", S, required=True),
                       P("color", "query", {"type": "string", "enum": ["red", "dark blue"]}),
                       P("csv", "query", arr(S), explode=False), P("exp", "query", arr(S), explode=True), P("dflt", "query", arr(I)),
                       P("sp", "query", arr(S), style="spaceDelimited", explode=False), P("pipe", "query", arr(S), style="pipeDelimited", explode=False),
                       P("sp2", "query", arr(S), style="spaceDelimited"), P("pipe2", "query", arr(S), style="pipeDelimited"),
                       P("nums", "query", arr(I), explode=False), P("pnums", "query", arr({"type": "integer", "format": "int32"}), style="pipeDelimited"),
                       P("flags", "query", arr(B), explode=False)],   # explode defaults to false for these styles
                       "responses": ok}},
        # required strings for which the schema itself admits the empty string (an explicit minLength 0, or only a maxLength)
        "/zero": {"get": {"operationId": "get_zero", "parameters": [P("q0", "query", {"type": "string", "minLength": 0}, required=True), P("q1", "query", {"type": "string", "maxLength": 5}, required=True),
                                                                    P("q2", "query", {"type": "string", "minLength": 0, "maxLength": 9}, required=True), P("X-Z", "header", {"type": "string", "minLength": 0}, required=True)],
                          "responses": ok}},
        "/dual": {"parameters": [P("version", "header", S), P("X-Request-Id", "header", S), P("mode", "query", S)],
                  "get": {"operationId": "get_dual", "parameters": [P("version", "query", S), P("mode", "header", S)], "responses": ok}},
        "/headers": {"put": {"operationId": "put_headers", "parameters": [
            P("X-Trace-Id", "header", S, required=True), P("X-Count", "header", I), P("X-Flag", "header", B), P("X-List", "header", arr(S)),
            P("x-lower", "header", S)], "responses": ok}},
        "/body/json": {"post": {"operationId": "post_json", "requestBody": {"required": True, "content": {"application/json": {"schema": {
            "type": "object", "properties": {"a": S, "n": I, "list": arr(S)}}}}}, "responses": ok},
                       "patch": {"operationId": "patch_json_opt", "requestBody": {"content": {"application/json": {"schema": {"type": "object", "properties": {"a": S}}}}}, "responses": ok}},
        # bodies on methods other than POST / PUT / PATCH, and cookie parameters next to query parameters
        "/body/del": {"delete": {"operationId": "delete_bulk", "requestBody": {"required": True, "content": {"application/json": {"schema": {"type": "object", "properties": {"a": S, "n": I}}}}}, "responses": ok},
                      "get": {"operationId": "get_search", "parameters": [P("q", "query", S), P("consent", "cookie", {"type": "string", "default": "none"}), P("SESSIONID", "cookie", S, required=True)],
                              "requestBody": {"required": True, "content": {"application/json": {"schema": {"type": "object", "properties": {"a": S}}}}}, "responses": ok}},
        "/body/form": {"post": {"operationId": "post_form", "requestBody": {"required": True, "content": {"application/x-www-form-urlencoded": {"schema": {
            "type": "object", "properties": {"a": S, "b": I}}}}}, "responses": ok}},
        "/body/text": {"post": {"operationId": "post_text", "requestBody": {"required": True, "content": {"text/plain": {"schema": S}}}, "responses": ok}},
        "/body/bin": {"put": {"operationId": "put_bin", "requestBody": {"required": True, "content": {"application/octet-stream": {"schema": {"type": "string", "format": "binary"}}}}, "responses": ok}},
        "/body/multi": {"post": {"operationId": "post_multi", "requestBody": {"required": True, "content": {"multipart/form-data": {"schema": {
            "type": "object", "properties": {"file": {"type": "string", "format": "binary"}, "note": S}}}}}, "responses": ok}},
        "/body/multiref": {"post": {"operationId": "post_multi_ref", "requestBody": {"required": True, "content": {"multipart/form-data": {"schema": {"$ref": "#/components/schemas/Upload"}}}}, "responses": ok}},
    }
    upload = {"type": "object", "required": ["title"], "properties": {"title": S, "count": I, "flag": B, "note": S}}
    return {"openapi": "3.1.0", "info": {"title": "wire", "version": "1"}, "servers": [{"url": "https://api.example.com" + BASE_PATH}], "paths": paths, "components": {"schemas": {"Upload": upload}}}


TRICKY = ["plain", "a/b", "a b", "ü日😀", "100%", "?#&=", "%2F", "a+b", "x;y=z,w", "q\"uote'", "back\\slash", "~-._"]
DOTS = [".", "..", "..."]


def probes():
    """(operation id, {param name: value}, body)"""
    out = []
    out.append(("get_plain", {}, None))
    out.append(("head_plain", {}, None))
    out.append(("options_plain", {"q": "a b"}, None))
    out.append(("delete_plain", {"q": "v"}, None))
    out.append(("delete_plain", {}, None))
    for v in TRICKY + DOTS:
        out.append(("get_one", {"id": v}, None))
    for v in TRICKY[:6]:
        out.append(("get_two", {"x": v, "y": 7}, None))
    for y in (0, -1, 2**63 - 1, -2**63):
        out.append(("get_two", {"x": "k", "y": y}, None))
    for n in ("N", "a/b", "é", "%"):
        for kind in ("a b", "c/d", "plain"):
            out.append(("post_mixed", {"n": n, "kind": kind, "ver": 3}, None))
    out.append(("get_query", {"req": "r"}, None))
    for v in TRICKY:
        out.append(("get_query", {"req": v, "s": v, "shared": v}, None))
    out.append(("get_query", {"req": "r", "over": 5, "page-size": -3, "flag": True, "color": "dark blue"}, None))
    out.append(("get_query", {"req": "r", "flag": False, "color": "red", "page-size": 2**63 - 1}, None))
    for vs in (["a"], ["a", "b c"], ["é", "x&y=z"], []):
        for nm in ("csv", "sp", "pipe", "sp2", "pipe2", "exp"):
            out.append(("get_query", {"req": "r", nm: vs}, None))
    for vs in ([1], [1, -2, 3], []):
        out.append(("get_query", {"req": "r", "dflt": vs}, None))
        out.append(("get_query", {"req": "r", "nums": vs}, None))
        out.append(("get_query", {"req": "r", "pnums": vs}, None))
    out.append(("get_query", {"req": "r", "flags": [True, False]}, None))
    out.append(("get_dual", {"version@header": "h1", "version@query": "q1", "X-Request-Id": "rid", "mode@query": "mq", "mode@header": "mh"}, None))
    out.append(("get_dual", {"version@header": "only-header"}, None))
    out.append(("get_dual", {"version@query": "only-query"}, None))
    out.append(("get_zero", {"q0": "", "q1": "", "q2": "", "X-Z": ""}, None))
    out.append(("get_zero", {"q0": "a b", "q1": "12345", "q2": "", "X-Z": "z"}, None))
    out.append(("put_headers", {"X-Trace-Id": "t-1"}, None))
    out.append(("put_headers", {"X-Trace-Id": "abc def;=,", "X-Count": -5, "X-Flag": True, "X-List": ["a", "b c"], "x-lower": "v"}, None))
    out.append(("put_headers", {"X-Trace-Id": "t", "X-List": []}, None))
    out.append(("put_headers", {"X-Trace-Id": "t", "x-lower": "café"}, None))
    out.append(("put_headers", {"X-Trace-Id": "t", "x-lower": ""}, None))          # an empty string is a supplied value
    out.append(("get_dual", {"version@header": "", "mode@query": ""}, None))
    out.append(("get_query", {"req": "r", "s": "", "shared": ""}, None))
    for body in ({"a": "x", "n": 5, "list": ["p", "q"]}, {"a": "ü \"q\" \\ \n", "n": -1}, {}):
        out.append(("post_json", {}, body))
    out.append(("delete_bulk", {}, {"a": "gone", "n": 2}))
    out.append(("get_search", {"q": "lamp"}, {"a": "term"}))
    out.append(("get_search", {}, {}))
    out.append(("patch_json_opt", {}, {"a": "x"}))
    out.append(("patch_json_opt", {}, None))
    for body in ({"a": "x y&z=1+2", "b": 7}, {"a": "é"}, {}):
        out.append(("post_form", {}, body))
    for body in ("hello", "ü日\n\ttab", ""):
        out.append(("post_text", {}, body))
    for body in ([0, 1, 2, 255, 13, 10], []):
        out.append(("put_bin", {}, body))
    out.append(("post_multi", {}, {"file": [1, 2, 3, 255], "note": "n ü"}))
    out.append(("post_multi", {}, {"note": "only"}))
    out.append(("post_multi_ref", {}, {"title": "Quarterly report", "count": 3, "flag": True}))
    out.append(("post_multi_ref", {}, {"title": "q\"uoted ü", "note": "n"}))
    return out


ALPHA = list("abzAZ09 /%?#&=+;,:@!$'()*[]~-._\"\\<>{}|^`") + ["ü", "日", "😀", "é", "\u00a0"]
HALPHA = list("abzAZ09 /%?#&=+;,:@!$'()*[]~-._\"\\<>{}|^`")


def rtext(rnd, alpha=ALPHA, lo=1, hi=8, ban=""):
    return "".join(rnd.choice([c for c in alpha if c not in ban]) for _ in range(rnd.randint(lo, hi)))


def random_probes(rnd, n):
    """seeded probes over the same feature spec: random texts from the reserved / non-ASCII alphabet in every position"""
    out = []
    rint = lambda: rnd.choice([0, 1, -1, 7, 2**31 - 1, -2**31, 2**63 - 1, -2**63, rnd.randint(-10**6, 10**6)])
    for _ in range(n):
        k = rnd.randrange(9)
        if k == 0:
            out.append(("get_one", {"id": rtext(rnd)}, None))
        elif k == 1:
            out.append(("get_two", {"x": rtext(rnd), "y": rint()}, None))
        elif k == 2:
            out.append(("post_mixed", {"n": rtext(rnd), "kind": rnd.choice(["a b", "c/d", "plain"]), "ver": rint()}, None))
        elif k == 3:
            vals = {"req": rtext(rnd)}   # required strings are validated non-empty (C16 states the carve-out)
            for nm in ("s", "shared"):
                if rnd.random() < 0.5:
                    vals[nm] = rtext(rnd, lo=0)
            if rnd.random() < 0.4:
                vals["over"] = rint()
            if rnd.random() < 0.4:
                vals["page-size"] = rint()
            if rnd.random() < 0.3:
                vals["flag"] = rnd.random() < 0.5
            if rnd.random() < 0.3:
                vals["color"] = rnd.choice(["red", "dark blue"])
            out.append(("get_query", vals, None))
        elif k == 4:
            # arrays laid out by a delimiter: the items never contain that delimiter and are never empty
            vals = {"req": "r"}
            for nm, ban in rnd.sample([("csv", ","), ("sp", " "), ("pipe", "|"), ("sp2", " "), ("pipe2", "|")], 2):
                vals[nm] = [rtext(rnd, ban=ban) for _ in range(rnd.randint(0, 4))]
            if rnd.random() < 0.5:
                vals[rnd.choice(["nums", "pnums"])] = [rnd.randint(-2**31, 2**31 - 1) for _ in range(rnd.randint(0, 4))]
            if rnd.random() < 0.3:
                vals["flags"] = [rnd.random() < 0.5 for _ in range(rnd.randint(1, 3))]
            out.append(("get_query", vals, None))
        elif k == 5:
            vals = {}
            for key in ("version@header", "version@query", "X-Request-Id", "mode@query", "mode@header"):
                if rnd.random() < 0.6:
                    vals[key] = rtext(rnd) if key.endswith("@query") else rtext(rnd, HALPHA).strip() or "h"
            if vals:
                out.append(("get_dual", vals, None))
        elif k == 6:
            vals = {"X-Trace-Id": rtext(rnd, HALPHA).strip() or "t"}
            if rnd.random() < 0.5:
                vals["X-Count"] = rint()
            if rnd.random() < 0.5:
                vals["X-Flag"] = rnd.random() < 0.5
            if rnd.random() < 0.5:
                vals["x-lower"] = rtext(rnd, HALPHA, lo=0).strip()
            if rnd.random() < 0.4:
                vals["X-List"] = [rtext(rnd, HALPHA, ban=", ") for _ in range(rnd.randint(0, 3))]
            out.append(("put_headers", vals, None))
        elif k == 7:
            body = {}
            if rnd.random() < 0.8:
                body["a"] = rtext(rnd, ALPHA + ["\n", "\t", "\u0001"], lo=0)
            if rnd.random() < 0.6:
                body["n"] = rint()
            if rnd.random() < 0.4:
                body["list"] = [rtext(rnd, lo=0) for _ in range(rnd.randint(0, 3))]
            out.append((rnd.choice(["post_json", "post_json", "patch_json_opt"]), {}, body if rnd.random() < 0.9 else {}))
            if out[-1][0] == "patch_json_opt":
                out[-1] = ("patch_json_opt", {}, {"a": body["a"]} if "a" in body else None)
        else:
            c = rnd.randrange(4)
            if c == 0:
                body = {}
                if rnd.random() < 0.8:
                    body["a"] = rtext(rnd, lo=0)
                if rnd.random() < 0.5:
                    body["b"] = rint()
                out.append(("post_form", {}, body))
            elif c == 1:
                out.append(("post_text", {}, rtext(rnd, ALPHA + ["\n", "\r\n", "\t"], lo=0, hi=20)))
            elif c == 2:
                out.append(("put_bin", {}, [rnd.randrange(256) for _ in range(rnd.randint(0, 40))]))
            else:
                body = {"title": rtext(rnd, lo=1)}
                if rnd.random() < 0.5:
                    body["count"] = rint()
                if rnd.random() < 0.5:
                    body["flag"] = rnd.random() < 0.5
                if rnd.random() < 0.5:
                    body["note"] = rtext(rnd, ALPHA + ["\n"], lo=0)
                out.append(("post_multi_ref", {}, body))
    return out


# ---------------------------------------------------------------- Rust value construction from emitted types

def field_name(param):
    return re.sub(r"[^a-z0-9]+", "_", param.lower()).strip("_")


def rust_string(s):
    if not isinstance(s, str):
        raise ValueError(f"the member is a string but the declared parameter's value is {s!r}: the emitted member type does not follow the declaration")
    b = s.encode("utf-8")
    return "String::from_utf8(vec![" + ", ".join(f"{x}u8" for x in b) + "]).unwrap()"


def rust_expr(ty, v, types):
    ty = ty.replace(" ", "")
    while ty in types["alias"]:
        ty = types["alias"][ty].replace(" ", "")
    m = re.match(r"^Option<(.*)>$", ty)
    if m:
        return "None" if v is None else f"Some({rust_expr(m.group(1), v, types)})"
    m = re.match(r"^Vec<(.*)>$", ty)
    if m:
        if m.group(1) == "u8" and isinstance(v, list):
            return "vec![" + ", ".join(f"{x}u8" for x in v) + "]"
        return "vec![" + ", ".join(rust_expr(m.group(1), x, types) for x in v) + "]"
    m = re.match(r"^Box<(.*)>$", ty)
    if m:
        return f"Box::new({rust_expr(m.group(1), v, types)})"
    if ty == "String":
        return rust_string(v)
    if ty in ("i64", "i32", "i16", "i8", "u64", "u32", "u16", "u8"):
        return f"({v}{ty})" if v >= 0 else f"({v}{ty})"
    if ty in ("f64", "f32"):
        return f"({float(v)}{ty})"
    if ty == "bool":
        return "true" if v else "false"
    if ty in types["enum"]:
        for var, wire in types["enum"][ty].items():
            if wire == v:
                return f"M::{ty}::{var}"
        raise ValueError(f"no variant of {ty} for {v!r}")
    if ty in types["struct"]:
        fs = types["struct"][ty]
        parts = ["let mut s = M::" + ty + "::default();"]
        for k, val in (v or {}).items():
            f = fs.get(k) or fs.get(field_name(k))
            if f is None:
                raise ValueError(f"{ty} has no member for {k}")
            parts.append(f"s.{f[0]} = {rust_expr(f[1], val, types)};")
        return "{ " + " ".join(parts) + " s }"
    raise ValueError(f"unsupported type {ty}")


def read_types(dump):
    types = {"alias": {}, "enum": {}, "struct": {}}
    for it in dump.get("items", []):
        if it["kind"] == "type":
            types["alias"][it["name"]] = it["ty"]
        elif it["kind"] == "enum":
            vs = {}
            for v in it["variants"]:
                wire = v["name"]
                for a in v["attrs"]:
                    m = re.search(r'rename\s*=\s*"((?:[^"\\]|\\.)*)"', a.get("attr", "") or "")
                    if m:
                        wire = json.loads('"' + m.group(1) + '"')
                vs[v["name"]] = wire
            types["enum"][it["name"]] = vs
        elif it["kind"] == "struct":
            fs = {}
            for f in it["fields"]:
                wire = f["name"].replace("r#", "")
                for a in f["attrs"]:
                    m = re.search(r'rename\s*=\s*"((?:[^"\\]|\\.)*)"', a.get("attr", "") or "")
                    if m:
                        wire = json.loads('"' + m.group(1) + '"')
                fs[wire] = (f["name"], f["ty"])
                fs.setdefault(f["name"].replace("r#", ""), (f["name"], f["ty"]))
            types["struct"][it["name"]] = fs
    return types


def pascal(op_id):
    return "".join(w[:1].upper() + w[1:] for w in op_id.split("_"))


RUNNER_PRELUDE = r'''
use std::io::{Read, Write};
fn hex(b: &[u8]) -> String { b.iter().map(|x| format!("{:02x}", x)).collect() }
fn find(h: &[u8], n: &[u8]) -> Option<usize> { h.windows(n.len()).position(|w| w == n) }
fn read_request(s: &mut std::net::TcpStream) -> Vec<u8> {
    let _ = s.set_read_timeout(Some(std::time::Duration::from_secs(5)));
    let mut buf: Vec<u8> = vec![];
    let mut tmp = [0u8; 4096];
    loop {
        if let Some(he) = find(&buf, b"\r\n\r\n") {
            let head = String::from_utf8_lossy(&buf[..he]).to_lowercase();
            let body = &buf[he + 4..];
            if head.contains("transfer-encoding: chunked") {
                if find(body, b"0\r\n\r\n").is_some() { break; }
            } else {
                let cl = head.lines().find_map(|l| l.strip_prefix("content-length:").map(|v| v.trim().parse::<usize>().unwrap_or(0))).unwrap_or(0);
                if body.len() >= cl { break; }
            }
        }
        match s.read(&mut tmp) { Ok(0) => break, Ok(n) => buf.extend_from_slice(&tmp[..n]), Err(_) => break }
    }
    buf
}
fn capture_server() -> (u16, std::sync::mpsc::Receiver<Vec<u8>>) {
    let l = std::net::TcpListener::bind("127.0.0.1:0").unwrap();
    let port = l.local_addr().unwrap().port();
    let (tx, rx) = std::sync::mpsc::channel();
    std::thread::spawn(move || {
        if let Ok((mut s, _)) = l.accept() {
            let req = read_request(&mut s);
            let _ = s.write_all(b"HTTP/1.1 204 No Content\r\nContent-Length: 0\r\nConnection: close\r\n\r\n");
            let _ = tx.send(req);
        }
    });
    (port, rx)
}
'''


# ---------------------------------------------------------------- parameter declarations: path item vs operation

PM_TYPES = [("string", "String"), ("integer", "i64"), ("boolean", "bool"), ("number", "f64")]


def param_merge_part(exe, rnd, n, viol, dis):
    """random path-item / operation-level parameter lists (overlapping names and locations, different schemas): the members
    of the emitted query / header / path structs, in order, with their types, against the extracted collect_parameters"""
    d = vlib.scratch("C03m")
    cases = []
    for k in range(n):
        names = ["a", "b", "c", "d"]
        def plist(kmax):
            out, seen = [], set()
            for _ in range(rnd.randint(0, kmax)):
                loc = rnd.choice(["query", "query", "header", "path"])
                nm = rnd.choice(["x", "y"] if loc == "path" else names)
                if (loc, nm) in seen:
                    continue
                seen.add((loc, nm))
                out.append((loc, nm, rnd.randrange(len(PM_TYPES))))
            return out
        item, ops = plist(4), plist(5)
        # both template variables are declared somewhere
        for v in ("x", "y"):
            if not any(l == "path" and nm == v for l, nm, _ in item + ops):
                (item if rnd.random() < 0.5 else ops).append(("path", v, rnd.randrange(len(PM_TYPES))))
        cases.append((item, ops))
    mk = lambda l, nm, t: {"name": nm if l != "header" else "X-" + nm.upper(), "in": l, "required": l == "path", "schema": {"type": PM_TYPES[t][0]}}

    def one(k):
        item, ops = cases[k]
        spec = {"openapi": "3.1.0", "info": {"title": "t", "version": "1"}, "paths": {"/m/{x}/{y}": {
            "parameters": [mk(*p) for p in item], "get": {"operationId": "fetch_merged", "parameters": [mk(*p) for p in ops], "responses": {"204": {"description": "n"}}},
            "delete": {"operationId": "drop_plain", "responses": {"204": {"description": "n"}}}}}, "components": {"schemas": {}}}
        sp = os.path.join(d, f"s{k}.json")
        json.dump(spec, open(sp, "w"))
        out = os.path.join(d, f"o{k}.rs")
        rc, txt = vlib.oas(["generate", "types", "-i", sp, "-o", out, "-q"], timeout=60)
        return rc, txt[-200:], out
    outs = vlib.pmap(one, range(n))
    dumps = vlib.vtool_lines("dump", [o[2] for o in outs])
    loc_code = {"path": 1, "query": 2, "header": 3}
    ids, queries = [], []
    for item, ops in cases:
        table = {}
        def tok(p):
            table[len(table) + 1] = p
            return f"{loc_code[p[0]]}:{p[1]}:{len(table)}"
        queries.append("params " + " ".join(tok(p) for p in item) + " // " + " ".join(tok(p) for p in ops))
        ids.append(table)
    model = vlib.run_driver(exe, queries) if exe else []
    n_cmp = 0
    for k, ((item, ops), (rc, txt, _), dump) in enumerate(zip(cases, outs, dumps)):
        if rc != 0 or "error" in dump:
            viol.append((("param-merge", item, ops), f"parameter lists item={item} operation={ops}: generation failed rc={rc} {txt}", None))
            continue
        structs = {x["name"]: [(f["name"], f["ty"].replace(" ", "")) for f in x.get("fields", [])] for x in dump["items"] if x["kind"] == "struct"}
        if k >= len(model) or not model[k].startswith("C"):
            dis.append(f"param-merge: model answer {model[k] if k < len(model) else None!r}")
            continue
        want = [ids[k][int(t)] for t in model[k].split()[1:]]
        n_cmp += 1
        for loc, sname in (("path", "FetchMergedRequestPath"), ("query", "FetchMergedRequestQuery"), ("header", "FetchMergedRequestHeader")):
            exp = [((nm if loc != "header" else "x_" + nm), PM_TYPES[t][1] if loc == "path" else f"Option<{PM_TYPES[t][1]}>") for (l, nm, t) in want if l == loc]
            got = structs.get(sname, [])
            if got != exp:
                msg = f"parameter lists item={item} operation={ops}: {sname} has the members {got}, the operation's {loc} parameters are {exp} (operation level replaces the path item's)"
                viol.append((("param-merge", item, ops), msg, None))
                break
    return n_cmp


def ctor_line(client_name, kind, bp):
    url = f'format!("http://127.0.0.1:{{}}{bp}", port)'
    if kind == "client":
        return f"let client = M::{client_name}::with_client({url}, reqwest::Client::new()).unwrap();"
    if kind == "member":
        return f'let mut client = M::{client_name}::with_base_url("http://127.0.0.1:1/").unwrap(); client.base_url = {url}.parse().unwrap();'
    return f"let client = M::{client_name}::with_base_url({url}).unwrap();"


def main(tier, seed, replay=None):
    res = Result("C03", tier, seed)
    vlib.build_repo()
    vlib.build_vtool()
    rep = vlib.translate()
    r = rep.get("Params.v", {"ok": False, "error": "missing"})
    res.oblige("translator: Gen/Params.v regenerated from current source", r.get("ok"), r.get("error", ""))
    coq_ok, out = vlib.standard_coq_obligations(res, TARGETS, THEOREMS, expect_closed=8)
    exe = vlib.ocaml_build("c03")
    res.oblige("extracted model (pct_decode, enc_segment, layout, split) builds", exe is not None)
    pm_viol, pm_dis = [], []
    n_pm = param_merge_part(exe, random.Random(f"c03m-{seed}"), 60 if tier == "quick" else 600, pm_viol, pm_dis) if exe else 0
    res.oblige(f"correspondence: members of the request's path / query / header structs = extracted collect_parameters on {n_pm} random path-item / operation parameter lists", not pm_dis and not pm_viol, "; ".join(pm_dis[:2] + [v[1] for v in pm_viol[:1]]))
    d = vlib.scratch("C03")
    spec = feature_spec()
    sp = os.path.join(d, "spec.json")
    json.dump(spec, open(sp, "w"))
    viol = list(pm_viol)
    # (base path, how the client is constructed: with_base_url / with_client / the public base_url member set afterwards)
    variants = [("base", BASE_PATH), ("base-slash", BASE_PATH + "/"), ("root", ""), ("slash-with-client", BASE_PATH + "/"), ("slash-member", BASE_PATH + "/"), ("plain-with-client", BASE_PATH)]
    ctor_of = {"slash-with-client": "client", "plain-with-client": "client", "slash-member": "member"}
    outp = os.path.join(d, "out")
    rc, txt = vlib.oas(["generate", "client-mod", "-i", sp, "-o", outp, "-q"], timeout=120)
    if rc != 0:
        res.oblige("generator accepts the feature spec", False, txt[-300:])
        return res.finish()
    dump = vlib.vtool_lines("dump", [os.path.join(outp, "types.rs")])[0]
    types = read_types(dump)
    ctext = open(os.path.join(outp, "client.rs")).read()
    client_name = re.search(r"pub struct (\w+Client)\b", ctext).group(1)
    ops = {}
    for path, item in spec["paths"].items():
        for m, op in item.items():
            if m == "parameters":
                continue
            params = {(p["name"], p["in"]): p for p in item.get("parameters", [])}
            params.update({(p["name"], p["in"]): p for p in op.get("parameters", [])})
            ops[op["operationId"]] = {"method": m.upper(), "path": path, "params": list(params.values()), "body": op.get("requestBody")}
    pr = probes() + random_probes(random.Random(f"c03-{seed}"), 60 if tier == "quick" else 1500)
    if replay:
        r = json.load(open(replay))
        if "probe" in r:
            pr = [tuple(r["probe"])]
    blocks, build_err = [], []
    for k, (opid, vals, body) in enumerate(pr):
        op = ops[opid]
        req_ty = pascal(opid) + "Request"
        try:
            lines = [f"let mut r = M::{req_ty}::default();"]
            for p in op["params"]:
                if not has_pval(vals, p):
                    continue
                group = {"path": "path", "query": "query", "header": "header"}[p["in"]]
                gty = types["struct"][req_ty][group][1]
                f = types["struct"][gty.replace(" ", "")].get(p["name"]) or types["struct"][gty.replace(" ", "")][field_name(p["name"])]
                lines.append(f"r.{group}.{f[0]} = {rust_expr(f[1], pval(vals, p), types)};")
            if op["body"] is not None and body is not None:
                bty = types["struct"][req_ty]["body"][1]
                lines.append(f"r.body = {rust_expr(bty, body, types)};")
        except KeyError as e:
            # a declared parameter (or the body) has no member in the emitted request types: the client cannot send it
            viol.append((pr[k], f"{opid}: the emitted request type has no member for a declared parameter / body ({e}); supplied values {json.dumps(vals)[:120]} cannot be put on the wire", None))
            continue
        except ValueError as e:
            build_err.append(f"probe {k} {opid}: {e}")
            continue
        for (vn, bp) in (variants if k < 3 or opid in ("get_one",) and vals.get("id") in ("plain", "a/b") else variants[:1]):
            blocks.append((k, vn, f'''{{
    let (port, rx) = capture_server();
    {ctor_line(client_name, ctor_of.get(vn, "url"), bp)}
    {" ".join(lines)}
    let res = rt.block_on(client.{opid}(r));
    match res {{
        Ok(_) => match rx.recv_timeout(std::time::Duration::from_secs(3)) {{ Ok(raw) => println!("{k}\\t{vn}\\tOK\\t{{}}", hex(&raw)), Err(_) => println!("{k}\\t{vn}\\tNOREQ") }},
        Err(e) => println!("{k}\\t{vn}\\tERR\\t{{}}", format!("{{:#}}", e).replace("\\n", " ").replace("\\t", " ")),
    }}
}}'''))
    res.oblige(f"harness: request values can be built for all {len(pr)} probes from the emitted types", not build_err, "; ".join(build_err[:3]))
    ar = Arena("c03")
    ar.add_case(0, outp)
    body = RUNNER_PRELUDE + "fn main() {\n    use case_0 as M;\n    let rt = tokio::runtime::Builder::new_current_thread().enable_all().build().unwrap();\n" + "\n".join(b[2] for b in blocks) + "\n}\n"
    ar.write_main(body)
    okb, diags, err = ar.cargo("build")
    res.oblige("arena: the generated client and the capture runner compile", okb, (diags[0]["rendered"][:600] if diags else err[:300]))
    n_obs = 0
    known_hits = set()
    if okb:
        rc2, so, se = ar.run("", timeout=600)
        obs = {}
        for line in so.split("\n"):
            parts = line.split("\t")
            if len(parts) >= 3:
                obs[(int(parts[0]), parts[1])] = parts[2:]
        dq = []          # decoder queries for the extracted model
        judged = []
        for (k, vn, _) in blocks:
            opid, vals, bodyv = pr[k]
            o = obs.get((k, vn))
            if o is None:
                viol.append((pr[k], f"{opid} {vals}: no observation (runner rc={rc2} {se[-200:]})", None))
                continue
            n_obs += 1
            if o[0] != "OK":
                viol.append((pr[k], f"{opid} with {vals} body={bodyv!r}: the call fails for values the schema allows: {' '.join(o)[:200]}", classify_refusal(ops[opid], vals, o)))
                continue
            judged.append((k, vn, binascii.unhexlify(o[1])))
        # ---- judge the captured requests
        for (k, vn, raw) in judged:
            opid, vals, bodyv = pr[k]
            op = ops[opid]
            bp = dict(variants)[vn]
            problems = judge(op, vals, bodyv, raw, bp, exe)
            for (dsc, cls) in problems:
                viol.append((pr[k], f"{opid} [{vn}] with {json.dumps(vals, ensure_ascii=False)[:120]}: {dsc}", cls))
    res.counts.update({"evaluations": len(blocks), "distinct_nontrivial": n_obs, "comparisons": n_obs, "traces_validated_against_impl": n_obs,
                       "operations": len(ops), "probes": len(pr), "param_merge_cases": n_pm,
                       "rule": "one feature spec (methods GET/PUT/POST/DELETE/PATCH/HEAD/OPTIONS; plain, single, multiple and mixed literal/parameter templates; path-item and operation parameters with override; scalar / enum / array parameters with form (explode and not), spaceDelimited, pipeDelimited; string / integer / boolean / array headers; json, optional json, form, text, binary, multipart bodies) generated as client-mod, compiled, and every probe (reserved URL characters, non-ASCII, dot segments, empty arrays, boundary integers) plus seeded random probes (60 quick / 1500 thorough: texts over the reserved, quoting and non-ASCII alphabet in every path, query, header, array-item and body position, boundary and random integers, random bytes) sent through the generated method to a capturing TCP server; the raw request is judged: method, path segments (literals equal, parameter segments percent-decode — with the extracted Coq decoder — to the value and contain no / ? #), query pairs as a multiset against the extracted layout model, headers, body per media type; base URL with and without trailing slash and at the root"})
    for p in pr[:4]:
        res.sample({"operation": p[0], "values": p[1]})
    res.cov["trusted_base"] = vlib.COMMON_TRUSTED + [
        "coq/Model/ParamMerge.v: hand model of collect_parameters (shape pinned by Gen/Params.v)", "coq/Model/Wire.v: percent-decoding (the oracle applied to captured path segments), a model of the PATH_SEGMENT encode set, and the array layout rules",
        "lib/c03.py: construction of request values from the emitted types, the capturing TCP server (tools/arena runner), parsing of the raw request (python urllib for query / form decoding, a small multipart parser)",
        "reqwest / url / serde_urlencoded / http as they run in the arena"]
    res.assumptions = ["PARTIAL: the theorems are about the encodings; that the generated method produces them is observed on the probes, through real sockets on the loopback interface",
                       "TRACE is left out (the parser lists it twice, C05's recorded finding); values containing the delimiter of a non-exploded array style are not probes (C03_joined_ambiguous_refuted)"]
    kf = {k["key"]: k["text"] for k in vlib.known_findings("C03")}
    seen_known, real = set(), []
    for (p, dsc, cls) in viol:
        if cls and cls in kf:
            seen_known.add(cls)
        else:
            real.append((p, dsc + (f" [unlisted class {cls}]" if cls else "")))
    for k in sorted(seen_known):
        res.known(k, kf[k])
    for (p, dsc) in real[:3]:
        res.violation(dsc, {"probe": list(p), "spec": spec})
    if len(real) > 3:
        log(f"  ... {len(real)} violations in total: " + "; ".join(x[1][:140] for x in real[:40]))
    broken = [o for o in res.obligations if not o[1]]
    if broken and not real:
        res.violation("proof obligation or harness obligation no longer checks: " + "; ".join(o[0] for o in broken),
                      {"broken": [[o[0], o[2]] for o in broken]}, no_input=True)
    return res.finish()


def pval(vals, p):
    """the value supplied for parameter p: keyed `name@in` when the name exists in several locations, else by name"""
    k = f"{p['name']}@{p['in']}"
    if k in vals:
        return vals[k]
    return vals.get(p["name"]) if not any(x.startswith(p["name"] + "@") for x in vals) else None


def has_pval(vals, p):
    return pval(vals, p) is not None


def wire_text(v):
    if isinstance(v, bool):
        return "true" if v else "false"
    return str(v)


def hx(s):
    b = s if isinstance(s, bytes) else s.encode("utf-8")
    return binascii.hexlify(b).decode() or "-"


def judge(op, vals, bodyv, raw, base_path, exe):
    """-> list of (description, class)"""
    out = []
    he = raw.find(b"\r\n\r\n")
    head, body = raw[:he].decode("latin-1"), raw[he + 4:]
    lines = head.split("\r\n")
    method, target, _ = lines[0].split(" ", 2)
    headers = {}
    for l in lines[1:]:
        k, _, v = l.partition(":")
        headers.setdefault(k.strip().lower(), []).append(v.strip())
    if "chunked" in ",".join(headers.get("transfer-encoding", [])):
        body = dechunk(body)
    if method != op["method"]:
        out.append((f"method on the wire is {method}, the operation's is {op['method']}", None))
    path, _, query = target.partition("?")
    # ---- path
    want_segs = [s for s in base_path.split("/") if s] + [s for s in op["path"].split("/") if s]
    got_segs = path.split("/")[1:] if path.startswith("/") else path.split("/")
    pvals = {p["name"]: pval(vals, p) for p in op["params"] if p["in"] == "path" and has_pval(vals, p)}
    if len(got_segs) != len(want_segs):
        out.append((f"path {path!r} has {len(got_segs)} segments, server path + template have {len(want_segs)} ({'/'.join(want_segs)})", classify_path(pvals, base_path)))
    else:
        queries, idx = [], []
        for i, (g, w) in enumerate(zip(got_segs, want_segs)):
            if "{" not in w:
                if g != w:
                    out.append((f"literal segment {w!r} is sent as {g!r}", None))
                continue
            expect = re.sub(r"\{([^}]+)\}", lambda m: wire_text(pvals.get(m.group(1), "")), w)
            queries.append("dec " + hx(g.encode("latin-1")))
            idx.append((g, expect))
        if queries:
            for (g, expect), r in zip(idx, vlib.run_driver(exe, queries)):
                dec, clean = r.split()
                if dec != hx(expect) or clean != "1":
                    out.append((f"path segment {g!r} decodes to {binascii.unhexlify(dec if dec != '-' else '').decode('utf-8', 'replace')!r}, the value is {expect!r}", classify_path(pvals, base_path)))
    # ---- query
    got_pairs = sorted(urllib.parse.parse_qsl(query, keep_blank_values=True, encoding="utf-8", errors="replace")) if query else []
    lq, meta = [], []
    for p in op["params"]:
        if p["in"] != "query":
            continue
        v = pval(vals, p)
        if isinstance(v, list):
            st = {"spaceDelimited": "space", "pipeDelimited": "pipe"}.get(p.get("style"), "form")
            ex = p.get("explode", st == "form")
            lq.append(f"lay {st} {1 if ex else 0} {hx(p['name'])} " + (",".join(hx(wire_text(x)) for x in v) if v else "empty"))
            meta.append((p, v))
        elif v is not None:
            lq.append(f"lay form 1 {hx(p['name'])} {hx(wire_text(v))}")
            meta.append((p, v))
    want_pairs, empties = [], []
    if lq:
        for (p, v), r in zip(meta, vlib.run_driver(exe, lq)):
            for tok in r.split()[1:]:
                a, b = tok.split("=")
                pair = (binascii.unhexlify(a if a != "-" else "").decode(), binascii.unhexlify(b if b != "-" else "").decode())
                if isinstance(v, list) and not v:
                    empties.append(pair)            # an empty array may be sent as `name=` or left out
                else:
                    want_pairs.append(pair)
    rest = list(got_pairs)
    for e in empties:
        if e in rest:
            rest.remove(e)
    if sorted(rest) != sorted(want_pairs):
        out.append((f"query pairs on the wire {got_pairs} differ from the supplied parameters {sorted(want_pairs)}", classify_query(op, vals, got_pairs, want_pairs)))
    # ---- headers
    for p in op["params"]:
        if p["in"] != "header":
            continue
        v = pval(vals, p)
        got = headers.get(p["name"].lower())
        if v is None or (isinstance(v, list) and not v):
            if got is not None and not (isinstance(v, list) and got == [""]):
                out.append((f"header {p['name']} was not supplied but is sent as {got}", None))
            continue
        want = ",".join(wire_text(x) for x in v) if isinstance(v, list) else wire_text(v)
        if got is None or len(got) != 1 or got[0].encode("latin-1") != want.encode("utf-8"):
            out.append((f"header {p['name']} is sent as {got}, supplied value {want!r}", None))
    # ---- body
    rb = op["body"]
    ct = (headers.get("content-type") or [""])[0]
    if rb is None or bodyv is None:
        if body:
            out.append((f"no body was supplied but {len(body)} bytes are sent", None))
        return out
    media = next(iter(rb["content"]))
    if media == "application/json":
        try:
            if json.loads(body.decode("utf-8")) != bodyv:
                out.append((f"JSON body on the wire {body[:200]!r} differs from the value {bodyv}", None))
        except Exception as e:
            out.append((f"body is not JSON: {body[:80]!r}", None))
        if not ct.startswith("application/json"):
            out.append((f"Content-Type is {ct!r} for a JSON body", None))
    elif media == "application/x-www-form-urlencoded":
        got = sorted(urllib.parse.parse_qsl(body.decode("latin-1"), keep_blank_values=True, encoding="utf-8"))
        want = sorted((k, wire_text(v)) for k, v in bodyv.items())
        if got != want:
            out.append((f"form body pairs {got} differ from the value {want}", None))
        if not ct.startswith("application/x-www-form-urlencoded"):
            out.append((f"Content-Type is {ct!r} for a form body", None))
    elif media == "text/plain":
        if body != bodyv.encode("utf-8"):
            out.append((f"text body on the wire {body[:80]!r} differs from the value {bodyv!r}", None))
        if not ct.startswith("text/plain"):
            out.append((f"Content-Type is {ct!r} for a declared text/plain body", "raw-body-without-content-type"))
    elif media == "application/octet-stream":
        if body != bytes(bodyv):
            out.append((f"binary body on the wire {body[:80]!r} differs from the value {bytes(bodyv)!r}", None))
        if not ct.startswith("application/octet-stream"):
            out.append((f"Content-Type is {ct!r} for a declared application/octet-stream body", "raw-body-without-content-type"))
    elif media == "multipart/form-data":
        m = re.search(r"boundary=([^;]+)", ct)
        if not m:
            out.append((f"multipart body without a boundary in Content-Type {ct!r}", None))
        else:
            parts = {}
            for chunk in body.split(b"--" + m.group(1).encode())[1:]:
                if chunk.startswith(b"--"):
                    break
                h, _, c = chunk.lstrip(b"\r\n").partition(b"\r\n\r\n")
                nm = re.search(rb'name="([^"]*)"', h)
                parts[nm.group(1).decode() if nm else "?"] = c[:-2] if c.endswith(b"\r\n") else c
            want = {k: (bytes(v) if isinstance(v, list) else wire_text(v).encode("utf-8")) for k, v in bodyv.items()}
            if parts != want:
                out.append((f"multipart parts {parts} differ from the value {want}", None))
    return out


def dechunk(b):
    out = b""
    while b:
        line, _, rest = b.partition(b"\r\n")
        try:
            n = int(line.split(b";")[0], 16)
        except ValueError:
            break
        if n == 0:
            break
        out += rest[:n]
        b = rest[n + 2:]
    return out


def classify_refusal(op, vals, o):
    """narrow classes for a call that fails before sending"""
    exploded = [p["name"] for p in op["params"] if p["in"] == "query" and p["schema"].get("type") == "array"
                and p.get("explode", p.get("style", "form") == "form") and isinstance(vals.get(p["name"]), list)]
    if exploded and "builder error" in " ".join(o) and "unsupported value" in " ".join(o):
        return "exploded-array-query-fails"
    return None


def classify_path(pvals, base_path):
    if any(v in (".", "..") for v in pvals.values()):
        return "dot-segment-path-value-dropped"
    return None


def classify_query(op, vals, got, want):
    return None
