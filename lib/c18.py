"""C18 — presentation flags and modes never change wire behaviour."""
import glob, itertools, json, os, random, re
import vlib, specgen, inv
from vlib import Result, log

THEOREMS = ["C18_erase_decorate", "C18_settings_agree", "C18_visibility", "C18_nonvacuous"]
TARGETS = ["Props/C18.v"]
VIS = [("public", "pub"), ("crate", "pub(crate)"), ("file", "")]
LATTICE = [(v, h, b, a, m) for v in VIS for h in (False, True) for b in (False, True) for a in (False, True) for m in ("types", "client-mod")]


def flags_of(v, no_helpers, builders, all_headers):
    f = ["-C", v[0]]
    if no_helpers:
        f.append("--no-helpers")
    if builders:
        f.append("--enable-builders")
    if all_headers:
        f.append("--all-headers")
    return f


def strip_attr(a):
    t = a.get("attr")
    if t is None:
        return ("doc", a.get("doc"))
    return t


def core_of(dump):
    """type definitions only: names, members, member types, serde/validation attributes (decorations erased)"""
    core = {}
    for it in dump.get("items", []):
        if it["kind"] not in ("struct", "enum", "type"):
            continue
        attrs = []
        for a in it["attrs"]:
            t = strip_attr(a)
            if isinstance(t, str) and t.startswith("derive("):
                ds = [x.strip() for x in t[len("derive("):-1].split(",") if x.strip()]
                ds = [x for x in ds if x != "bon::Builder"]
                t = "derive(" + ",".join(ds) + ")"
            if isinstance(t, str) and t.startswith("builder("):
                continue
            attrs.append(t)

        def fields(fl):
            out = []
            for f in fl:
                fa = [strip_attr(a) for a in f["attrs"]]
                fa = [a for a in fa if not (isinstance(a, str) and a.startswith("builder("))]
                out.append((f["name"], f["ty"], tuple(map(str, fa))))
            return tuple(out)
        if it["kind"] == "struct":
            body = fields(it["fields"])
        elif it["kind"] == "enum":
            body = tuple((v["name"], tuple(map(str, [strip_attr(a) for a in v["attrs"]])), fields(v["fields"])) for v in it["variants"])
        else:
            body = it["ty"]
        core[(it["kind"], it["name"])] = (tuple(map(str, attrs)), body)
    # the code that decides wire behaviour: response parsers of request structs and every trait impl (IntoResponse,
    # TryFrom<&..Header>, Display / FromStr, Serialize / Deserialize written by hand); builder `new` methods and helper
    # constructors are decorations and stay out
    for it in dump.get("items", []):
        if it["kind"] != "impl":
            continue
        for m in it.get("methods", []):
            if it.get("trait") or m["name"] == "parse_response":
                # (a trailing comma before a closing delimiter follows line wrapping, i.e. the length of the visibility keyword)
                lay = lambda t: re.sub(r",\s*([)\]}])", r"\1", t or "")
                core[("impl", it["self_ty"], it.get("trait") or "", m["name"])] = (lay(m.get("sig")), lay(m.get("body")))
    return core


def visibility_report(dump, want):
    bad = []
    for it in dump.get("items", []):
        if it["kind"] in ("struct", "enum", "type", "const", "static", "fn", "trait"):
            if it.get("vis") != want:
                bad.append((it["kind"], it["name"], it.get("vis")))
        if it["kind"] == "struct":
            for f in it["fields"]:
                if f["vis"] != want:
                    bad.append(("field", it["name"] + "." + f["name"], f["vis"]))
        if it["kind"] == "impl" and not it.get("trait"):
            for m in it["methods"]:
                if "vis" in m and m["vis"] != want:
                    bad.append(("method", it["self_ty"] + "::" + m["name"], m["vis"]))
    return bad


def main(tier, seed, replay=None):
    res = Result("C18", tier, seed)
    vlib.build_repo()
    vlib.build_vtool()
    coq_ok, out = vlib.standard_coq_obligations(res, TARGETS, THEOREMS, expect_closed=3)
    cur = inv.current()
    ok, detail, n, gone = inv.compare("flags", cur)
    res.oblige(f"inventory: every read of enable_builders()/no_helpers()/include_all_headers() in the generator ({n} sites) is a reviewed decoration site", ok, detail)
    d = vlib.scratch("C18")
    corpus = []
    fixtures = sorted(glob.glob(os.path.join(vlib.REPO, "crates/oas3-gen/fixtures/*.json")))
    for f in fixtures:
        if os.path.getsize(f) < (200_000 if tier == "quick" else 10_000_000):
            try:
                corpus.append((os.path.basename(f), json.load(open(f))))
            except Exception:
                pass
    for i in range(6 if tier == "quick" else 40):
        s, _ = specgen.gen_spec(seed * 77 + i)
        # avoid the recorded crash classes (recursive inline unions with helpers, cyclic allOf) — they are C12's findings
        import c12
        if c12.has_recursive_inline_union(s) or c12.has_allof_cycle(s) or c12.has_recursive_array_alias(s):
            continue
        corpus.append((f"gen{i}", s))
    corpus.append(("headers", {
        "openapi": "3.1.0", "info": {"title": "h", "version": "1"},
        "paths": {"/a": {"get": {"operationId": "get_a", "parameters": [{"name": "X-Trace-Id", "in": "header", "required": True, "schema": {"type": "string"}},
                                                                      {"name": "X-Page-Size", "in": "header", "schema": {"type": "integer"}},
                                                                      {"$ref": "#/components/parameters/Tenant"}],
                                 "responses": {"200": {"description": "ok", "headers": {"X-Rate": {"schema": {"type": "integer"}}}}}}}},
        "components": {"parameters": {"Tenant": {"name": "X-Tenant", "in": "header", "schema": {"type": "string"}},
                                      "Unused": {"name": "X-Unused", "in": "header", "schema": {"type": "string"}}},
                       "headers": {"X-Comp": {"schema": {"type": "string"}}},
                       "schemas": {"Cfg": {"type": "object", "required": ["kind"], "properties": {"kind": {"const": "cfg"}, "level": {"type": "integer", "default": 3},
                                                                                               "name": {"type": "string", "default": "n"}, "mode": {"type": "string", "enum": ["only"]}}}}}}))
    # operations with identical response sets (their response enums are merged) and request parameters, a discriminated
    # union with helper-eligible variants next to an untagged one, members named like builder methods
    R_ = lambda t: {"$ref": f"#/components/schemas/{t}"}
    both = lambda sch: {"200": {"description": "ok", "content": {"application/json": {"schema": sch}}}, "404": {"description": "nf", "content": {"application/json": {"schema": R_("Problem")}}}}
    pid = [{"name": "id", "in": "path", "required": True, "schema": {"type": "string"}}]
    corpus.append(("merged", {
        "openapi": "3.1.0", "info": {"title": "m", "version": "1"},
        "paths": {"/cats/{id}": {"get": {"operationId": "get_cat", "parameters": pid, "responses": both(R_("Animal"))}},
                  "/dogs/{id}": {"get": {"operationId": "get_dog", "parameters": pid, "responses": both(R_("Animal"))}},
                  "/shapes": {"post": {"operationId": "make_shape", "requestBody": {"required": True, "content": {"application/json": {"schema": R_("Shape")}}}, "responses": both(R_("Label"))}}},
        "components": {"schemas": {
            "Animal": {"type": "object", "properties": {"name": {"type": "string"}, "build": {"type": "string"}, "builder": {"type": "integer"}}},
            "Problem": {"type": "object", "properties": {"detail": {"type": "string"}}},
            "Circle": {"type": "object", "required": ["kind"], "properties": {"kind": {"const": "circle"}, "r": {"type": "number"}}},
            "Square": {"type": "object", "required": ["kind"], "properties": {"kind": {"const": "square"}, "side": {"type": "number"}}},
            "Shape": {"oneOf": [R_("Circle"), R_("Square")], "discriminator": {"propertyName": "kind", "mapping": {"circle": "#/components/schemas/Circle", "square": "#/components/schemas/Square"}}},
            "Label": {"oneOf": [R_("Circle"), {"type": "string"}]}}}}))
    if replay:
        r = json.load(open(replay))
        corpus = [("replay", r["spec"])]
    jobs = [(ci, li) for ci in range(len(corpus)) for li in range(len(LATTICE))]

    def one(j):
        ci, li = j
        name, spec = corpus[ci]
        v, h, b, a, m = LATTICE[li]
        base = os.path.join(d, f"c{ci}_{li}")
        os.makedirs(base, exist_ok=True)
        sp = os.path.join(base, "spec.json")
        json.dump(spec, open(sp, "w"))
        outp = os.path.join(base, "out" if m.endswith("-mod") else "out.rs")
        rc, txt = vlib.oas(["generate", m, "-i", sp, "-o", outp, "-q"] + flags_of(v, h, b, a), timeout=120)
        tf = os.path.join(outp, "types.rs") if m.endswith("-mod") else outp
        return rc, txt[-200:], tf
    results = vlib.pmap(one, jobs)
    dumps = vlib.vtool_lines("dump", [r[2] for r in results])
    viol, known_hits = [], set()
    n_cmp = 0
    by = {j: (r, dp) for j, r, dp in zip(jobs, results, dumps)}
    for ci, (name, spec) in enumerate(corpus):
        ref = None
        const_by = {}
        for li, (v, h, b, a, m) in enumerate(LATTICE):
            (rc, txt, tf), dump = by[(ci, li)]
            if rc != 0 or "error" in dump:
                viol.append((name, spec, LATTICE[li], f"{name}: generation failed under {flags_of(v,h,b,a)} {m}: {txt} {dump.get('error','')}"))
                continue
            core = core_of(dump)
            n_cmp += 1
            if ref is None:
                ref = (li, core)
            elif core != ref[1]:
                ka, kb = set(ref[1]), set(core)
                if ka != kb:
                    dsc = f"type items differ: only in reference {sorted(ka - kb)[:4]}, only here {sorted(kb - ka)[:4]}"
                else:
                    k = next(k for k in ka if ref[1][k] != core[k])
                    dsc = f"definition of {k} differs: {str(ref[1][k])[:200]} vs {str(core[k])[:200]}"
                viol.append((name, spec, LATTICE[li], f"{name}: {flags_of(v,h,b,a)} {m} vs {flags_of(*LATTICE[ref[0]][:4])} {LATTICE[ref[0]][4]}: {dsc}"))
            consts = {it["name"]: (it.get("ty"), it.get("value")) for it in dump.get("items", []) if it["kind"] == "const"}
            const_by.setdefault((v[0], h, b, m), {})[a] = consts
            bad = visibility_report(dump, v[1])
            consts = [x for x in bad if x[0] == "const"]
            other = [x for x in bad if x[0] != "const"]
            if consts and v[0] != "public":
                known_hits.add("header-constants-always-pub")
            if other:
                viol.append((name, spec, LATTICE[li], f"{name}: -C {v[0]}: items without the requested visibility: {other[:4]}"))
        # --all-headers may only ADD header constants: every constant emitted without it must still be there, unchanged
        for key, pair in const_by.items():
            if False in pair and True in pair:
                lost = sorted(k for k, val in pair[False].items() if pair[True].get(k) != val)
                if lost:
                    viol.append((name, spec, None, f"{name}: with --all-headers ({key}) the constants {lost[:5]} emitted without the flag are missing or changed"))
    res.counts.update({"evaluations": len(jobs), "distinct_nontrivial": len(corpus), "comparisons": n_cmp, "exhaustive": True,
                       "traces_validated_against_impl": len(jobs),
                       "rule": "exhaustive over the 3 x 2 x 2 x 2 x {types, client-mod} lattice (visibility, --no-helpers, --enable-builders, --all-headers, mode) for every corpus spec (shipped fixtures + feature-grammar specs): type definitions (names, members, member types, serde/validation attributes, derives minus bon::Builder, builder(..) attributes erased) read back with syn must be identical across all 48 settings; every item must carry exactly the requested visibility; --all-headers may only add constants"})
    for name, _ in corpus[:4]:
        res.sample({"spec": name, "settings": 48})
    res.cov["trusted_base"] = vlib.COMMON_TRUSTED + ["coq/Model/Decor.v: the token classes a decoration may touch (hand model)", "tools/vtool dump + inventory"]
    res.assumptions = ["PARTIAL: that the generator factors as decorate . core is established by the exhaustive lattice comparison on the corpus, not by proof; helper methods / constructors (impl blocks) are not compared, only type definitions, as the property words it"]
    kf = {k["key"]: k["text"] for k in vlib.known_findings("C18")}
    for k in sorted(known_hits):
        if k in kf:
            res.known(k, kf[k])
        else:
            viol.append(("-", {}, None, f"unlisted failing class {k}"))
    for (name, spec, lat, dsc) in viol[:3]:
        res.violation(dsc, {"spec_name": name, "spec": spec, "setting": [str(x) for x in (lat or [])]})
    broken = [o for o in res.obligations if not o[1]]
    if broken and not viol:
        res.violation("proof obligation or inventory no longer checks: " + "; ".join(o[0] for o in broken),
                      {"broken": [[o[0], o[2]] for o in broken]}, no_input=True)
    return res.finish()
