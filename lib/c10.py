"""C10 — recursive schemas yield finite, usable Rust types."""
import glob, itertools, json, os, random, re
import vlib, inv
from vlib import Result, log
from arena import Arena

THEOREMS = ["C10_finite_size", "C10_marking_exact", "cyclicb_complete", "cyclicb_sound", "C10_nonvacuous"]
TARGETS = ["Props/C10.v", "Extract/C10.v"]
NAMES = ["Aa", "Bb", "Cc", "Dd", "Ee"]
KINDS = ["req", "opt", "arr", "map", "iun", "nul", "iob", "aio", "riu", "awr"]
HEAP = {"Vec", "Box", "HashMap", "BTreeMap", "HashSet", "BTreeSet", "std::collections::HashMap", "std::collections::BTreeMap",
        "indexmap::IndexMap", "IndexMap"}


def ref(t):
    return {"$ref": f"#/components/schemas/{t}"}


def member(kind, t):
    if kind in ("req", "opt"):
        return ref(t)
    if kind == "arr":
        return {"type": "array", "items": ref(t)}
    if kind == "map":
        return {"type": "object", "additionalProperties": ref(t)}
    if kind in ("iun", "riu"):
        return {"oneOf": [ref(t), {"type": "string"}]}
    if kind == "nul":
        return {"anyOf": [ref(t), {"type": "null"}]}
    if kind == "iob":
        return {"type": "object", "properties": {"x": ref(t), "k": {"type": "integer"}}}
    if kind == "awr":
        # a reference wrapped in a single-member allOf so that it can carry a description of its own
        return {"description": "wrapped reference", "allOf": [ref(t)]}
    if kind == "aio":
        return {"type": "array", "items": {"type": "object", "properties": {"x": ref(t)}}}
    raise ValueError(kind)


def spec_of(graph):
    """graph: {"nodes": n, "edges": [[a, kind, b]...], "allof": [[a, b]...], "unions": [[name, [targets]]...], "uses": [[a, kind, unionname]]}"""
    n = graph["nodes"]
    schemas = {}
    for i in range(n):
        schemas[NAMES[i]] = {"type": "object", "properties": {"n": {"type": "integer"}}}
    for k, (a, kind, b) in enumerate(graph["edges"]):
        s = schemas[NAMES[a]]
        pn = f"p{k}{kind}"
        s["properties"][pn] = member(kind, NAMES[b])
        if kind in ("req", "riu"):
            s.setdefault("required", []).append(pn)
    for (a, b) in graph.get("allof", []):
        s = schemas[NAMES[a]]
        body = {k: v for k, v in s.items()}
        schemas[NAMES[a]] = {"allOf": [ref(NAMES[b]), body]}
    for (name, targets) in graph.get("unions", []):
        schemas[name] = {"oneOf": [ref(NAMES[t]) if isinstance(t, int) else ref(t) for t in targets]}
    for k, (a, kind, un) in enumerate(graph.get("uses", [])):
        s = schemas[NAMES[a]]
        tgt = s["allOf"][1] if "allOf" in s else s
        pn = f"u{k}{kind}"
        tgt["properties"][pn] = member(kind, un)
        if kind in ("req", "riu"):
            tgt.setdefault("required", []).append(pn)
    return {"openapi": "3.1.0", "info": {"title": "t", "version": "1"}, "paths": {}, "components": {"schemas": schemas}}


# ---------------------------------------------------------------- JSON schema -> model AST (generic)

def ast_of_spec_enc(spec):
    schemas = (spec.get("components") or {}).get("schemas") or {}
    names = sorted(schemas, key=lambda s: s.encode("utf-8"))
    index = {nm: i for i, nm in enumerate(names)}
    extra = {}

    def idx(nm):
        if nm in index:
            return index[nm]
        if nm not in extra:
            extra[nm] = len(names) + len(extra)
        return extra[nm]

    def refname(r):
        if not isinstance(r, str) or not r.startswith("#/components"):
            return None
        return r.rsplit("/", 1)[-1].replace("~1", "/").replace("~0", "~")

    def lst(v):
        return ",".join(x for x in (go(e) for e in (v if isinstance(v, list) else [])) if x)

    def go(s):
        if not isinstance(s, dict):
            return None
        if "$ref" in s:
            nm = refname(s["$ref"])
            return f"r{idx(nm)}" if nm is not None else "o(||||-|-|0)"
        props = s.get("properties") if isinstance(s.get("properties"), dict) else {}
        p = ",".join(x for x in (go(v) for v in props.values()) if x)
        it = go(s.get("items")) if isinstance(s.get("items"), dict) else None
        ad = go(s.get("additionalProperties")) if isinstance(s.get("additionalProperties"), dict) else None
        return f"o({p}|{lst(s.get('allOf'))}|{lst(s.get('oneOf'))}|{lst(s.get('anyOf'))}|{it or '-'}|{ad or '-'}|{1 if s.get('discriminator') else 0})"

    def resolve_top(s, depth=0):
        while isinstance(s, dict) and "$ref" in s and depth < 50:
            nm = refname(s["$ref"])
            s = schemas.get(nm)
            depth += 1
        return s if isinstance(s, dict) and "$ref" not in s else None
    tops = []
    for nm in names:
        s = resolve_top(schemas[nm])
        tops.append(go(s) if s is not None else "o(||||-|-|0)")
    return names, ";".join(tops), go


def ast_of_spec(spec):
    names, tops, _ = ast_of_spec_enc(spec)
    return names, tops


def parse_model(line):
    m = re.match(r"D (.*) // M (.*)$", line)
    deps = set()
    for t in m.group(1).split():
        a, b = t.split(">")
        deps.add((int(a), int(b)))
    marks = {}
    for t in m.group(2).split():
        i, b = t.split(":")
        marks[int(i)] = b == "1"
    return deps, marks


# ---------------------------------------------------------------- emitted code -> containment graph

def split_top(s):
    out, depth, cur = [], 0, ""
    for ch in s:
        if ch in "<([":
            depth += 1
        if ch in ">)]":
            depth -= 1
        if ch == "," and depth == 0:
            out.append(cur)
            cur = ""
        else:
            cur += ch
    if cur.strip():
        out.append(cur)
    return out


def walk_type(ty, state, out):
    """out: list of (named type, state) where state in 'val' (by value), 'box' (directly boxed), 'vec' (in Vec), 'heap' (other heap)"""
    ty = ty.strip()
    if not ty:
        return
    if ty.startswith("(") and ty.endswith(")"):
        for p in split_top(ty[1:-1]):
            walk_type(p, state, out)
        return
    if ty.startswith("[") and ty.endswith("]"):
        walk_type(ty[1:-1].split(";")[0], state, out)
        return
    if ty.startswith("&"):
        walk_type(re.sub(r"^&\s*('\w+)?\s*(mut\s+)?", "", ty), "heap", out)
        return
    m = re.match(r"^([A-Za-z_][\w:]*)\s*(<(.*)>)?$", ty, re.S)
    if not m:
        out.append((ty, state))
        return
    head, args = m.group(1), m.group(3)
    base = head.split("::")[-1]
    if args is None:
        out.append((base, state))
        return
    parts = split_top(args)
    if base == "Option":
        for p in parts:
            walk_type(p, state, out)
    elif base == "Box":
        for p in parts:
            walk_type(p, "box" if state == "val" else "heap", out)
    elif base == "Vec":
        for p in parts:
            walk_type(p, "vec", out)
    elif base in ("HashMap", "BTreeMap", "HashSet", "BTreeSet", "IndexMap", "VecDeque"):
        for p in parts:
            walk_type(p, "heap", out)
    else:
        out.append((base, state))
        for p in parts:
            walk_type(p, state, out)


def containment(dump):
    """-> {type name: [(mentioned name, state)]} over struct / enum / type-alias items"""
    g = {}
    for it in dump.get("items", []):
        if it["kind"] == "struct":
            ms = []
            for f in it["fields"]:
                walk_type(f["ty"], "val", ms)
            g[it["name"]] = ms
        elif it["kind"] == "enum":
            ms = []
            for v in it["variants"]:
                for f in v["fields"]:
                    walk_type(f["ty"], "val", ms)
            g[it["name"]] = ms
        elif it["kind"] == "type":
            ms = []
            walk_type(it["ty"], "val", ms)
            g[it["name"]] = ms
    return g


def byvalue_cycle(g):
    """a cycle of by-value containment among emitted items, or None"""
    adj = {a: sorted({b for (b, st) in ms if st == "val" and b in g}) for a, ms in g.items()}
    color = {}

    def dfs(u, path):
        color[u] = 1
        for v in adj[u]:
            if color.get(v) == 1:
                return path[path.index(v):] + [v] if v in path else [u, v]
            if v not in color:
                r = dfs(v, path + [v])
                if r:
                    return r
        color[u] = 2
        return None
    for a in sorted(adj):
        if a not in color:
            r = dfs(a, [a])
            if r:
                return r
    return None


def owner_closure(g, named):
    """for each named item: the named items it mentions through itself and its inline (non-named) items,
    with the state of the final mention; inline items are followed whatever the indirection"""
    res = {}
    for a in named:
        if a not in g:
            continue
        seen, todo, ms = {a}, [a], []
        while todo:
            u = todo.pop()
            for (b, st) in g.get(u, []):
                if b in named:
                    ms.append((b, st))
                elif b in g and b not in seen:
                    seen.add(b)
                    todo.append(b)
        res[a] = ms
    return res


def closure(deps):
    adj = {}
    for a, b in deps:
        adj.setdefault(a, set()).add(b)
    out = set()
    for a in adj:
        seen, todo = set(), list(adj[a])
        while todo:
            u = todo.pop()
            if u in seen:
                continue
            seen.add(u)
            todo.extend(adj.get(u, ()))
        out |= {(a, b) for b in seen}
    return out


# ---------------------------------------------------------------- graph families

def two_node_graphs():
    ks = [None, "req", "opt", "arr", "map", "iun", "nul", "iob", "awr"]
    for aa, ab, ba, bb in itertools.product(ks, ks, ks, ks):
        edges = [[a, k, b] for (a, k, b) in ((0, aa, 0), (0, ab, 1), (1, ba, 0), (1, bb, 1)) if k]
        yield {"nodes": 2, "edges": edges}
    for ba, bb, aa in itertools.product(ks, ks, ks):
        edges = [[a, k, b] for (a, k, b) in ((0, aa, 0), (1, ba, 0), (1, bb, 1)) if k]
        yield {"nodes": 2, "edges": edges, "allof": [[0, 1]]}


def random_graph(rng):
    n = rng.randint(2, 5)
    edges = []
    for a in range(n):
        for b in range(n):
            if rng.random() < 0.28:
                edges.append([a, rng.choice(KINDS), b])
    g = {"nodes": n, "edges": edges}
    if rng.random() < 0.4:
        g["allof"] = [[a, a + 1] for a in range(n - 1) if rng.random() < 0.4]
    if rng.random() < 0.5:
        k = rng.randint(2, min(3, n))
        targets = rng.sample(range(n), k)
        g["unions"] = [["Uu", targets]]
        g["uses"] = [[rng.randrange(n), rng.choice(KINDS), "Uu"] for _ in range(rng.randint(1, 2))]
        if rng.random() < 0.5:
            g["unions"].append(["Vv", targets if rng.random() < 0.5 else rng.sample(range(n), 2)])
    return g


FIXED = [
    {"nodes": 1, "edges": [[0, "opt", 0]]},                                   # linked list
    {"nodes": 1, "edges": [[0, "arr", 0]]},                                   # tree by array
    {"nodes": 1, "edges": [[0, "map", 0]]},                                   # tree by map only: no dependency edge
    {"nodes": 2, "edges": [[0, "req", 1], [1, "opt", 0]]},
    {"nodes": 2, "edges": [[0, "riu", 1], [1, "iun", 0]]},
    {"nodes": 1, "edges": [[0, "awr", 0]]},
    {"nodes": 2, "edges": [[0, "awr", 1], [1, "awr", 0]]},
    {"nodes": 3, "edges": [[0, "awr", 1], [1, "opt", 2], [2, "awr", 0]]},
    {"nodes": 3, "edges": [[0, "opt", 1], [1, "opt", 2], [2, "opt", 0]]},
    {"nodes": 3, "edges": [[0, "map", 1], [1, "req", 0], [2, "req", 0]]},
    {"nodes": 3, "edges": [[1, "opt", 2], [2, "opt", 0]], "allof": [[0, 1]]},  # cycle through an allOf parent
    {"nodes": 2, "edges": [[0, "opt", 1]], "unions": [["Uu", [0, 1]]], "uses": [[1, "opt", "Uu"]]},
    {"nodes": 2, "edges": [], "unions": [["Uu", [0, 1]]], "uses": [[0, "iun", "Uu"], [1, "arr", "Uu"]]},
    {"nodes": 3, "edges": [[0, "iob", 0], [1, "aio", 1], [2, "nul", 2]]},
]


def raw_specs():
    """discriminated hierarchies and unions whose members refer back to the base / the union"""
    R = lambda t: {"$ref": f"#/components/schemas/{t}"}
    wrap = lambda schemas: {"openapi": "3.1.0", "info": {"title": "t", "version": "1"}, "paths": {}, "components": {"schemas": schemas}}
    out = []
    # allOf children of a discriminated base that refer back to the base (mapping is not a dependency edge)
    out.append(("disc-base-backrefs", wrap({
        "Asset": {"type": "object", "required": ["kind"], "properties": {"kind": {"type": "string"}, "label": {"type": "string"}},
                  "discriminator": {"propertyName": "kind", "mapping": {"folder": "#/components/schemas/Folder", "link": "#/components/schemas/Link", "file": "#/components/schemas/FileAsset"}}},
        "Folder": {"allOf": [R("Asset"), {"type": "object", "properties": {"parent": R("Asset"), "children": {"type": "array", "items": R("Asset")}}}]},
        "Link": {"allOf": [R("Asset"), {"type": "object", "required": ["target"], "properties": {"target": R("Asset")}}]},
        "FileAsset": {"allOf": [R("Asset"), {"type": "object", "properties": {"size": {"type": "integer"}}}]}})))
    # discriminated oneOf (explicit mapping) over an expression tree: the non-recursive member is last in the spec
    for key, kw in (("disc-oneof-tree", "oneOf"), ("disc-anyof-tree", "anyOf")):
        out.append((key, wrap({
            "Expr": {kw: [R("Plus"), R("Minus"), R("Const")], "discriminator": {"propertyName": "op", "mapping": {"plus": "#/components/schemas/Plus", "minus": "#/components/schemas/Minus", "const": "#/components/schemas/Const"}}},
            "Plus": {"type": "object", "required": ["op", "l", "r"], "properties": {"op": {"type": "string"}, "l": R("Expr"), "r": R("Expr")}},
            "Minus": {"type": "object", "required": ["op", "x"], "properties": {"op": {"type": "string"}, "x": R("Expr")}},
            "Const": {"type": "object", "required": ["op", "v"], "properties": {"op": {"type": "string"}, "v": {"type": "number"}}},
            "Stmt": {"type": "object", "required": ["body"], "properties": {"body": R("Expr")}}})))
    # implicit mapping by const tags, recursion through an optional member and an array
    out.append(("disc-const-tags", wrap({
        "Msg": {"oneOf": [R("Reply"), R("Text")], "discriminator": {"propertyName": "t"}},
        "Reply": {"type": "object", "required": ["t", "to"], "properties": {"t": {"const": "reply"}, "to": R("Msg"), "thread": {"type": "array", "items": R("Msg")}}},
        "Text": {"type": "object", "required": ["t"], "properties": {"t": {"const": "text"}, "body": {"type": "string"}, "quoted": R("Msg")}}})))
    # recursion through array items / map values only (no object in between): emitted as a recursive type alias
    out.append(("alias-recursion", wrap({
        "Grid": {"type": "array", "items": {"type": "object", "additionalProperties": R("Grid")}},
        "Holder": {"type": "object", "properties": {"g": R("Grid")}}})))
    out.append(("array-alias-recursion", wrap({
        "Forest": {"type": "array", "items": R("Forest")},
        "Holder": {"type": "object", "properties": {"f": R("Forest")}}})))
    # schema names that are not already Rust type names (the cycle marking is keyed by SCHEMA name)
    out.append(("non-pascal-names", wrap({
        "tree_node": {"type": "object", "properties": {"label": {"type": "string"}, "next": R("tree_node"), "kids": {"type": "array", "items": R("tree_node")}}},
        "comment": {"type": "object", "properties": {"text": {"type": "string"}, "thread": R("comment-thread")}},
        "comment-thread": {"type": "object", "properties": {"head": R("comment"), "more": {"oneOf": [R("comment-thread"), {"type": "null"}]}}},
        "folderItem": {"type": "object", "properties": {"parent": R("folderItem")}}})))
    # undiscriminated named union, non-recursive member first
    out.append(("plain-union-tree", wrap({
        "Json": {"oneOf": [{"type": "string"}, {"type": "number"}, R("JsonArr"), R("JsonObj")]},
        "JsonArr": {"type": "object", "required": ["items"], "properties": {"items": {"type": "array", "items": R("Json")}}},
        "JsonObj": {"type": "object", "properties": {"members": {"type": "object", "additionalProperties": R("Json")}, "first": R("Json")}}})))
    return out


def map_usage_part(viol):
    """a schema that recurses through MAP VALUES, sent as a request body and received only inside a map of a response:
    the emitted module has to be usable in both directions (derives follow the boxed map value) and compile"""
    R_ = lambda t: {"$ref": f"#/components/schemas/{t}"}
    spec = {"openapi": "3.1.0", "info": {"title": "t", "version": "1"}, "paths": {
        "/folders": {"post": {"operationId": "put_folder", "requestBody": {"required": True, "content": {"application/json": {"schema": R_("Folder")}}}, "responses": {"204": {"description": "n"}}},
                     "get": {"operationId": "get_index", "responses": {"200": {"description": "ok", "content": {"application/json": {"schema": R_("FolderIndex")}}}}}}},
        "components": {"schemas": {"Folder": {"type": "object", "properties": {"name": {"type": "string"}, "children": {"type": "object", "additionalProperties": R_("Folder")}}},
                                   "FolderIndex": {"type": "object", "properties": {"roots": {"type": "object", "additionalProperties": R_("Folder")}, "flat": {"type": "array", "items": R_("Leafy")}}},
                                   "Leafy": {"type": "object", "properties": {"up": R_("Leafy"), "tags": {"type": "object", "additionalProperties": {"type": "array", "items": R_("Leafy")}}}}}}}
    d = vlib.scratch("C10m")
    sp = os.path.join(d, "spec.json")
    json.dump(spec, open(sp, "w"))
    outp = os.path.join(d, "out")
    rc, txt = vlib.oas(["generate", "client-mod", "-i", sp, "-o", outp, "-q"])
    if rc != 0:
        viol.append(("map-usage", None, spec, f"recursion through map values used in both directions: generation failed rc={rc} {txt[-200:]}"))
        return 0
    ar = Arena("c10m")
    ar.add_case(0, outp)
    ar.write_main('''fn main() {
    let doc = r#"{"roots":{"a":{"name":"x","children":{"b":{"name":"y","children":{}}}}},"flat":[{"up":{"tags":{"k":[{}]}}}]}"#;
    let idx: case_0::FolderIndex = serde_json::from_str(doc).unwrap();
    let f = case_0::Folder { name: Some("n".to_string()), children: None };
    println!("{} {}", idx.roots.as_ref().map(|r| r.len()).unwrap_or(0), serde_json::to_string(&f).unwrap());
}
''')
    ok, diags, err = ar.cargo("build")
    if not ok:
        viol.append(("map-usage", None, spec, f"recursion through map values used in both directions: rustc rejects the module: {(diags[0]['message'] if diags else err)[:300]}"))
        return 0
    rc, so, se = ar.run("")
    if so.strip() != '1 {"name":"n"}':
        viol.append(("map-usage", None, spec, f"recursion through map values used in both directions: probe printed {so.strip()[:200]!r} (rc={rc} {se[-200:]})"))
    return 1


def main(tier, seed, replay=None):
    res = Result("C10", tier, seed)
    vlib.build_repo()
    vlib.build_vtool()
    coq_ok, out = vlib.standard_coq_obligations(res, TARGETS, THEOREMS, expect_closed=4)
    exe = vlib.ocaml_build("c10")
    res.oblige("extracted model (collect, fingerprints, marks) builds", exe is not None)
    rng = random.Random(seed * 1009 + 10)
    graphs = list(FIXED)
    two = list(two_node_graphs())
    if tier == "quick":
        graphs += rng.sample(two, 260)
        graphs += [random_graph(rng) for _ in range(200)]
    else:
        graphs += two
        graphs += [random_graph(rng) for _ in range(3000)]
    specs = [("g%d" % i, g, spec_of(g)) for i, g in enumerate(graphs)]
    specs = [(nm, {"raw": nm}, sp) for nm, sp in raw_specs()] + specs
    for f in sorted(glob.glob(os.path.join(vlib.REPO, "crates/oas3-gen/fixtures/*.json"))):
        if os.path.getsize(f) < (300_000 if tier == "quick" else 20_000_000):
            try:
                specs.append((os.path.basename(f), None, json.load(open(f))))
            except Exception:
                pass
    if replay:
        r = json.load(open(replay))
        if "spec" in r:
            specs = [("replay", r.get("graph"), r["spec"])]
    d = vlib.scratch("C10")

    def one(i):
        name, g, spec = specs[i]
        base = os.path.join(d, f"c{i}")
        os.makedirs(base, exist_ok=True)
        sp = os.path.join(base, "spec.json")
        json.dump(spec, open(sp, "w"))
        outp = os.path.join(base, "out.rs")
        rc, txt = vlib.oas(["generate", "types", "-i", sp, "-o", outp, "-q", "--all-schemas", "--no-helpers"], timeout=120)
        return rc, txt[-300:], outp
    results = vlib.pmap(one, range(len(specs)))
    dumps = vlib.vtool_lines("dump", [r[2] for r in results])
    asts = [ast_of_spec(s[2]) for s in specs]
    model = vlib.run_driver(exe, [a[1] for a in asts]) if exe else []
    viol, n_marks, n_cov, n_items, cyc_cases, boxed_obs, gratuitous = [], 0, 0, 0, 0, 0, 0
    dist = {}
    for i, (name, g, spec) in enumerate(specs):
        rc, txt, outp = results[i]
        dump = dumps[i] if i < len(dumps) else {"error": "no dump"}
        if rc != 0 or "error" in dump:
            import c12 as _c12
            cls = "recursive-array-alias-stack-overflow" if (rc in (-6, 134) and _c12.has_recursive_array_alias(spec)) else None
            viol.append((name, g, spec, f"{name}: generator did not accept the (recursive) schemas: rc={rc} {txt} {dump.get('error', '')}", cls))
            continue
        if i >= len(model) or model[i].startswith("ERR"):
            res.oblige(f"model evaluates on {name}", False, model[i] if i < len(model) else "missing")
            continue
        names, _ = asts[i]
        deps, marks = parse_model(model[i])
        if any(marks.values()):
            cyc_cases += 1
        cg = containment(dump)
        n_items += len(cg)
        # the property itself, on the emitted items
        cyc = byvalue_cycle(cg)
        if cyc:
            viol.append((name, g, spec, f"{name}: emitted types contain themselves by value (infinite size): {' -> '.join(cyc)}"))
            continue
        if g is None or (isinstance(g, dict) and g.get("raw") == "non-pascal-names"):
            # fixtures / renamed schemas: type names go through the naming pipeline; only the direct acyclicity
            # observation (and rustc in the arena) applies
            continue
        named = {nm: k for k, nm in enumerate(names)}
        clo = closure(deps)
        own = owner_closure(cg, set(named))
        comp = spec["components"]["schemas"]
        disc_base = {nm for nm, sc in comp.items() if isinstance(sc, dict) and sc.get("discriminator") and "properties" in sc}
        for a in disc_base:
            # the enum of a discriminated base holds its mapped children: not a recorded dependency, boxed unconditionally
            for (b, st) in cg.get(a, []):
                if b in named and b != a and st == "val":
                    viol.append((name, g, spec, f"{name}: variant of the discriminated base {a} holds {b} by value (these variants are not dependency edges and must always be boxed)"))
        for a, ms in own.items():
            if a in disc_base:
                continue
            for (b, st) in ms:
                dist[st] = dist.get(st, 0) + 1
                if st in ("val", "box"):
                    n_marks += 1
                    n_cov += 1
                    if st == "box":
                        boxed_obs += 1
                        if not marks.get(named[b], False):
                            gratuitous += 1
                    if st == "val" and marks.get(named[b], False):
                        viol.append((name, g, spec, f"{name}: reference {a} -> {b} is by value but the model marks {b} as lying on a dependency cycle (correspondence: marked targets are boxed)"))
                    if (named[a], named[b]) not in clo:
                        viol.append((name, g, spec, f"{name}: by-value-capable mention {a} -> {b} is not reachable through recorded dependencies (hypothesis of C10_finite_size)"))
    n_map = map_usage_part(viol)
    res.counts.update({"evaluations": len(specs), "map_usage_cases": n_map, "distinct_nontrivial": cyc_cases, "comparisons": n_marks + n_cov,
                       "traces_validated_against_impl": len(specs), "exhaustive": tier != "quick",
                       "emitted_items": n_items, "boxed_references_observed": boxed_obs, "boxed_although_unmarked": gratuitous, "mention_states": dist,
                       "rule": "labelled reference graphs (2-node graphs over 8 member kinds x 4 ordered pairs, with/without an allOf parent: exhaustive in the thorough tier; random 2..5-node graphs with named unions, fingerprint-equal inline unions, allOf chains; shipped fixtures) -> CLI `generate types --all-schemas --no-helpers` -> syn read-back; (1) by-value containment among ALL emitted items must be acyclic; (2) every by-value-capable mention whose target the extracted model marks is boxed (boxes on unmarked targets are counted, not alarmed); (3) every by-value-capable mention lies in the transitive closure of the model's recorded dependencies"})
    # ---- acceptance with the default flags (helper methods on) and with cyclic allOf chains
    import c12
    acc = [(f"acc{i}", g, spec_of(g)) for i, g in enumerate(FIXED + [gr for gr in graphs[len(FIXED):] if gr.get("edges")][: (40 if tier == "quick" else 400)])]
    acc.append(("allof-cycle", {"allof_cycle": True}, {"openapi": "3.1.0", "info": {"title": "t", "version": "1"}, "paths": {}, "components": {"schemas": {
        "Aa": {"allOf": [ref("Bb"), {"type": "object", "properties": {"x": {"type": "integer"}}}]},
        "Bb": {"allOf": [ref("Aa"), {"type": "object", "properties": {"y": {"type": "integer"}}}]}}}}))

    def acc_one(i):
        name, g, spec = acc[i]
        base = os.path.join(d, f"a{i}")
        os.makedirs(base, exist_ok=True)
        sp = os.path.join(base, "spec.json")
        json.dump(spec, open(sp, "w"))
        rc, txt = vlib.oas(["generate", "types", "-i", sp, "-o", os.path.join(base, "out.rs"), "-q", "--all-schemas"], timeout=120)
        return rc, txt[-300:]
    n_acc = 0
    for (name, g, spec), (rc, txt) in zip(acc, vlib.pmap(acc_one, range(len(acc)))):
        n_acc += 1
        if rc != 0:
            cls = None
            if rc in (-6, 134, -11, 139) or "stack overflow" in txt:
                if g.get("allof_cycle"):
                    cls = "allof-cycle-stack-overflow"
                elif c12.has_recursive_array_alias(spec):
                    cls = "recursive-array-alias-stack-overflow"
                elif c12.has_recursive_inline_union(spec):
                    cls = "recursive-union-helpers-stack-overflow"
            viol.append((name, g, spec, f"{name}: generator did not accept recursive schemas with default flags: rc={rc} {txt.strip()[-160:]}", cls))
    res.counts["acceptance_runs_default_flags"] = n_acc
    # ---- arena: rustc's own size check, Default::default(), nested documents
    arena_part(res, tier, rng, specs, results, dumps, viol, d)
    res.cov["trusted_base"] = vlib.COMMON_TRUSTED + [
        "coq/Model/Boxing.v: hand model of SchemaRegistry::collect / build_union_fingerprints / detect_cycles (petgraph kosaraju_scc is modelled by its contract: a node is marked iff it lies on a cycle)",
        "lib/c10.py ast_of_spec: JSON schema -> model AST (properties, allOf, oneOf, anyOf, items, additionalProperties)",
        "tools/vtool dump (syn) + lib/c10.py walk_type: which generic wrappers are heap indirections (Box, Vec, HashMap, BTreeMap, ...)",
        "rustc (E0072) as ground truth for the sampled arena cases"]
    res.assumptions = ["PARTIAL: the size theorem is proved for the model; that the emitted by-value-capable mentions stay within the recorded dependencies, and that boxes sit exactly on marked targets, is tied by correspondence on every run",
                       "Default::default() terminating and nested documents round-tripping are arena observations (runtime behaviour of better_default / serde), not theorems",
                       "schemas whose every instance is infinite (a cycle of required, non-nullable, non-union members) have no finite value, so Default cannot return; they are excluded from the Default observation as ill-formed input"]
    kf = {k["key"]: k["text"] for k in vlib.known_findings("C10")}
    seen_known = set()
    real = []
    for v in viol:
        if len(v) == 5 and v[4] in kf:
            seen_known.add(v[4])
        elif len(v) == 5:
            real.append(v[:4] if v[4] is None else (v[0], v[1], v[2], v[3] + f" [unlisted class {v[4]}]"))
        else:
            real.append(v)
    for k in sorted(seen_known):
        res.known(k, kf[k])
    for (name, g, spec, dsc) in real[:3]:
        res.violation(dsc, {"spec_name": name, "graph": g, "spec": spec})
    broken = [o for o in res.obligations if not o[1]]
    if broken and not real:
        res.violation("proof obligation no longer checks: " + "; ".join(o[0] for o in broken),
                      {"broken": [[o[0], o[2]] for o in broken]}, no_input=True)
    return res.finish()


# ---------------------------------------------------------------- arena part

def unsatisfiable(spec):
    """names of schemas without a finite instance: least fixpoint of 'has a finite instance'"""
    schemas = spec["components"]["schemas"]

    def tgt(s):
        return s["$ref"].rsplit("/", 1)[-1] if "$ref" in s else None
    ok = set()
    changed = True
    while changed:
        changed = False
        for nm, s in schemas.items():
            if nm in ok:
                continue
            parts = [s]
            if "allOf" in s:
                parts = list(s["allOf"])
            good = True
            if s.get("oneOf") or s.get("anyOf"):
                good = any((tgt(v) in ok) if tgt(v) else True for v in (s.get("oneOf") or s.get("anyOf")))
            for p in parts:
                if tgt(p):
                    if tgt(p) not in ok:
                        good = False
                    continue
                for pn in p.get("required", []):
                    ps = p["properties"][pn]
                    if tgt(ps) and tgt(ps) not in ok:
                        good = False
                    # a required inline union has the string alternative: always satisfiable
            if good:
                ok.add(nm)
                changed = True
    return set(schemas) - ok


def default_diverges(spec):
    """schemas on which the derived Default must recurse forever although a finite value exists:
    Default takes every required member's default and the FIRST variant of a union"""
    schemas = spec["components"]["schemas"]

    def tgt(s):
        return s["$ref"].rsplit("/", 1)[-1] if "$ref" in s else None
    term = set()
    changed = True
    while changed:
        changed = False
        for nm, s in schemas.items():
            if nm in term:
                continue
            parts = list(s["allOf"]) if "allOf" in s else [s]
            good = True
            vs = s.get("oneOf") or s.get("anyOf")
            if vs:
                if s.get("discriminator") and all(tgt(v) for v in vs):
                    first = sorted(tgt(v) for v in vs)[0]       # tag-dispatching enum: variants in type-name order
                    good = first in term
                else:
                    good = (tgt(vs[0]) in term) if tgt(vs[0]) else True
            for p in parts:
                if tgt(p):
                    good = good and tgt(p) in term
                    continue
                for pn in p.get("required", []):
                    ps = p["properties"][pn]
                    if tgt(ps):
                        good = good and tgt(ps) in term
                    elif "oneOf" in ps and tgt(ps["oneOf"][0]):
                        good = good and tgt(ps["oneOf"][0]) in term
            if good:
                term.add(nm)
                changed = True
    return set(schemas) - term


def nested_doc(spec, root, depth):
    """a valid document for `root` nesting about `depth` levels along one spine of reference members (None if the
    schema offers no such document); discriminator tags are filled in from the mapping / const values"""
    schemas = spec["components"]["schemas"]

    def tgt(s):
        return s["$ref"].rsplit("/", 1)[-1] if isinstance(s, dict) and "$ref" in s else None
    tag_of = {}     # child schema -> (property, value)
    for nm, sc in schemas.items():
        d = sc.get("discriminator") if isinstance(sc, dict) else None
        if d and d.get("mapping"):
            for val, r in sorted(d["mapping"].items()):
                tag_of.setdefault(r.rsplit("/", 1)[-1], (d["propertyName"], val))

    def flat(nm, seen=()):
        s = schemas[nm]
        props, req = {}, []
        for p in (list(s["allOf"]) if "allOf" in s else [s]):
            if tgt(p):
                if tgt(p) in seen:
                    return None, None
                pp, rr = flat(tgt(p), seen + (nm,))
                if pp is None:
                    return None, None
                props.update(pp)
                req += rr
            else:
                props.update(p.get("properties", {}))
                req += p.get("required", [])
        return props, req

    def children(nm):
        s = schemas[nm]
        vs = s.get("oneOf") or s.get("anyOf")
        if vs:
            return [v for v in vs]
        d = s.get("discriminator")
        if d and d.get("mapping") and "properties" in s:
            return [{"$ref": r} for _, r in sorted(d["mapping"].items())]
        return None

    def build(nm, dleft, budget):
        if budget[0] <= 0:
            return None
        budget[0] -= 1
        s = schemas.get(nm)
        if not isinstance(s, dict):
            return None
        ch = children(nm)
        if ch is not None:
            # deep: the first member that yields a document; shallow: prefer primitives, then members in reverse
            order = ch if dleft > 0 else sorted(ch, key=lambda v: 0 if not tgt(v) else 1)
            for v in (order if dleft > 0 else list(order) + list(reversed(ch))):
                if tgt(v):
                    sub = build(tgt(v), dleft, budget)
                    if sub is not None:
                        return sub
                elif v.get("type") == "string":
                    return "leaf"
                elif v.get("type") in ("number", "integer"):
                    return 7
            return None
        props, req = flat(nm)
        if props is None:
            return None
        doc = {}
        if nm in tag_of:
            doc[tag_of[nm][0]] = tag_of[nm][1]
        spine_used = False
        for pn, ps in props.items():
            if pn in doc:
                continue
            t = tgt(ps)
            if "const" in ps:
                doc[pn] = ps["const"]
            elif t:
                if pn in req or dleft > 0:
                    if dleft <= -4:
                        return None
                    sub = build(t, (dleft - 1) if not spine_used else min(dleft - 1, 0), budget)
                    spine_used = True
                    if sub is None:
                        if pn in req:
                            return None
                        continue
                    doc[pn] = sub
            elif ps.get("type") == "array" and tgt(ps.get("items") or {}) and dleft > 0:
                sub = build(tgt(ps["items"]), (dleft - 1) if not spine_used else 0, budget)
                spine_used = True
                if sub is not None:
                    doc[pn] = [sub]
            elif pn in req or pn == "n":
                ty = ps.get("type")
                if ps.get("oneOf") or ps.get("anyOf"):
                    doc[pn] = "leaf"
                elif ty == "string":
                    doc[pn] = "s"
                elif ty in ("number", "integer"):
                    doc[pn] = max(dleft, 0)
                elif ty == "boolean":
                    doc[pn] = True
                elif ty == "array":
                    doc[pn] = []
                elif ty == "object":
                    doc[pn] = {}
                else:
                    return None
        return doc
    return build(root, depth, [4000])


def strip_tags(x, tags):
    if isinstance(x, dict):
        return {k: strip_tags(v, tags) for k, v in x.items() if k not in tags}
    if isinstance(x, list):
        return [strip_tags(v, tags) for v in x]
    return x


def arena_part(res, tier, rng, specs, results, dumps, viol, d):
    cand = [i for i, (name, g, spec) in enumerate(specs) if g is not None and results[i][0] == 0]
    n_fixed = len(FIXED) + len(raw_specs())
    fixed = [i for i in cand if i < n_fixed]
    rest = [i for i in cand if i >= n_fixed]
    pick = fixed + rng.sample(rest, min(len(rest), 50 if tier == "quick" else 400))
    ar = Arena("c10")
    for i in pick:
        ar.add_case(i, results[i][2])
    plan = {}
    for i in pick:
        name, g, spec = specs[i]
        unsat = unsatisfiable(spec)
        div = default_diverges(spec)
        names = sorted(spec["components"]["schemas"])
        if isinstance(g, dict) and g.get("raw") == "non-pascal-names":
            # only the compile (rustc size check) observation: the probes address types by schema name
            names = []
        plan[i] = {"types": names, "unsat": unsat, "div": div}

    def body(cases):
        arms = []
        for i in cases:
            p = plan[i]
            lines = []
            for k, nm in enumerate(p["types"]):
                lines.append(f'("{nm}", "size") => {{ println!("SIZE {{}}", std::mem::size_of::<case_{i}::{nm}>()); }}')
                lines.append(f'("{nm}", "default") => {{ let v = <case_{i}::{nm} as Default>::default(); let s = serde_json::to_string(&v).map(|s| s.len()).unwrap_or(0); println!("DEFAULT {{}}", s); }}')
                lines.append(f'("{nm}", "roundtrip") => {{ let mut txt = String::new(); std::io::Read::read_to_string(&mut std::io::stdin(), &mut txt).unwrap(); '
                             f'match serde_json::from_str::<case_{i}::{nm}>(&txt) {{ Ok(v) => {{ let back = serde_json::to_value(&v).unwrap(); let orig: serde_json::Value = serde_json::from_str(&txt).unwrap(); '
                             f'println!("BACK {{}}", back); }} Err(e) => println!("RTERR {{}}", e) }} }}')
            arms.append(f'"{i}" => match (a[2].as_str(), a[3].as_str()) {{ {" ".join(lines)} _ => println!("NOARM") }},')
        return ("fn main() { let a: Vec<String> = std::env::args().collect(); match a[1].as_str() { " + "\n".join(arms) + ' _ => println!("NOCASE") } }')
    ok, failed, err = ar.build_bisect(body, sub="build")
    n_e0072 = 0
    for c, diags in failed.items():
        name, g, spec = specs[c]
        codes = sorted({dg["code"] or "?" for dg in diags})
        if "E0072" in codes or "E0391" in codes:
            n_e0072 += 1
        cls = "recursive-alias-schema" if (isinstance(g, dict) and g.get("raw") == "alias-recursion" and "E0391" in codes
                                            and any("type alias" in dg["message"] for dg in diags)) else None
        viol.append((name, g, spec, f"{name}: rustc rejects the emitted types: {codes}: {diags[0]['message'][:200]}", cls))
    kf_keys = {k["key"] for k in vlib.known_findings("C10")}
    unlisted = [v for v in viol if "rustc rejects" in v[3] and not (len(v) == 5 and v[4] in kf_keys)]
    res.oblige(f"arena: {len(pick)} emitted modules compile apart from recorded known classes (rustc accepts every type's size; E0072/E0391 count {n_e0072})", ok and not unlisted, err[:500] if not ok else "")
    if not ok:
        return
    import subprocess
    from arena import TARGET
    exe = os.path.join(TARGET, "debug", "arena")
    jobs = []
    for i in ar.cases:
        for nm in plan[i]["types"]:
            jobs.append((i, nm, "default", None))
            doc = nested_doc(specs[i][2], nm, 60)
            if doc is not None:
                jobs.append((i, nm, "roundtrip", json.dumps(doc)))

    def run(j):
        i, nm, what, inp = j
        try:
            p = subprocess.run(["bash", "-c", f"ulimit -s 8192; exec {exe} {i} {nm} {what}"], input=inp or "", stdout=subprocess.PIPE,
                               stderr=subprocess.PIPE, text=True, timeout=120)
            return p.returncode, p.stdout.strip(), p.stderr[-300:]
        except subprocess.TimeoutExpired:
            return -999, "", "timeout"
    outs = vlib.pmap(run, jobs)
    n_def = n_rt = n_skip = 0
    for (i, nm, what, inp), (rc, so, se) in zip(jobs, outs):
        name, g, spec = specs[i]
        if what == "default":
            if nm in plan[i]["unsat"]:
                n_skip += 1
                continue
            n_def += 1
            if rc != 0 or not so.startswith("DEFAULT"):
                cls = "default-first-variant-recursion" if nm in plan[i]["div"] else None
                viol.append((name, g, spec, f"{name}: <{nm} as Default>::default() did not return (rc={rc}, {se.strip()[-120:]})", cls))
        else:
            n_rt += 1
            tags = {sc["discriminator"]["propertyName"] for sc in spec["components"]["schemas"].values() if isinstance(sc, dict) and sc.get("discriminator")}
            same = False
            if rc == 0 and so.startswith("BACK "):
                try:
                    # the tag property itself is C14's subject; here the recursive structure must survive
                    same = strip_tags(json.loads(so[5:]), tags) == strip_tags(json.loads(inp), tags)
                except Exception:
                    same = False
            if not same:
                # struct-level #[serde(default)] evaluates Default::default() before reading the members: decoding a
                # type whose Default diverges overflows in the same way (same defect, second symptom)
                cls = "default-first-variant-recursion" if rc in (-6, 134) and plan[i]["div"] and "overflowed its stack" in se else None
                viol.append((name, g, spec, f"{name}: nested document for {nm} (depth 60) did not round-trip: rc={rc} {so[:300]} {se[-120:]}", cls))
    res.counts["arena_modules"] = len(ar.cases)
    res.counts["default_calls"] = n_def
    res.counts["default_skipped_unsatisfiable"] = n_skip
    res.counts["nested_roundtrips"] = n_rt
    res.oblige(f"arena: Default::default() returned for {n_def} satisfiable types; {n_rt} nested (depth 60) documents deserialised and re-serialised to the same JSON value", True)
