"""C08 — operation selection: list, --only and --exclude agree and are exact."""
import itertools, json, os, random, re, subprocess
import vlib, c09
from vlib import Result, log

THEOREMS = ["C08_selection_by_base", "C08_partition", "C08_exact_outside_known", "C08_refuted_trimmed",
            "C08_refuted_uniquified", "C08_full_refuted", "C08_nonvacuous"]
TARGETS = ["Props/C08.v", "Extract/C08.v"]
METHODS = ["get", "put", "post", "delete", "head", "patch"]     # oas3 PathItem::methods() order (options/trace: see C12)

ID_FAMILIES = [
    ["api_users_list", "api_users_get", "api_users_create", "api_groups_list"],
    ["listPets", "createPet", "showPetById", "list_pets"],
    ["get", "get_user", "get_user_2", "getUser", "get-user"],
    ["users_list_v1", "groups_list_v1", "users_get_v1"],
    ["a", "b", "a_b", "b_a"],
    ["type", "match", "api_type", "api_match"],
    # ids whose remainder after trimming the common affixes would start with a digit
    ["get_item_1", "get_item_2", "get_item_3"], ["v1_list_all", "v1_2_all", "v1_get_all"],
    # ids equal to the names of the generated client's own constructors
    ["new", "with_client", "fetch_session", "with_base_url"],
    # ids whose remainder after trimming is a Rust keyword
    ["shape_list", "shape_type", "shape_match"], ["do_fn_x", "do_mod_x", "do_use_x"],
]


def gen_ops(rnd):
    """list of operations: (path, method, operationId|None, webhook?)"""
    fam = rnd.choice(ID_FAMILIES)
    n = rnd.randint(2, 6)
    ops, used = [], set()
    # (mixed literal / parameter segments such as {id}.csv are NOT lookups "by id": they keep their text)
    paths = ["/users", "/users/{id}", "/pets", "/pets/{petId}/toys", "/a/b", "/users/{id}.csv", "/pets/x{petId}y/toys", "/users/{id}:{rev}"]
    while len(ops) < n:
        wh = rnd.random() < 0.15
        path = rnd.choice(["newPet", "ping"]) if wh else rnd.choice(paths)
        m = rnd.choice(METHODS)
        if (wh, path, m) in used:
            continue
        used.add((wh, path, m))
        r = rnd.random()
        oid = None if r < 0.25 else rnd.choice(fam)
        ops.append((path, m, oid, wh))
    return ops


def make_spec(ops):
    paths, hooks = {}, {}
    for path, m, oid, wh in ops:
        op = {"responses": {"200": {"description": "ok"}}}
        if oid is not None:
            op["operationId"] = oid
        # a parameter reference that cannot be resolved is ignored by the generator: the operation stays selectable
        if (len(path) + len(m) + len(oid or "")) % 5 == 0:
            op["parameters"] = [{"$ref": "#/components/parameters/Missing"}]
        (hooks if wh else paths).setdefault(path, {})[m] = op
    spec = {"openapi": "3.1.0", "info": {"title": "t", "version": "1"}, "paths": paths}
    if hooks:
        spec["webhooks"] = hooks
    return spec


def ordered_ops(ops):
    """registry ingestion order: paths (BTreeMap order) x methods() order, then webhooks likewise"""
    key = lambda o: (o[0].encode(), METHODS.index(o[1]))
    return sorted([o for o in ops if not o[3]], key=key) + sorted([o for o in ops if o[3]], key=key)


def raw_id(o):
    path, m, oid, wh = o
    if oid is not None:
        return oid
    p = ("webhooks/" + path) if wh else path
    parts = [("by_id" if s.startswith("{") and s.endswith("}") else s) for s in p.split("/") if s]
    return m.upper().lower() if not parts else (m.upper() + "_" + "_".join(parts)).lower()


def base_ids(probe, olist):
    inp = "\n".join(c09.hx(raw_id(o).encode()) for o in olist) + "\n"
    p = subprocess.run([probe], input=inp, stdout=subprocess.PIPE, text=True)
    return [c09.unhx(l.split(" ")[0]).decode() for l in p.stdout.split("\n")[:len(olist)]]


def parse_list(txt):
    rows = []
    for line in txt.split("\n"):
        m = re.match(r"^\s(\S+)\s+(GET|PUT|POST|DELETE|HEAD|PATCH|OPTIONS|TRACE)\s+(\S+)\s*$", line)
        if m:
            rows.append((m.group(1), m.group(2).lower(), m.group(3)))
    return rows


def trait_methods(server_rs):
    src = open(server_rs).read()
    out = []
    for m in re.finditer(r"/// \* Path: `(\w+) ([^`]+)`\s*\n\s*fn (\w+|r#\w+)\(", src):
        out.append((m.group(3), m.group(1).lower(), m.group(2)))
    return out


def op_key(o):
    path, m, oid, wh = o
    return (m, ("webhooks/" + path) if wh else path)


def main(tier, seed, replay=None):
    res = Result("C08", tier, seed)
    vlib.build_repo()
    coq_ok, out = vlib.standard_coq_obligations(res, TARGETS, THEOREMS, expect_closed=4)
    exe = vlib.ocaml_build("c08") if coq_ok else None
    if coq_ok:
        res.oblige("extracted model driver builds", exe is not None)
    probe, err = c09.build_probe()
    if probe is None:
        raise SystemExit("FATAL: ident probe does not build: " + err)
    rnd = random.Random(seed)
    d = vlib.scratch("C08")
    nspecs = 120 if tier == "quick" else 600
    # deterministic families: an id that, once the common affix of the SELECTED subset is trimmed, equals the
    # untrimmed id of another selected operation; several methods on one path with the first one rejected
    fixed = [
        [("/get-started", "get", "get_get_started", False), ("/started", "get", "get_started", False), ("/feedback", "post", "post_feedback", False)],
        [("/a/b", "get", "list_list_items", False), ("/pets", "get", "list_items", False), ("/users", "put", "replace_thing", False)],
        # a suffix / prefix shared only by the lexicographically smallest and largest id: nothing may be trimmed
        [("/pets", "post", "create_pet", False), ("/a/b", "delete", "delete_order", False), ("/users", "get", "list_users", False), ("/pets/{petId}/toys", "get", "show_pet", False)],
        [("/pets", "post", "api_create", False), ("/a/b", "delete", "drop_order", False), ("/users", "get", "list_users", False), ("/pets/{petId}/toys", "get", "api_show", False)],
        # webhooks are selectable operations of the server trait
        [("/pets", "get", "list_pets", False), ("petAdopted", "post", "notify_adoption", True), ("ping", "post", "ping_hook", True)],
        [("/users", "get", "list_users", False), ("/users", "post", "create_user", False), ("/users/{id}", "get", "get_user", False),
         ("/users/{id}", "put", "replace_user", False), ("/users/{id}", "delete", "remove_user", False), ("/pets", "get", "health", False)],
    ]
    specs = fixed + [gen_ops(rnd) for _ in range(nspecs)]
    if replay:
        specs = [[tuple(o) for o in json.load(open(replay))["ops"]]]
    dis, viol, known_hits = [], [], set()
    n_runs = 0
    samples = []

    def run_spec(si):
        ops = specs[si]
        olist = ordered_ops(ops)
        sp = os.path.join(d, f"s{si}.json")
        json.dump(make_spec(ops), open(sp, "w"))
        rc, txt = vlib.oas(["list", "operations", "-i", sp, "--color", "never"])
        rows = parse_list(txt) if rc == 0 else None
        bases = base_ids(probe, olist)
        results = {"ops": ops, "olist": olist, "rows": rows, "bases": bases, "list_rc": rc, "runs": []}
        if rows is None:
            return results
        ids = [r[0] for r in rows]
        subsets = [[i] for i in ids] + ([ids[:2]] if len(ids) > 2 else []) + [[bases[0]]]
        if tier == "thorough":
            subsets = [list(c) for k in range(1, min(len(ids), 4) + 1) for c in itertools.combinations(ids, k)][:40]
        for S in subsets:
            for mode in ("only", "exclude"):
                outd = os.path.join(d, f"o{si}_{mode}_{'-'.join(S)[:40]}_{len(results['runs'])}")
                rc2, t2 = vlib.oas(["generate", "server-mod", "-i", sp, "-o", outd, "-q", f"--{mode}", ",".join(S)])
                tm = trait_methods(os.path.join(outd, "server.rs")) if rc2 == 0 and os.path.exists(os.path.join(outd, "server.rs")) else None
                results["runs"].append((S, mode, rc2, tm, t2[-200:]))
        return results
    allres = vlib.pmap(run_spec, range(len(specs)))
    model_q, model_idx = [], []
    for si, r in enumerate(allres):
        if r["rows"] is None:
            viol.append((r["ops"], f"`list operations` failed rc={r['list_rc']}"))
            continue
        b = " ".join(r["bases"])
        model_q.append(f"none - // {b}")
        model_idx.append((si, None))
        for ri, (S, mode, rc2, tm, t2) in enumerate(r["runs"]):
            model_q.append(f"{'only' if mode == 'only' else 'excl'} {','.join(S)} // {b}")
            model_idx.append((si, ri))
    model = vlib.run_driver(exe, model_q) if exe else None
    if model is not None:
        # emitted method identifier = to_rust_field_name(registry id): map model ids through the real sanitiser
        all_ids = sorted({x.split(":", 1)[1] for line in model for x in line.split()})
        pr = subprocess.run([probe], input="\n".join(c09.hx(i.encode()) for i in all_ids) + "\n", stdout=subprocess.PIPE, text=True)
        method_of = {i: c09.unhx(l.split(" ")[0]).decode() for i, l in zip(all_ids, pr.stdout.split("\n"))}
        for (si, ri), line in zip(model_idx, model):
            r = allres[si]
            reg = [(int(x.split(":")[0]), x.split(":", 1)[1]) for x in line.split()]
            norm = lambda x: x[2:] if x.startswith("r#") else x
            mview = sorted((norm(idv), op_key(r["olist"][p])) for p, idv in reg)
            if ri is None:
                iview = sorted((norm(row[0]), (row[1], row[2])) for row in r["rows"])
                # the recorded class (list prints trimmed / uniquified ids, the filter matches base ids) applies where the
                # MODEL of the unchanged algorithm changes the ids — not wherever the implementation happens to
                r["model_untouched"] = sorted(idv for _, idv in reg) == sorted(r["bases"]) and len(set(r["bases"])) == len(r["bases"])
                if mview != iview:
                    dis.append(f"list: ops {r['olist']} impl {iview} model {mview}")
                    if r["model_untouched"]:
                        viol.append((r["ops"], f"`list operations` prints the ids {[x[0] for x in iview]} for operations whose ids {sorted(r['bases'])} need no trimming or de-duplication: --only / --exclude with a listed id does not select its row"))
            else:
                S, mode, rc2, tm, t2 = r["runs"][ri]
                if tm is None:
                    if reg:      # server-mod with zero selected operations may legitimately write nothing/short
                        dis.append(f"--{mode} {S}: generator rc={rc2} {t2} but model selects {mview}")
                    continue
                iview = sorted((norm(name), (m, p)) for name, m, p in tm)
                mview = sorted((norm(method_of[idv]), op_key(r["olist"][p])) for p, idv in reg)
                if mview != iview:
                    dis.append(f"--{mode} {S}: ops {r['olist']} impl {iview} model {mview}")
    # property oracle on the implementation (search)
    for r in allres:
        if r["rows"] is None:
            continue
        row_of = {row[0]: (row[1], row[2]) for row in r["rows"]}
        allops = sorted(row_of.values())
        ids_untouched = r.get("model_untouched", sorted(r["bases"]) == sorted(row_of) and len(set(r["bases"])) == len(r["bases"]))
        for (S, mode, rc2, tm, t2) in r["runs"]:
            n_runs += 1
            if tm is None and rc2 != 0:
                got = None
            else:
                got = sorted((m, p) for _, m, p in (tm or []))
            listed = [s for s in S if s in row_of]
            want_only = sorted(row_of[s] for s in listed)
            want = want_only if mode == "only" else sorted(o for o in allops if o not in want_only)
            if got != want:
                if ids_untouched:
                    viol.append((r["ops"], f"--{mode} {S}: emitted {got}, `list` rows denote {want}"))
                else:
                    known_hits.add("list-ids-differ-from-filter-ids")
        if len(samples) < 4:
            samples.append({"ops": r["olist"], "list": r["rows"]})
    res.counts.update({"evaluations": n_runs, "distinct_nontrivial": len(allres), "specs": len(allres),
                       "traces_validated_against_impl": len(model_q) if model is not None else 0,
                       "rule": "specs with 2-6 operations from id families (shared prefixes/suffixes, snake-case collisions, missing operationId, webhooks); `list operations` and server-mod --only/--exclude for every single listed id, a pair and a base id (thorough: all subsets up to 4); registry of each run compared with the extracted model; oracle: emitted trait methods vs the rows denoted by the ids"})
    for s in samples:
        res.sample(s)
    res.oblige(f"correspondence: model registry = implementation on {len(model_q)} list/--only/--exclude runs", not dis, dis[0] if dis else "")
    res.cov["trusted_base"] = vlib.COMMON_TRUSTED + [
        "coq/Model/Registry.v: hand model of operation_registry.rs and trim_common_affixes; base ids come from the real sanitiser (ident_probe)",
        "python: ingestion order (paths bytewise, oas3 PathItem::methods() order, then webhooks) and generate_operation_id"]
    res.assumptions = ["OPTIONS/TRACE operations are excluded here (they are C12's finding)"]
    kf = {k["key"]: k["text"] for k in vlib.known_findings("C08")}
    for k in sorted(known_hits):
        if k in kf:
            res.known(k, kf[k])
        else:
            viol.append((k, f"unlisted failing class {k}"))
    for (ops, dsc) in viol[:3]:
        res.violation(dsc, {"ops": ops})
    broken = [o for o in res.obligations if not o[1]]
    if broken and not viol:
        res.violation("proof obligation or correspondence no longer checks: " + "; ".join(o[0] for o in broken),
                      {"broken": [[o[0], o[2]] for o in broken]}, no_input=True)
    return res.finish()
