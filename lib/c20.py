"""C20 — the SSE stream yields every event exactly once, in order, however bytes arrive."""
import json, os, random, re, subprocess
import vlib
from vlib import Result, log

THEOREMS = ["C20_line_prefix_stable", "C20_string_chunking", "C20_chunk_independent", "C20_nothing_left_over",
            "C20_utf8_conservation", "C20_pending_noop", "C20_refuted_bom", "C20_refuted_trailing_cr", "C20_nonvacuous"]
TARGETS = ["Props/C20.v", "Extract/C20.v"]
PROBE = os.path.join(vlib.CACHE, "sse-target", "debug", "sse_probe")


def build_probe():
    with vlib.Lock("sse_probe"):
        env = dict(vlib.ENV)
        env["CARGO_TARGET_DIR"] = os.path.join(vlib.CACHE, "sse-target")
        d = os.path.join(vlib.VERIF, "tools", "sse_probe")
        rc, out = vlib.run(["cargo", "build", "--offline", "-q"], cwd=d, env=env, timeout=1800)
        if rc != 0:
            print(out[-3000:])
            raise SystemExit("FATAL: sse_probe does not build against /repo's support crate")
    return PROBE


def dec(data: bytes):
    """serde_json::Deserializer::from_str(data) + RawValue without end(): first JSON value, trailing ignored"""
    try:
        s = data.decode("utf-8")
    except UnicodeDecodeError:
        return None
    t = s.lstrip(" \t\n\r")
    try:
        _, end = json.JSONDecoder(parse_constant=_bad).raw_decode(t)
    except Exception:
        return None
    return t[:end].encode("utf-8")


def _bad(x):
    raise ValueError(x)


PAYLOADS_OK = [b"1", b'"x"', b'{"a":1}', b"[1,2]", '"é"'.encode(), '"😀"'.encode(), b"true", b'"a b"', b"-3.5"]
PAYLOADS_BAD = [b"{bad", b"tru", b"'x'", b"]"]
EOLS = [b"\n", b"\r\n", b"\r"]


def gen_stream(rnd, max_events=4):
    out = b""
    for _ in range(rnd.randint(1, max_events)):
        kind = rnd.random()
        nlines = rnd.randint(1, 3)
        for _ in range(nlines):
            r = rnd.random()
            if r < 0.55:
                pl = rnd.choice(PAYLOADS_OK if kind < 0.75 else PAYLOADS_BAD)
                line = rnd.choice([b"data: ", b"data:"]) + pl
            elif r < 0.65:
                line = b": comment " + rnd.choice([b"", b"x:y", "ü".encode()])
            elif r < 0.75:
                line = rnd.choice([b"id: 7", b"event: upd", b"retry: 10", b"foo: bar", b"foo"])
            elif r < 0.85:
                line = rnd.choice([b"data", b"data:", b"data: "])
            else:
                line = b"data:  " + rnd.choice(PAYLOADS_OK)
            out += line + rnd.choice(EOLS)
        out += rnd.choice(EOLS)
    # avoid the Known class by default: do not end on a lone CR
    if out.endswith(b"\r"):
        out = out[:-1] + b"\n"
    if rnd.random() < 0.2:
        out += rnd.choice([b"data: 9", b"data: 9\n", b":", b"da"])     # unterminated tail: dropped
    return out


SHORT_STREAMS = [b"data:1\n\n", b"data: 1\r\n\r\n", b"data:1\r\rx", b"d:1\n\ndata:2\n\n", 'data:"é"\n\n'.encode(),
                 'data:"😀"\n\n'.encode()[:14], b":c\ndata:3\n\n", b"data\n\ndata:4\n\n", b"data:{\n\ndata:5\n\n",
                 b"\n\ndata:6\r\n\n", b"data:7\ndata:8\n\n", b"id:1\ndata:9\n\n", b"data: 1\n\r\n", b"data:1\r\n\n:\n",
                 b"a\rdata:2\r\r\n"]


def all_chunkings(b: bytes):
    n = len(b)
    for mask in range(1 << (n - 1)):
        chunks, start = [], 0
        for i in range(n - 1):
            if mask >> i & 1:
                chunks.append(b[start:i + 1])
                start = i + 1
        chunks.append(b[start:])
        yield chunks


def script_line(steps):
    return " ".join("P" if s is None else "C" + s.hex() for s in steps)


def random_script(rnd, b):
    steps, i = [], 0
    while i < len(b):
        r = rnd.random()
        if r < 0.2:
            steps.append(None)
        elif r < 0.25:
            steps.append(b"")
        else:
            k = rnd.choice([1, 1, 2, 3, 5, 8, 13, 40])
            steps.append(b[i:i + k])
            i += k
    if rnd.random() < 0.3:
        steps.append(None)
    return steps


def known_class(total: bytes):
    if total.startswith(b"\xef\xbb\xbf"):
        return "bom-panic"
    if total.endswith(b"\r"):
        return "trailing-cr"
    return None


def parse_impl(line):
    return line.split()


def model_to_impl_view(model_items):
    """apply the JSON decoder stub to the model's raw event data"""
    out = []
    for it in model_items:
        if it.startswith("I"):
            d = dec(bytes.fromhex(it[1:]))
            out.append("EJ" if d is None else "O" + d.hex())
        else:
            out.append(it)
    return out


def dispatch_part(viol):
    """the generated parse_response hands an event stream to the consumer: for a status that declares
    text/event-stream next to other media types (text/plain, json, csv), a response labelled text/event-stream
    selects the EventStream variant — otherwise no event is ever yielded — and the other labels select the others"""
    import c04
    c04.load_http_consts()
    d = vlib.scratch("C20d")
    S = {"type": "string"}
    shapes = [[("text/plain", S), ("text/event-stream", c04.REF_PET)], [("text/event-stream", c04.REF_PET), ("text/plain", S)],
              [("application/json", c04.REF_ERR), ("text/event-stream", c04.REF_PET), ("text/csv", S)], [("text/event-stream", c04.REF_PET)],
              [("text/html", S), ("text/event-stream", S)]]
    # the item type of the stream is the declared schema's type, wrappers included
    typed = [({"type": "array", "items": {"type": "integer"}}, "Vec<i64>"), ({"type": ["integer", "null"]}, "Option<i64>"), (c04.REF_PET, "<Pet>")]     # (an array of $ref items is named through an alias)
    n = 0
    for k, (sch, want) in enumerate(typed):
        spec = c04.make_spec([("200", [("text/event-stream", sch)])])
        sp = os.path.join(d, f"t{k}.json")
        json.dump(spec, open(sp, "w"))
        out = os.path.join(d, f"t{k}")
        rc, txt = vlib.oas(["generate", "client-mod", "-i", sp, "-o", out, "-q"])
        text = open(os.path.join(out, "types.rs")).read().replace(" ", "").replace("\n", "") if rc == 0 else ""
        n += 1
        m = re.search(r"EventStream<(.*?)>>::from_response", text)
        if rc != 0 or not m or want.replace(" ", "") not in "<" + m.group(1) + ">":
            viol.append((f"item type {sch}", f"generated stream item type for the event schema {json.dumps(sch)}: the parser builds EventStream<{m.group(1) if m else '?'}>, the declared payload is {want.strip('<>')} (every event of that shape would be a decode error)"))
    for k, shape in enumerate(shapes):
        for key in ("200", "2XX", "default"):
            spec = c04.make_spec([(key, shape)])
            sp = os.path.join(d, f"s{k}_{key}.json")
            json.dump(spec, open(sp, "w"))
            out = os.path.join(d, f"o{k}_{key}")
            rc, txt = vlib.oas(["generate", "client-mod", "-i", sp, "-o", out, "-q"])
            rb = vlib.vtool_lines("parse-response", [os.path.join(out, "types.rs")])[0] if rc == 0 else {"error": txt[-200:]}
            if rc != 0 or "error" in rb or not rb.get("parse_response") or "error" in rb["parse_response"][0]:
                viol.append((f"dispatch {shape}", f"generated dispatch for {key}: {[c for c, _ in shape]}: generation / read-back failed: {json.dumps(rb)[:200]}"))
                continue
            pr = rb["parse_response"][0]
            for ct in ("text/event-stream", "text/event-stream; charset=utf-8", "text/event-stream;charset=UTF-8"):
                n += 1
                got = c04.eval_readback_case(pr, 200, ct)
                if not (got.get("payload") or "").startswith("stream:"):
                    if key == "default" and len(shape) > 1:
                        continue      # the fallback arm has no content dispatch (C04's recorded default-multi-media class)
                    viol.append((f"dispatch {shape}", f"generated dispatch for {key}: {[c for c, _ in shape]}: a response labelled {ct!r} is handed over as {got.get('variant')} ({got.get('payload')}) instead of an event stream: no event is yielded"))
            for ct, sc in shape:
                if ct != "text/event-stream" and key != "default":
                    n += 1
                    got = c04.eval_readback_case(pr, 200, ct)
                    if (got.get("payload") or "").startswith("stream:"):
                        viol.append((f"dispatch {shape}", f"generated dispatch for {key}: {[c for c, _ in shape]}: a response labelled {ct!r} is treated as an event stream"))
    return n


def main(tier, seed, replay=None):
    res = Result("C20", tier, seed)
    vlib.build_repo()
    coq_ok, out = vlib.standard_coq_obligations(res, TARGETS, THEOREMS, expect_closed=8)
    exe = vlib.ocaml_build("c20") if coq_ok else None
    if coq_ok:
        res.oblige("extracted model driver builds", exe is not None)
    probe = build_probe()
    rnd = random.Random(seed)
    scripts = []   # (steps, total, group)
    if replay:
        r = json.load(open(replay))
        steps = [None if s is None else bytes.fromhex(s) for s in r["script"]]
        scripts.append((steps, b"".join(s for s in steps if s), "replay"))
    else:
        maxn = 11 if tier == "quick" else 14
        for b in SHORT_STREAMS:
            b = b[:maxn]
            for ch in all_chunkings(b):
                scripts.append((ch, b, "exhaustive"))
        nrand = 3000 if tier == "quick" else 60000
        for _ in range(nrand):
            b = gen_stream(rnd)
            scripts.append((random_script(rnd, b), b, "random"))
        # long runs of events that yield no item (empty data, comments only, id / retry only) before real events:
        # consumed in one poll, in always-ready small chunks, and with Pending polls in between
        for filler in (b"data:\n\n", b"data\n\n", b": keep-alive\n\n", b"id: 7\n\n", b"retry: 10\n\n", b"\n"):
            for n in (31, 32, 33, 40, 200):
                b = filler * n + b"data: 1\n\n" + filler * n + b"data: [2]\n\ndata: 3\n\n"
                scripts.append(([b], b, "runs"))
                scripts.append(([b[i:i + 5] for i in range(0, len(b), 5)], b, "runs"))
                scripts.append((random_script(rnd, b), b, "runs"))
        # malformed stream: ill-formed bytes, and the Known witnesses
        for b in [b"data: 1\n\n\xff" + b"data: 2\n\n", b"data: 1\n\n\xe2\x82", b"\xc0\x80data: 1\n\n"]:
            scripts.append((random_script(rnd, b), b, "malformed"))
    lines = [script_line(s[0]) for s in scripts]
    whole = [script_line([s[1]]) for s in scripts]
    p = subprocess.run([probe], input="\n".join(lines + whole) + "\n", stdout=subprocess.PIPE, text=True, timeout=3000)
    impl_all = p.stdout.split("\n")
    impl, impl_whole = impl_all[:len(lines)], impl_all[len(lines):2 * len(lines)]
    model = vlib.run_driver(exe, lines) if exe else None
    dis, viol = [], []
    n_nontrivial = set()
    for i, (steps, total, grp) in enumerate(scripts):
        iv = parse_impl(impl[i])
        kc = known_class(total)
        if model is not None:
            mi, spec, wf = [x.strip() for x in model[i].split("#")]
            mv = model_to_impl_view(mi.split())
            if mv != iv:
                dis.append((i, f"script {lines[i]}: impl {iv} model {mv}"))
            specv = model_to_impl_view(["I" + x[1:] for x in spec.split()])
            wf = wf == "wf=true"
        else:
            specv, wf = None, None
        # property oracle on the implementation (search for a failing input)
        if kc is None:
            if iv != parse_impl(impl_whole[i]):
                viol.append((i, f"chunking changes the items: script {lines[i]} -> {iv}, single chunk -> {parse_impl(impl_whole[i])}"))
            elif specv is not None and wf and iv != specv:
                viol.append((i, f"items differ from the standard's reading: script {lines[i]} -> {iv}, expected {specv}"))
        if len(iv) >= 1:
            n_nontrivial.add(lines[i])
    # the generated content-type dispatch in front of the stream
    n_disp = dispatch_part(viol)
    # known findings: does the implementation still fail on the recorded witnesses?
    for kf in vlib.known_findings("C20"):
        w = {"bom-panic": [b"\xef\xbb\xbfdata: 1\n\n"], "trailing-cr": [b"data: 1\r\r"]}.get(kf["key"])
        if w is None:
            continue
        q = subprocess.run([probe], input=script_line(w) + "\n", stdout=subprocess.PIPE, text=True).stdout.split("\n")[0].split()
        if q != ["O31"]:
            res.known(kf["key"], kf["text"] + f" (witness still yields {q or 'no item'})")
    res.counts.update({
        "evaluations": len(scripts), "distinct_nontrivial": len(n_nontrivial),
        "traces_validated_against_impl": len(scripts) if model is not None else 0,
        "disagreements": len(dis), "dispatch_evaluations": n_disp,
        "rule": f"poll scripts (chunks + Pending): all 2^(n-1) chunkings of {len(SHORT_STREAMS)} short streams cut to <= {11 if tier=='quick' else 14} bytes, random streams from the event grammar (valid/malformed JSON, empty data, comments, multi-line, LF/CRLF/CR, 2-4 byte scalars) with random cuts, empty chunks and Pending polls, long runs (31..200) of item-less events before and between real events, plus ill-formed byte streams; the probe's executor honours the waker contract (Pending without a wake-up is reported as STALLED); each run through oas3_gen_support::EventStream (in-memory reqwest::Response) and through the extracted Coq machine; non-trivial = yields at least one item",
    })
    for i in (0, len(scripts) // 2, len(scripts) - 1):
        res.sample({"script": lines[i], "impl_items": impl[i]})
    res.oblige(f"correspondence: model = implementation on {len(scripts)} poll scripts", not dis, dis[0][1] if dis else "")
    res.cov["trusted_base"] = vlib.COMMON_TRUSTED + [
        "coq/Model/Sse.v: hand model of eventsource-stream 0.2.3 (Utf8Stream, nom streaming line parser, EventBuilder, EventStream::poll_next) and of oas3-gen-support::EventStream::poll_next",
        "tools/sse_probe (scripted in-memory reqwest::Response, wake-counting executor, catch_unwind); JSON decoder stub = python json raw_decode on both sides' raw event data",
    ]
    res.assumptions = ["theorems quantify over well-formed UTF-8 byte streams; ill-formed streams are characterised by the executable model and the correspondence only",
                       "poll-level machine (one event per poll, Pending) is tied to the chunk-level theorems by C20_pending_noop and by correspondence, not by a full simulation proof",
                       "serde_json is not modelled: a decode function is applied per event", "the generated content-type dispatch in front of the stream is read back (vtool parse-response) and evaluated on content-type labels, not run"]
    for (i, d) in viol[:3]:
        if isinstance(i, str):
            res.violation(d, {"generated_dispatch": i})
        else:
            res.violation(d, {"script": [None if s is None else s.hex() for s in scripts[i][0]], "impl_items": impl[i]})
    broken = [o for o in res.obligations if not o[1]]
    if broken and not viol:
        res.violation("proof obligation or correspondence no longer checks: " + "; ".join(o[0] for o in broken),
                      {"broken": [[o[0], o[2]] for o in broken]}, no_input=True)
    return res.finish()
