"""C01 — generated code compiles against its documented dependencies (arena = rustc as oracle)."""
import json, os, random, re
import vlib, specgen, arena
from vlib import Result, log

THEOREMS = ["C01_serde_usage_closed", "C01_worklist_terminates", "C01_nonvacuous"]
TARGETS = ["Props/C01.v"]

MODES = ["types", "client-mod", "server-mod"]   # `client` alone is not self-contained by design (README: types and client generated individually)
FLAGSETS = {
    "visibility": [[], ["-C", "crate"], ["-C", "file"]],
    "enum": [[], ["--enum-mode", "preserve"], ["--enum-mode", "relaxed"]],
    "helpers": [[], ["--no-helpers"]],
    "builders": [[], ["--enable-builders"]],
    "odata": [[], ["--odata-support"]],
    "all_schemas": [[], ["--all-schemas"]],
    "all_headers": [[], ["--all-headers"]],
}


def pick_flags(rnd):
    mode = rnd.choice(MODES)
    flags = []
    for k, opts in FLAGSETS.items():
        flags += rnd.choice(opts)
    return mode, flags


def serde_oracle(dump):
    """E0277 clause on the emitted code itself: a type deriving Serialize/Deserialize only mentions
    generated types that implement it"""
    items = {x["name"]: x for x in dump["items"] if x["kind"] in ("struct", "enum", "type")}
    impls = {}
    for x in dump["items"]:
        if x["kind"] == "impl" and x.get("trait"):
            t = x["trait"].split("<")[0].split("::")[-1]
            impls.setdefault(x["self_ty"], set()).add(t)

    def has(name, tr, seen=()):
        it = items.get(name)
        if it is None:
            return True
        if it["kind"] == "type":
            return all(has(m.split("::")[-1], tr, seen + (name,)) for m in it["mentions"] if m.split("::")[-1] in items and m.split("::")[-1] not in seen)
        der = " ".join(a.get("attr", "") for a in it["attrs"])
        return (tr in re.findall(r"\b(\w+)\b", der)) or tr in impls.get(name, set())
    bad = []
    for name, it in items.items():
        if it["kind"] == "type":
            continue
        der = " ".join(a.get("attr", "") for a in it["attrs"])
        for tr in ("Serialize", "Deserialize"):
            if not (der.startswith("derive") or "derive(" in der) or tr not in re.findall(r"\b(\w+)\b", der):
                continue
            fields = it.get("fields", []) + [f for v in it.get("variants", []) for f in v["fields"]]
            for f in fields:
                if any("skip" in a.get("attr", "") for a in f["attrs"]):
                    continue
                for m in f["mentions"]:
                    mm = m.split("::")[-1]
                    if mm in items and not has(mm, tr):
                        bad.append(f"{name} derives {tr} but field {f['name']}: {f['ty']} mentions {mm} which does not implement it")
    return bad


def main(tier, seed, replay=None):
    res = Result("C01", tier, seed)
    vlib.build_repo()
    vlib.build_vtool()
    coq_ok, out = vlib.standard_coq_obligations(res, TARGETS, THEOREMS, expect_closed=2)
    rnd = random.Random(seed)
    n = 40 if tier == "quick" else 300
    d = vlib.scratch("C01")
    cases = []
    dist = {}
    for i in range(n):
        s, counts = specgen.gen_spec(seed * 1000 + i)
        for k, v in counts.items():
            dist[k] = dist.get(k, 0) + v
        mode, flags = pick_flags(rnd)
        cases.append({"i": i, "spec": s, "mode": mode, "flags": flags, "seed": seed * 1000 + i})
    # deterministic feature matrix: every body media category x required/optional, all parameter locations and styles,
    # exact/range/default responses with json/text/binary payloads — in each module mode
    fm = feature_matrix_spec()
    for mode in ("types", "client-mod", "server-mod"):
        for flags in ([], ["--enable-builders", "--all-headers"], ["-C", "crate", "--enum-mode", "relaxed", "--no-helpers"]):
            cases.append({"i": len(cases), "spec": fm, "mode": mode, "flags": flags, "seed": -1})
    if replay:
        r = json.load(open(replay))
        cases = [{"i": 0, "spec": r["spec"], "mode": r["mode"], "flags": r["flags"], "seed": r.get("seed", 0)}]

    def one(c):
        sp = os.path.join(d, f"s{c['i']}.json")
        json.dump(c["spec"], open(sp, "w"))
        out = os.path.join(d, f"o{c['i']}" + ("" if c["mode"].endswith("-mod") else ".rs"))
        rc, txt = vlib.oas(["generate", c["mode"], "-i", sp, "-o", out, "-q"] + c["flags"], timeout=60)
        return rc, txt, out
    outs = vlib.pmap(lambda c: one(c), cases)
    ar = arena.Arena("C01")
    gen_fail = []
    for c, (rc, txt, out) in zip(cases, outs):
        if rc != 0 or not os.path.exists(out):
            gen_fail.append((c, rc, txt[-400:]))
            continue
        ar.add_case(c["i"], out)
    ok, failed, err = ar.build_bisect(lambda cs: "fn main() {}\n", sub="check")
    viol, known_hits = [], set()
    kf = {k["key"]: k["text"] for k in vlib.known_findings("C01")}
    by_i = {c["i"]: c for c in cases}
    for ci, diags in failed.items():
        c = by_i[ci]
        codes = sorted({d_["code"] or "?" for d_ in diags})
        keys = classify(diags, c)
        if keys and all(k in kf for k in keys):
            known_hits |= keys
        else:
            viol.append((c, f"rustc rejects the module emitted for seed {c['seed']} mode {c['mode']} flags {c['flags']}: {codes} {diags[0]['message'][:200]}"))
    if not ok and err:
        res.oblige("arena builds after removing failing modules", False, err[:500])
    # serde bound oracle on emitted code (types files)
    files = []
    for c, (rc, txt, out) in zip(cases, outs):
        if rc == 0 and os.path.exists(out):
            files.append(os.path.join(out, "types.rs") if os.path.isdir(out) else out)
    dumps = vlib.vtool_lines("dump", files)
    nb = 0
    for dp in dumps:
        if "error" in dp:
            continue
        for b in serde_oracle(dp)[:1]:
            nb += 1
            viol.append(({"file": dp["file"]}, "serde bound not closed: " + b))
    for (c, rc, txt) in gen_fail:
        # a generator failure writes nothing: not a C01 violation by itself (C12 covers crashes)
        pass
    res.counts.update({"evaluations": len(cases), "distinct_nontrivial": len(cases) - len(gen_fail), "modules_checked_by_rustc": len(ar.cases) + len(failed),
                       "rustc_rejected": len(failed), "generator_failures": len(gen_fail), "input_distribution": dist,
                       "traces_validated_against_impl": len(files),
                       "rule": "feature-grammar specs (objects, arrays, maps, primitives+formats, enums of any JSON type, oneOf/anyOf/allOf, discriminators, nullable, $ref cycles, path/query/header params, json/form/text/binary bodies, exact/range/default responses) x random flag combinations over the 1152-point lattice; every emitted module type-checked by `cargo check` in the arena (documented runtime crates + /repo's support crate); plus the serde-bound closure oracle on the emitted items"})
    for c in cases[:3]:
        res.sample({"seed": c["seed"], "mode": c["mode"], "flags": c["flags"], "schemas": list(c["spec"]["components"]["schemas"])})
    res.cov["trusted_base"] = vlib.COMMON_TRUSTED + ["rustc/cargo check in the arena crate (tools/arena) is the oracle for acceptance; it is not modelled",
                                                       "coq/Model/SerdeUsage.v: hand model of postprocess/serde_usage.rs (worklist propagation)"]
    res.assumptions = ["PARTIAL: 'wf conditions => rustc accepts' is not provable here; the theorem covers the serde-bound (E0277) clause and termination of the propagation; every other clause is sampled by rustc on generated specs",
                       "the propagation model is tied to the code only through the closure oracle on emitted derives and rustc, not by a direct differential run"]
    for k in sorted(known_hits):
        res.known(k, kf[k])
    for (c, dsc) in viol[:3]:
        res.violation(dsc, {"spec": c.get("spec"), "mode": c.get("mode"), "flags": c.get("flags"), "seed": c.get("seed"), "file": c.get("file")})
    broken = [o for o in res.obligations if not o[1]]
    if broken and not viol:
        res.violation("proof obligation no longer checks: " + "; ".join(o[0] for o in broken),
                      {"broken": [[o[0], o[2]] for o in broken]}, no_input=True)
    return res.finish()


def classify(diags, c):
    """explain every rustc diagnostic of one module by a known-finding key (narrow patterns); returns the set of keys,
    or None if some diagnostic is not explained"""
    ops = [op for item in c["spec"].get("paths", {}).values() for op in item.values() if isinstance(op, dict) and "responses" in op]
    BIN = ("application/octet-stream", "image/", "audio/", "video/", "application/pdf")
    has_bin_body = any("requestBody" in op and any(ct.startswith(BIN) for ct in op["requestBody"].get("content", {})) for op in ops)
    opt_raw_body = any("requestBody" in op and not op["requestBody"].get("required", False)
                       and any(not (ct.endswith("json") or ct.startswith("multipart")) for ct in op["requestBody"].get("content", {}))
                       for op in ops)
    keys = set()
    for d_ in diags:
        code, msg, ren = d_["code"], d_["message"], d_["rendered"]
        if c["mode"].endswith("-mod") and "file" in c["flags"] and code in ("E0412", "E0422", "E0425", "E0433", "E0603", "E0277", "E0599", "E0282", "E0432"):
            keys.add("file-visibility-in-module-modes")
        elif c["mode"] == "server-mod" and has_bin_body and code == "E0308" and "Bytes" in ren and "server.rs" in ren:
            keys.add("server-binary-body-type-mismatch")
        elif c["mode"] == "server-mod" and opt_raw_body and code == "E0277" and "Handler<" in msg:
            keys.add("server-optional-raw-body-extractor")
        elif code in ("E0391", "E0308") and ("cycle detected when expanding type alias" in msg or (code == "E0308" and any("cycle detected when expanding type alias" in x["message"] for x in diags))) and has_recursive_alias(c["spec"]):
            keys.add("recursive-alias-schema")
        else:
            return None
    return keys


def has_recursive_alias(spec):
    """a component that is an array / map (no properties) and reaches itself through items / additionalProperties only"""
    comps = spec.get("components", {}).get("schemas", {})

    def alias_refs(s, out):
        if not isinstance(s, dict) or s.get("properties"):
            return
        if "$ref" in s:
            out.add(s["$ref"].split("/")[-1])
            return
        for k in ("items", "additionalProperties"):
            if isinstance(s.get(k), dict):
                alias_refs(s[k], out)
    g = {}
    for k, v in comps.items():
        out = set()
        if isinstance(v, dict) and "$ref" not in v and not v.get("properties") and (v.get("type") == "array" or isinstance(v.get("additionalProperties"), dict)):
            alias_refs({kk: v[kk] for kk in ("items", "additionalProperties") if kk in v}, out)
            g[k] = out
    for k in g:
        seen, todo = set(), list(g[k])
        while todo:
            u = todo.pop()
            if u == k:
                return True
            if u in seen or u not in g:
                continue
            seen.add(u)
            todo.extend(g[u])
    return False


def feature_matrix_spec():
    paths = {}
    bodies = [("json", "application/json", {"$ref": "#/components/schemas/Item"}), ("form", "application/x-www-form-urlencoded", {"$ref": "#/components/schemas/Item"}),
              ("text", "text/plain", {"type": "string"}), ("bin", "application/octet-stream", {"type": "string", "format": "binary"}),
              ("multi", "multipart/form-data", {"type": "object", "properties": {"file": {"type": "string", "format": "binary"}, "note": {"type": "string"}}})]
    for name, ct, sch in bodies:
        for req in (True, False):
            op = {"operationId": f"send_{name}_{'req' if req else 'opt'}",
                  "requestBody": {"required": req, "content": {ct: {"schema": sch}}},
                  "responses": {"200": {"description": "ok", "content": {"application/json": {"schema": {"$ref": "#/components/schemas/Item"}}}},
                                "4XX": {"description": "bad", "content": {"text/plain": {"schema": {"type": "string"}}}},
                                "default": {"description": "d"}}}
            paths[f"/b/{name}/{'r' if req else 'o'}"] = {"post": op}
    paths["/p/{id}/x{n}y"] = {"parameters": [{"name": "id", "in": "path", "required": True, "schema": {"type": "string"}}],
                              "get": {"operationId": "with_params", "parameters": [
                                  {"name": "n", "in": "path", "required": True, "schema": {"type": "integer"}},
                                  {"name": "q", "in": "query", "schema": {"type": "string"}},
                                  {"name": "tags", "in": "query", "explode": False, "schema": {"type": "array", "items": {"type": "string"}}},
                                  {"name": "nums", "in": "query", "explode": False, "schema": {"type": "array", "items": {"type": "integer"}}},
                                  {"name": "ratios", "in": "query", "style": "pipeDelimited", "schema": {"type": "array", "items": {"type": "number"}}},
                                  {"name": "sort", "in": "query", "schema": {"type": "string", "enum": ["asc", "desc"]}},
                                  {"name": "X-Trace", "in": "header", "required": True, "schema": {"type": "string"}},
                                  {"name": "X-Ids", "in": "header", "schema": {"type": "array", "items": {"type": "integer"}}},
                                  # required and optional parameters that carry a default / const / single-value enum
                                  {"name": "X-Ver", "in": "header", "required": True, "schema": {"type": "string", "const": "v1"}},
                                  {"name": "X-Mode", "in": "header", "required": True, "schema": {"type": "string", "default": "fast"}},
                                  {"name": "X-Level", "in": "header", "schema": {"type": "integer", "default": 3}},
                                  {"name": "X-Count", "in": "header", "required": True, "schema": {"type": "integer", "default": 1}},
                                  {"name": "api-version", "in": "query", "required": True, "schema": {"type": "string", "enum": ["2024-01"]}},
                                  {"name": "page", "in": "query", "required": True, "schema": {"type": "integer", "default": 1}}],
                                  "responses": {"200": {"description": "ok", "content": {"application/octet-stream": {"schema": {"type": "string", "format": "binary"}}}},
                                                "404": {"description": "nf"}}}}
    # one-directional usage reaching a type only through containers (map values, arrays, optional, nested maps)
    R = lambda t: {"$ref": f"#/components/schemas/{t}"}
    paths["/only/out"] = {"get": {"operationId": "only_out", "responses": {"200": {"description": "ok", "content": {"application/json": {"schema": R("OutBag")}}}}}}
    paths["/only/in"] = {"post": {"operationId": "only_in", "requestBody": {"required": True, "content": {"application/json": {"schema": R("InBag")}}}, "responses": {"204": {"description": "n"}}}}
    # response sets that differ only by a wrapper around the payload (must not be merged into one enum)
    nf = {"description": "nf", "content": {"application/json": {"schema": R("Sub")}}}
    paths["/tags"] = {"get": {"operationId": "list_tags", "responses": {"200": {"description": "ok", "content": {"application/json": {"schema": {"type": "array", "items": {"type": "string"}}}}}, "404": nf}}}
    paths["/tags/{t}"] = {"get": {"operationId": "get_tag", "parameters": [{"name": "t", "in": "path", "required": True, "schema": {"type": "string"}}],
                                  "responses": {"200": {"description": "ok", "content": {"application/json": {"schema": {"type": "string"}}}}, "404": nf}}}
    paths["/tags/{t}/n"] = {"get": {"operationId": "count_tag", "parameters": [{"name": "t", "in": "path", "required": True, "schema": {"type": "string"}}],
                                    "responses": {"200": {"description": "ok", "content": {"application/json": {"schema": {"type": ["string", "null"]}}}}, "404": nf}}}
    # text media types whose schema is a structured type / enum / number (decoded from text)
    paths["/forecast"] = {"get": {"operationId": "get_forecast", "responses": {
        "200": {"description": "ok", "content": {"text/plain": {"schema": R("Sub")}, "application/json": {"schema": R("Sub")}, "text/json": {"schema": R("Sub")}}},
        "404": {"description": "nf", "content": {"text/plain": {"schema": R("Sub")}}},
        "409": {"description": "c", "content": {"text/plain": {"schema": R("SharedKind")}}},
        "410": {"description": "g", "content": {"text/csv": {"schema": {"type": "integer"}}}},
        "default": {"description": "d", "content": {"text/html": {"schema": {"type": "string"}}}}}}}
    # a type used DIRECTLY in one direction and only through a container in the other
    paths["/shared/in"] = {"post": {"operationId": "shared_in", "parameters": [{"name": "kind", "in": "query", "schema": R("SharedKind")}],
                                    "requestBody": {"required": True, "content": {"application/json": {"schema": R("SharedLeaf")}}}, "responses": {"204": {"description": "n"}}}}
    paths["/shared/out"] = {"get": {"operationId": "shared_out", "responses": {"200": {"description": "ok", "content": {"application/json": {"schema": R("SharedOutBag")}}}}}}
    paths["/shared2/out"] = {"get": {"operationId": "shared2_out", "responses": {"200": {"description": "ok", "content": {"application/json": {"schema": R("Shared2Leaf")}}}}}}
    paths["/shared2/in"] = {"post": {"operationId": "shared2_in", "requestBody": {"required": True, "content": {"application/json": {"schema": R("Shared2InBag")}}}, "responses": {"204": {"description": "n"}}}}
    # unions whose variants are containers of a struct (helper constructors are generated for struct variants)
    paths["/formats"] = {"put": {"operationId": "put_formats", "requestBody": {"required": True, "content": {"application/json": {"schema": R("Formats")}}},
                                 "responses": {"200": {"description": "ok", "content": {"application/json": {"schema": R("User")}}}}}}
    paths["/either"] = {"post": {"operationId": "post_either", "requestBody": {"required": True, "content": {"application/json": {"schema": R("EitherItems")}}},
                                 "responses": {"200": {"description": "ok", "content": {"application/json": {"schema": R("EitherItems")}}}}}}
    mapbag = lambda leaf, leaf2: {"type": "object", "properties": {     # reached ONLY through map values
        "by_key": {"type": "object", "additionalProperties": R(leaf)},
        "lists": {"type": "object", "additionalProperties": {"type": "array", "items": R(leaf2)}}}}
    bag = lambda leaf, leaf2: {"type": "object", "properties": {
        "by_key": {"type": "object", "additionalProperties": R(leaf)},
        "lists": {"type": "object", "additionalProperties": {"type": "array", "items": R(leaf2)}},
        "many": {"type": "array", "items": R(leaf)}, "maybe": {"oneOf": [R(leaf2), {"type": "null"}]}}}
    return {"openapi": "3.1.0", "info": {"title": "Matrix", "version": "1"}, "paths": paths,
            "components": {"schemas": {"Item": {"type": "object", "required": ["id"], "properties": {"id": {"type": "integer"}, "name": {"type": "string"},
                                                                                             "sub": {"$ref": "#/components/schemas/Sub"}}},
                                       "Sub": {"type": "object", "properties": {"k": {"type": "string", "enum": ["a", "b"]}}},
                                       "OutBag": bag("OutLeaf", "OutKind"), "InBag": bag("InLeaf", "InKind"),
                                       # string formats next to string constraints (the constraints only apply to plain strings), required and optional
                                       "Formats": {"type": "object", "required": ["d1", "t1", "u1", "dur1", "b1"], "properties": dict(
                                           [(f"{n}{k}", dict({"type": "string", "format": f}, **c)) for n, f in (("d", "date"), ("t", "date-time"), ("u", "uuid"), ("dur", "duration"), ("b", "byte"), ("tm", "time"), ("uri", "uri"), ("em", "email"), ("ip", "ipv4"))
                                            for k, c in ((1, {}), (2, {"minLength": 1, "maxLength": 40}), (3, {"pattern": "^[A-Za-z0-9:.-]+$"}))])},
                                       # members whose regex constants derive the same name from different patterns
                                       "User": {"type": "object", "properties": {"profile_name": {"type": "string", "pattern": "^[a-z]+$"}, "profile": R("UserProfile")}},
                                       "UserProfile": {"type": "object", "properties": {"name": {"type": "string", "pattern": "^[A-Z][a-z]+$"}, "nick": {"type": "string", "pattern": "^[a-z]+$"}}},
                                       "EitherItems": {"oneOf": [R("Shared2Leaf"), {"type": "array", "items": R("Shared2Leaf")}, {"type": "object", "additionalProperties": R("SharedLeaf")},
                                                                 {"type": "array", "items": {"type": "array", "items": R("SharedLeaf")}}]},
                                       "EitherHolder": {"type": "object", "properties": {"one": {"anyOf": [R("SharedLeaf"), {"type": "array", "items": R("SharedLeaf")}]},
                                                                                          "two": {"oneOf": [R("SharedKind"), {"type": "array", "items": R("SharedKind")}, {"type": "null"}]}}},
                                       "SharedOutBag": mapbag("SharedLeaf", "SharedKind"), "Shared2InBag": mapbag("Shared2Leaf", "SharedKind"),
                                       "SharedLeaf": {"type": "object", "properties": {"s": {"type": "string"}}}, "SharedKind": {"type": "string", "enum": ["k1", "k2"]},
                                       "Shared2Leaf": {"type": "object", "properties": {"t": {"type": "string"}}},
                                       "OutLeaf": {"type": "object", "properties": {"v": {"type": "string"}}}, "OutKind": {"type": "string", "enum": ["o1", "o2"]},
                                       "InLeaf": {"type": "object", "properties": {"w": {"type": "integer"}}}, "InKind": {"type": "string", "enum": ["i1", "i2"]}}}}
