"""The arena: a cargo package in which freshly emitted modules are compiled (and run) against the
documented runtime crates and /repo's support crate."""
import json, os, re, shutil, subprocess
import vlib

TEMPLATE = os.path.join(vlib.VERIF, "tools", "arena")
TARGET = os.path.join(vlib.CACHE, "arena-target")


class Arena:
    def __init__(self, name):
        self.dir = os.path.join(vlib.CACHE, "arena", name)
        os.makedirs(self.dir, exist_ok=True)
        for f in ("Cargo.toml", "Cargo.lock"):
            shutil.copy(os.path.join(TEMPLATE, f), self.dir)
        os.makedirs(os.path.join(self.dir, ".cargo"), exist_ok=True)
        shutil.copy(os.path.join(TEMPLATE, ".cargo", "config.toml"), os.path.join(self.dir, ".cargo"))
        self.src = os.path.join(self.dir, "src")
        self.reset()

    def reset(self):
        shutil.rmtree(self.src, ignore_errors=True)
        os.makedirs(os.path.join(self.src, "cases"), exist_ok=True)
        self.cases = []

    def add_case(self, idx, path):
        """path: an emitted file (types/client mode) or directory (client-mod/server-mod)"""
        dst = os.path.join(self.src, "cases", f"case_{idx}")
        if os.path.isdir(path):
            shutil.copytree(path, dst)
        else:
            os.makedirs(dst)
            shutil.copy(path, os.path.join(dst, "mod.rs"))
        self.cases.append(idx)

    def remove_case(self, idx):
        shutil.rmtree(os.path.join(self.src, "cases", f"case_{idx}"), ignore_errors=True)
        self.cases = [c for c in self.cases if c != idx]

    def write_main(self, body, cases=None):
        mods = "\n".join(f'#[path = "cases/case_{i}/mod.rs"]\npub mod case_{i};' for i in (cases if cases is not None else self.cases))
        open(os.path.join(self.src, "main.rs"), "w").write("#![allow(warnings)]\n" + mods + "\n" + body)

    def cargo(self, sub, timeout=3000):
        env = dict(vlib.ENV)
        env["CARGO_TARGET_DIR"] = TARGET
        env["RUSTFLAGS"] = "-Awarnings"
        with vlib.Lock("arena"):
            p = subprocess.run(["cargo", sub, "--offline", "--message-format=json", "-q"], cwd=self.dir, env=env,
                               stdout=subprocess.PIPE, stderr=subprocess.PIPE, text=True, timeout=timeout)
        diags = []
        for line in p.stdout.split("\n"):
            if not line.startswith("{"):
                continue
            try:
                m = json.loads(line)
            except Exception:
                continue
            if m.get("reason") != "compiler-message":
                continue
            msg = m["message"]
            if msg.get("level") != "error":
                continue
            files = [s["file_name"] for s in msg.get("spans", [])]
            case = None
            for f in files:
                mm = re.search(r"cases/case_(\d+)/", f)
                if mm:
                    case = int(mm.group(1))
                    break
            if case is None:
                # errors located in macro expansions etc.: look into children / rendered text
                mm = re.search(r"cases/case_(\d+)/", msg.get("rendered") or "")
                if mm:
                    case = int(mm.group(1))
            diags.append({"code": (msg.get("code") or {}).get("code"), "message": msg.get("message", "")[:300],
                          "case": case, "rendered": (msg.get("rendered") or "")[:1500]})
        return p.returncode == 0, diags, p.stderr[-2000:]

    def build_bisect(self, main_body_fn, sub="build", max_rounds=6):
        """build; cases whose module has errors are removed and recorded; returns (ok, {case: [diags]})"""
        failed = {}
        for _ in range(max_rounds):
            self.write_main(main_body_fn(self.cases))
            ok, diags, err = self.cargo(sub)
            if ok:
                return True, failed, ""
            bad = sorted({d["case"] for d in diags if d["case"] is not None})
            if not bad:
                return False, failed, (diags[0]["rendered"] if diags else err)
            for c in bad:
                failed[c] = [d for d in diags if d["case"] == c]
                self.remove_case(c)
        return False, failed, "too many bisect rounds"

    def run(self, stdin_text, timeout=1200):
        exe = os.path.join(TARGET, "debug", "arena")
        p = subprocess.run([exe], input=stdin_text, stdout=subprocess.PIPE, stderr=subprocess.PIPE, text=True, timeout=timeout)
        return p.returncode, p.stdout, p.stderr[-2000:]
