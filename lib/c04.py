"""C04 — generated client maps every HTTP response to the declared variant."""
import json, os, random, itertools
import vlib
from vlib import Result, log

THEOREMS = ["C04_precedence", "C04_no_cross_status", "C04_exact_wins", "C04_condition_table",
            "C04_exact_sorts_before_range", "C04_nonvacuous"]
TARGETS = ["Props/C04.v", "Extract/C04.v"]

HTTP_CONSTS = {}  # filled from coq/Model/HttpConsts.v (same table the theorems use)


def load_http_consts():
    import re
    src = open(os.path.join(vlib.COQ, "Model", "HttpConsts.v")).read()
    for name, code in re.findall(r'\("([A-Z_]+)", (\d+)\)', src):
        HTTP_CONSTS[name] = int(code)


KEY_POOL = ["200", "201", "204", "226", "299", "301", "400", "404", "418", "422", "429", "500", "503", "599",
            "1XX", "2XX", "3XX", "4XX", "5XX", "default"]

# content shapes: list of (content-type, schema json | None)
REF_PET = {"$ref": "#/components/schemas/Pet"}
REF_ERR = {"$ref": "#/components/schemas/Err"}
CONTENT_SHAPES = [
    [],
    [("application/json", REF_PET)],
    [("application/json", REF_ERR)],
    [("application/json", None)],
    [("text/plain", {"type": "string"})],
    [("text/plain", {"type": "integer"})],
    [("application/octet-stream", {"type": "string", "format": "binary"})],
    [("application/json", REF_ERR), ("text/plain", {"type": "string"})],
    [("application/json", REF_PET), ("application/xml", REF_PET)],
    [("application/json", REF_PET), ("application/problem+json", REF_ERR)],
    [("application/json", REF_PET), ("text/plain", {"type": "string"}), ("application/octet-stream", None)],
    [("text/event-stream", REF_PET)],
    [("application/json", REF_PET), ("text/event-stream", REF_ERR)],
    [("application/xml", REF_ERR), ("text/html", {"type": "string"})],
    [("image/png", None), ("application/json", REF_ERR)],
    [("application/vnd.api+json", REF_PET), ("text/csv", {"type": "string"})],
    [("application/octet-stream", REF_ERR)],
    [("application/problem+json", REF_ERR), ("text/plain", {"type": "string"})],
    [("application/atom+xml", REF_PET), ("application/json", REF_PET)],
    # bare strings / numbers under structured media types (they are JSON / XML documents, not raw text)
    [("application/json", {"type": "string"})],
    [("application/json", {"type": "string"}), ("text/plain", {"type": "string"})],
    [("application/problem+json", {"type": "string"}), ("application/json", REF_ERR)],
    [("application/json", {"type": "integer"})],
    [("application/xml", {"type": "string"})],
    [("text/plain", {"type": "string"}), ("text/event-stream", REF_PET)],
]


def schema_tok(s):
    if s is None:
        return "-"
    if "$ref" in s:
        return "R:" + s["$ref"].split("/")[-1]
    t = s.get("type")
    if t == "string" and s.get("format") == "binary":
        return "P:Vec<u8>"
    return {"string": "P:String", "integer": "P:i64", "number": "P:f64", "boolean": "P:bool"}[t]


def make_spec(rs):
    """rs: list of (key, content) -> OpenAPI document."""
    responses = {}
    for key, content in rs:
        r = {"description": "d" + key}
        if content:
            r["content"] = {ct: ({"schema": sch} if sch is not None else {}) for ct, sch in content}
        responses[key] = r
    return {
        "openapi": "3.1.0", "info": {"title": "t", "version": "1"},
        "paths": {"/x": {"get": {"operationId": "getX", "responses": responses}}},
        "components": {"schemas": {
            "Pet": {"type": "object", "properties": {"name": {"type": "string"}}},
            "Err": {"type": "object", "properties": {"msg": {"type": "string"}}}}},
    }


def rs_line(rs):
    """model driver encoding; keys / content sorted bytewise (BTreeMap order)."""
    toks = [str(len(rs))]
    for key, content in sorted(rs, key=lambda kc: kc[0].encode()):
        c = sorted(content, key=lambda x: x[0].encode())
        toks += [key, str(len(c))]
        for ct, sch in c:
            toks += [ct, schema_tok(sch)]
    return " ".join(toks)


def canon_case(c):
    return f"{c['variant']} {c['payload'] if c['payload'] is not None else 'null'}"


def canon_readback(pr):
    parts = []
    for h in pr["handlers"]:
        b = h["body"]
        if b["kind"] == "single":
            body = "S " + canon_case(b["case"])
        else:
            body = "D " + b["default_ct"] + "".join(f" | {c['check']} {canon_case(c['case'])}" for c in b["cases"])
        parts.append(f"H {h['cond']} {body} ;; ")
    return "".join(parts) + "F " + canon_case(pr["fallback"])


# ---------------------------------------------------------------- python-side evaluation (search oracle only)

def cond_eval(cond, code):
    if cond == "true":
        return True
    if cond == "false":
        return False
    if cond.startswith("method:"):
        m = cond[7:]
        lo = {"is_informational": 100, "is_success": 200, "is_redirection": 300, "is_client_error": 400,
              "is_server_error": 500}.get(m)
        return lo is not None and lo <= code < lo + 100
    if cond.startswith("eq:"):
        return HTTP_CONSTS.get(cond[3:]) == code
    if cond.startswith("eq_u16:"):
        n = int(cond[7:])
        return code == (n if 100 <= n <= 999 else 500)
    return False


def check_eval(expr, ct):
    # expr like (CAnd (CStarts "text/") (CNot (CContains "xml")))
    import re
    toks = re.findall(r'\(|\)|"[^"]*"|[A-Za-z]+', expr)
    pos = [0]

    def parse():
        assert toks[pos[0]] == "("
        pos[0] += 1
        op = toks[pos[0]]
        pos[0] += 1
        if op in ("CContains", "CStarts", "CEnds", "CEq"):
            s = toks[pos[0]][1:-1]
            pos[0] += 1
            r = {"CContains": s in ct, "CStarts": ct.startswith(s), "CEnds": ct.endswith(s), "CEq": ct == s}[op]
        elif op == "CNot":
            r = not parse()
        else:
            a = parse()
            b = parse()
            r = (a and b) if op == "CAnd" else (a or b)
        assert toks[pos[0]] == ")"
        pos[0] += 1
        return r
    return parse()


def eval_readback_case(pr, code, ct):
    for h in pr["handlers"]:
        if cond_eval(h["cond"], code):
            b = h["body"]
            if b["kind"] == "single":
                return b["case"]
            s = ct if ct is not None else b["default_ct"]
            for c in b["cases"]:
                if check_eval(c["check"], s):
                    return c["case"]
    return pr["fallback"]


def eval_readback(pr, code, ct):
    return eval_readback_case(pr, code, ct)["variant"]


# independent reading of "decoded as the schema declared for that status and media type":
# which decoder family a declared media type calls for (only the media types the generator of cases uses)
DECODER_OF_CT = {"application/json": "json", "application/problem+json": "json", "application/vnd.api+json": "json",
                 "application/xml": "xml", "text/plain": "text", "text/html": "text", "text/csv": "text",
                 "application/octet-stream": "bytes", "image/png": "bytes", "text/event-stream": "stream", "application/atom+xml": "xml"}


def essence(ct):
    """media type without parameters, lower case"""
    return ct.split(";")[0].strip().lower() if isinstance(ct, str) else ct


def key_is_success(key):
    return key == "2XX" or (key.isdigit() and 200 <= int(key) <= 299)


def decoder_ok(payload, ct, schema, key=None):
    want = DECODER_OF_CT.get(essence(ct))
    if want is None or payload is None or schema is None:
        return True
    fam = payload.split(":")[0]
    if want == "text":
        return fam in ("text", "text_parse") or (fam == "json" and "$ref" in schema)
    if want == "bytes":
        if "$ref" in schema and key is not None:
            # a binary media type whose schema is a structured type: raw bytes for success statuses (a download),
            # the declared schema otherwise (an error document)
            # (which 2xx tokens count as success is the generator's table; the oracle only insists on the non-2xx side)
            return fam in ("bytes", "json") if key_is_success(key) else fam == "json"
        return fam in ("bytes", "json")
    return fam == want


def expected_keys(rs_keys, code):
    """the property's reading: acceptable source keys in priority order"""
    chain = []
    if str(code) in rs_keys:
        chain.append(str(code))
    r = f"{code // 100}XX"
    if r in rs_keys:
        chain.append(r)
    chain.append("default" if "default" in rs_keys else "")
    return chain


def variant_keys(enum_variants):
    """variant name -> source key from the doc line '<key>: description' the generator writes"""
    m = {}
    for v in enum_variants:
        doc = v["doc"][0] if v["doc"] else ""
        key = doc.split(":")[0].strip() if ":" in doc else doc.strip()
        m[v["name"]] = key
    return m


# ---------------------------------------------------------------- case generation

def gen_cases(tier, seed):
    rnd = random.Random(seed)
    cases = []
    # systematic: every pool key alone x every shape ; then all pairs (exact, its range) x shapes sample
    for k in KEY_POOL:
        for sh in CONTENT_SHAPES:
            cases.append([(k, sh)])
    fam = [("200", "2XX"), ("404", "4XX"), ("299", "2XX"), ("503", "5XX"), ("301", "3XX"), ("100", "1XX")]
    for e, r in fam:
        for s1 in CONTENT_SHAPES[:9]:
            for s2 in CONTENT_SHAPES[:9]:
                cases.append([(e, s1), (r, s2)])
                cases.append([(e, s1), (r, s2), ("default", CONTENT_SHAPES[2])])
    n_rand = 400 if tier == "quick" else 6000
    for _ in range(n_rand):
        n = rnd.randint(1, 8)
        keys = rnd.sample(KEY_POOL, n)
        cases.append([(k, rnd.choice(CONTENT_SHAPES)) for k in keys])
    return cases


def run_cases(res, cases, model_exe):
    d = vlib.scratch("C04")
    files = []

    def one(i):
        spec = make_spec(cases[i])
        sp = os.path.join(d, f"s{i}.json")
        json.dump(spec, open(sp, "w"))
        out = os.path.join(d, f"o{i}")
        rc, txt = vlib.oas(["generate", "client-mod", "-i", sp, "-o", out, "-q"])
        return rc, txt, os.path.join(out, "types.rs")
    outs = vlib.pmap(one, range(len(cases)))
    files = [o[2] for o in outs]
    rbs = vlib.vtool_lines("parse-response", files)
    model = None
    if model_exe:
        lines = vlib.run_driver(model_exe, ["gen " + rs_line(c) for c in cases])
        vlines = vlib.run_driver(model_exe, ["vars " + rs_line(c) for c in cases])
        model = list(zip(lines, vlines))
    disagreements, oracle_fail = [], []
    known_hits = set()
    n_eval = 0
    cts = [None, "application/json", "text/plain", "application/xml", "image/png", "text/event-stream",
           "application/problem+json", "application/octet-stream",
           "application/json; charset=utf-8", "application/problem+json; charset=utf-8", "text/plain; charset=UTF-8"]
    for i, (case, (rc, txt, _), rb) in enumerate(zip(cases, outs, rbs)):
        if rc != 0 or "error" in rb or not rb.get("parse_response") or "error" in rb["parse_response"][0]:
            disagreements.append((i, "generator/readback failure", f"rc={rc} {txt[-300:]} {json.dumps(rb)[:300]}"))
            continue
        pr = rb["parse_response"][0]
        enum_name = pr["ret"].replace("anyhow::Result<", "").rstrip(">")
        variants = rb["enums"].get(enum_name, [])
        if model is not None:
            got = canon_readback(pr)
            gotv = " ;; ".join(f"{v['name']} {v['payload'] if v['payload'] is not None else '-'}" for v in variants)
            if got != model[i][0] or gotv != model[i][1]:
                disagreements.append((i, "model/implementation disagree",
                                      f"impl: {got} || {gotv}\nmodel: {model[i][0]} || {model[i][1]}"))
        # property oracle on the implementation's own emitted chain (search for a failing input):
        # walk the *priority chain* (exact, range, default) instead of the emitted order and compare.
        vk = variant_keys(variants)
        keys = {k for k, _ in case}
        by_key = {}
        for h in pr["handlers"]:
            b = h["body"]
            first = b["case"] if b["kind"] == "single" else (b["cases"][0]["case"] if b["cases"] else None)
            if first is not None:
                by_key.setdefault(vk.get(first["variant"], "?"), h)
        bad = None
        for code in range(100, 600):
            chain = expected_keys(keys, code)
            for ct in cts:
                n_eval += 1
                got = eval_readback(pr, code, ct)
                exp = None
                for k in chain[:-1]:
                    h = by_key.get(k)
                    if h is None:
                        exp = f"<no handler for declared key {k}>"
                        break
                    b = h["body"]
                    if b["kind"] == "single":
                        exp = b["case"]["variant"]
                        break
                    s = ct if ct is not None else b["default_ct"]
                    hit = [c for c in b["cases"] if check_eval(c["check"], s)]
                    if hit:
                        exp = hit[0]["case"]["variant"]
                        break
                if exp is None:
                    exp = pr["fallback"]["variant"]
                    fk = vk.get(exp, "?")
                    if chain[-1] == "default" and fk != "default":
                        exp = f"<fallback {exp} is not the default variant>"
                if got != exp:
                    bad = (i, code, ct, got, vk.get(got, "?"), chain + [exp])
                    break
                # independent of the emitted content checks: a response whose media type (parameters aside) is one
                # DECLARED for the first applicable key must come back as a variant of that key
                k0 = chain[0]
                if k0:
                    decl0 = dict(next((c for k, c in case if k == k0), []))
                    if essence(ct) in decl0 and vk.get(got, "?") != k0:
                        if decl0[essence(ct)] is None and any(v is not None for v in decl0.values()):
                            # declared without a schema next to media types that have one: no arm is emitted for it
                            known_hits.add("schemaless-media-type-falls-through")
                            continue
                        bad = (i, code, ct, got, vk.get(got, "?"), [f"a variant of {k0}: {essence(ct)} is declared for it"])
                        break
                # payload decoder: when the response carries one of the media types declared for the chosen key
                gcase = eval_readback_case(pr, code, ct)
                src = vk.get(got, "?")
                decl = dict(next((c for k, c in case if k == src), []))
                ect = essence(ct)
                if ect in decl and not decoder_ok(gcase["payload"], ect, decl[ect], src):
                    if src == "default" and len(decl) > 1:
                        known_hits.add("default-multi-media-no-dispatch")
                        continue
                    bad = (i, code, ct, got, src, [f"payload decoded with {gcase['payload']} although {ct} is declared for {src}"])
                    break
            if bad:
                break
        if bad:
            oracle_fail.append(bad)
    return disagreements, oracle_fail, n_eval, known_hits


def decode_error_part(viol):
    """the decode path of JSON payloads at run time: an undecodable body is an error for the declared variant's caller,
    never a panic, whatever text surrounds the error position (multi-byte characters included)"""
    import arena
    spec = make_spec([("200", [("application/json", REF_PET)]), ("503", [("application/json", REF_ERR)])])
    d = vlib.scratch("C04d")
    sp = os.path.join(d, "spec.json")
    json.dump(spec, open(sp, "w"))
    out = os.path.join(d, "out")
    rc, txt = vlib.oas(["generate", "client-mod", "-i", sp, "-o", out, "-q"])
    if rc != 0:
        viol.append(("decode-errors", f"decode-error probe: generation failed {txt[-200:]}"))
        return 0
    cyr = "\u043f\u0440\u0438\u0432\u0435\u0442 \u043c\u0438\u0440 "
    bodies = [(200, '{"name": "ok"}', True), (200, '{"name": ', False), (200, '{"name": "' + cyr * 3 + '" "x"}', False), (503, '{"message": "' + cyr * 4, False),
              (200, '{"' + cyr + '": tru}', False), (503, cyr, False), (200, '[' + ('"\u65e5\u672c\u8a9e",' * 6) + ']', False), (200, '{"name": "\U0001F680\U0001F680\U0001F680" 1}', False)]
    for pad in range(0, 6):
        bodies.append((200, '{"name": "' + "x" * pad + cyr * 2 + '" ?}', False))
    lits = ", ".join(f"({st}u16, {json.dumps(b, ensure_ascii=False)}, {str(okv).lower()})" for st, b, okv in bodies)
    ar = arena.Arena("c04d")
    ar.add_case(0, out)
    ar.write_main('''fn main() {
    let rt = tokio::runtime::Builder::new_multi_thread().worker_threads(1).enable_all().build().unwrap();
    let cases: Vec<(u16, &str, bool)> = vec![%s];
    for (k, (st, body, _)) in cases.iter().enumerate() {
        let resp = http::Response::builder().status(*st).header("content-type", "application/json").body(body.to_string()).unwrap();
        let resp = reqwest::Response::from(resp);
        let h = rt.spawn(async move { case_0::GetXRequest::parse_response(resp).await.map(|v| format!("{:?}", v).split('(').next().unwrap().to_string()).map_err(|e| format!("{:#}", e).len()) });
        match rt.block_on(h) {
            Ok(Ok(v)) => println!("{}\tOK\t{}", k, v),
            Ok(Err(_)) => println!("{}\tERR", k),
            Err(_) => println!("{}\tPANIC", k),
        }
    }
}
''' % lits)
    ok, diags, err = ar.cargo("build")
    if not ok:
        viol.append(("decode-errors", f"decode-error probe does not build: {(diags[0]['message'] if diags else err)[:300]}"))
        return 0
    rc, so, se = ar.run("", timeout=120)
    got = {int(l.split("\t")[0]): l.split("\t")[1:] for l in so.strip().split("\n") if "\t" in l}
    for k, (st, b, okv) in enumerate(bodies):
        o = got.get(k, ["missing"])
        if (okv and o[0] != "OK") or (not okv and o[0] != "ERR"):
            viol.append(("decode-errors", f"decode-error probe: status {st} body {b[:60]!r}: parse_response {'panicked' if o[0] == 'PANIC' else 'returned ' + ' '.join(o)}, expected {'the declared variant' if okv else 'a decode error'}"))
    return len(bodies)


def main(tier, seed, replay=None):
    res = Result("C04", tier, seed)
    load_http_consts()
    vlib.build_repo()
    rep = vlib.translate()
    for f in ("StatusTable.v", "Content.v"):
        r = rep.get(f, {"ok": False, "error": "missing"})
        res.oblige(f"translator: Gen/{f} regenerated from current source", r.get("ok"), r.get("error", ""))
    coq_ok, out = vlib.standard_coq_obligations(res, TARGETS, THEOREMS, expect_closed=5)
    exe = vlib.ocaml_build("c04") if coq_ok else None
    if coq_ok:
        res.oblige("extracted model driver builds", exe is not None)
    if replay:
        cases = [json.load(open(replay))["case"]]
        cases = [[(k, [tuple(x) for x in c]) for k, c in cases[0]]]
    else:
        cases = gen_cases(tier, seed)
    dis, ofail, n_eval, known_hits = run_cases(res, cases, exe)
    kf = {k["key"]: k["text"] for k in vlib.known_findings("C04")}
    for k in sorted(known_hits):
        if k in kf:
            res.known(k, kf[k])
        else:
            ofail.append((0, 0, None, "?", k, [f"unlisted failing class {k}"]))
    res.counts.update({"correspondence_cases": len(cases), "traces_validated_against_impl": len(cases) if exe else 0,
                       "oracle_evaluations": n_eval, "disagreements": len(dis),
                       "rule": "responses objects: every pool key x 16 content shapes, exact/range/default families, random subsets of a 20-key pool; each through the real CLI, emitted parse_response read back with syn and compared with the extracted Coq model (handler chain + enum variants); plus the property oracle on all 500 statuses x 8 content types evaluated on the emitted chain"})
    for c in cases[:3] + cases[-2:]:
        res.sample({"responses": [[k, [ct for ct, _ in sh]] for k, sh in c]})
    res.oblige(f"correspondence: model = implementation on {len(cases)} generated responses objects", not dis,
               dis[0][2] if dis else "")
    res.cov["trusted_base"] = vlib.COMMON_TRUSTED + [
        "coq/Model/HttpConsts.v: names and values of http::StatusCode constants and class predicates (library contract)",
        "coq/Model/Media.v: mediatype 0.21 parse for parameter-free content types (hand model)",
        "coq/Model/Responses.v: hand model of converter/responses.rs + semantics of the emitted if-chain",
    ]
    res.assumptions = ["response keys within {100..599, 1XX..5XX, default} for the theorem; other keys only through correspondence",
                       "body decoding (serde_json / reqwest) is not modelled: extraction kind only, plus a run-time probe that undecodable JSON bodies (ASCII and multi-byte text around the error position) give an error and never a panic"]
    # ---- the decode path at run time (errors, never panics)
    dviol = []
    n_dec = decode_error_part(dviol)
    res.counts["decode_error_probes"] = n_dec
    for (_, dsc) in dviol[:3]:
        res.violation(dsc, {"part": "decode-errors"})
    # ---- verdict
    for (i, code, ct, v, src, chain) in ofail[:3]:
        res.violation(f"status {code} content-type {ct}: emitted parser returns variant {v} (declared for '{src}'), expected one of {chain}",
                      {"case": cases[i], "status": code, "content_type": ct, "got_variant": v, "expected_keys": chain})
    broken = [o for o in res.obligations if not o[1]]
    if broken and not ofail and not dviol:
        # proof/tie broken and no concrete failing input found
        res.violation("proof obligation or correspondence no longer checks: " + "; ".join(o[0] for o in broken),
                      {"broken": [[o[0], o[2]] for o in broken],
                       "first_disagreement_case": cases[dis[0][0]] if dis else None}, no_input=True)
    return res.finish()
