"""C05 — generated server routes, extracts and responds exactly as the spec says (structural tier)."""
import json, os, random, re, subprocess
import vlib, c04, c09
from vlib import Result, log

THEOREMS = ["C05_route_table", "C05_route_fn", "C05_status_units", "C05_status_unknown", "C05_error_is_500",
            "C05_pattern_wellformed", "C05_media_refuted", "C05_nonvacuous"]
TARGETS = ["Props/C05.v", "Extract/C05.v"]
METHODS = ["get", "put", "post", "delete", "head", "patch", "options", "trace"]
TEMPLATES = ["/pets", "/pets/{petId}", "/pets/{pet-id}/toys/{toyId}", "/a/b/c", "/files/{name}.json", "/x{a}y{b}z", "/",
             "/users/{id}/", "/v1/{kind}/items/{item_id}", "/search"]
RESP_KEYS = ["200", "201", "204", "299", "3XX", "404", "4XX", "500", "5XX", "1XX", "2XX", "default", "418"]


def gen_case(rnd):
    n = rnd.randint(1, 6)
    used, ops = set(), []
    while len(ops) < n:
        t, m = rnd.choice(TEMPLATES), rnd.choice(METHODS)
        if (t, m) in used:
            continue
        used.add((t, m))
        keys = rnd.sample(RESP_KEYS, rnd.randint(1, 4))
        ops.append({"template": t, "method": m, "id": f"op{len(ops)}x", "responses": [(k, rnd.choice(c04.CONTENT_SHAPES[:8])) for k in keys]})
    return ops


def make_spec(ops):
    paths = {}
    for o in ops:
        names = re.findall(r"\{([^}]+)\}", o["template"])
        op = {"operationId": o["id"], "responses": c04.make_spec(o["responses"])["paths"]["/x"]["get"]["responses"],
              "parameters": [{"name": nm, "in": "path", "required": True, "schema": {"type": "string"}} for nm in names] + o.get("op_params", [])}
        paths.setdefault(o["template"], {})[o["method"]] = op
        if o.get("path_params"):
            paths[o["template"]]["parameters"] = o["path_params"]
    sp = c04.make_spec([])
    sp["paths"] = paths
    return sp


def key_class_ok(key, code):
    if key == "default":
        return True
    if re.fullmatch(r"\d{3}", key):
        return int(key) == code
    return key[0].isdigit() and int(key[0]) == code // 100


def main(tier, seed, replay=None):
    res = Result("C05", tier, seed)
    c04.load_http_consts()
    vlib.build_repo()
    rep = vlib.translate()
    for f in ("StatusTable.v", "Methods.v"):
        r = rep.get(f, {"ok": False, "error": "missing"})
        res.oblige(f"translator: Gen/{f} regenerated from current source", r.get("ok"), r.get("error", ""))
    r_ = vlib.translate().get("Params.v", {"ok": False, "error": "missing"})
    res.oblige("translator: Gen/Params.v regenerated from current source", r_.get("ok"), r_.get("error", ""))
    coq_ok, out = vlib.standard_coq_obligations(res, TARGETS, THEOREMS, expect_closed=4)
    exe = vlib.ocaml_build("c05") if coq_ok else None
    if coq_ok:
        res.oblige("extracted model driver builds", exe is not None)
    probe, err = c09.build_probe()
    rnd = random.Random(seed)
    cases = [gen_case(rnd) for _ in range(150 if tier == "quick" else 1500)]
    # deterministic: every status the generator has a name for, as a response key (three operations)
    import re as _re
    allcodes = _re.findall(r'\("(\d{3}|\dxx)", ', open(os.path.join(vlib.COQ, "Gen", "StatusTable.v")).read())
    allkeys = [c.upper() for c in allcodes] + ["418", "599", "default"]
    third = (len(allkeys) + 2) // 3
    cases.append([{"template": f"/all{k}", "method": "get", "id": f"all{k}x", "responses": [(key, c04.CONTENT_SHAPES[1]) for key in allkeys[k * third:(k + 1) * third]]} for k in range(3)])
    # deterministic: path-level and operation-level parameters, same name in different locations
    cases.append([{"template": "/r/{id}", "method": "get", "id": "paramsx", "responses": [("200", [])],
                   "path_params": [{"name": "version", "in": "query", "schema": {"type": "string"}}, {"name": "shared", "in": "header", "schema": {"type": "string"}},
                                   {"name": "limit", "in": "query", "schema": {"type": "integer"}}],
                   "op_params": [{"name": "version", "in": "header", "schema": {"type": "string"}}, {"name": "shared", "in": "query", "schema": {"type": "integer"}},
                                 {"name": "limit", "in": "query", "schema": {"type": "string"}}, {"name": "X-Only", "in": "header", "schema": {"type": "boolean"}}]}])
    # deterministic: query names that differ from their Rust member names; a string payload declared as JSON
    cases.append([{"template": "/find", "method": "get", "id": "namesx", "responses": [("200", [("application/json", {"type": "string"})]), ("404", [("application/json", c04.REF_ERR)])],
                   "op_params": [{"name": "pageSize", "in": "query", "schema": {"type": "integer"}}, {"name": "sort-by", "in": "query", "required": True, "schema": {"type": "string"}},
                                 {"name": "filter[status]", "in": "query", "schema": {"type": "string"}}, {"name": "q", "in": "query", "schema": {"type": "string"}},
                                 {"name": "type", "in": "query", "schema": {"type": "string"}}]}])
    # deterministic: array query parameters in every style, with and without an explicit `explode`
    A = {"type": "array", "items": {"type": "string"}}
    cases.append([{"template": "/search", "method": "get", "id": "stylesx", "responses": [("200", [])],
                   "op_params": [{"name": "f_def", "in": "query", "schema": A}, {"name": "f_ex", "in": "query", "schema": A, "explode": True},
                                 {"name": "f_noex", "in": "query", "schema": A, "explode": False},
                                 {"name": "sp_def", "in": "query", "schema": A, "style": "spaceDelimited"}, {"name": "sp_noex", "in": "query", "schema": A, "style": "spaceDelimited", "explode": False},
                                 {"name": "pi_def", "in": "query", "schema": A, "style": "pipeDelimited"}, {"name": "pi_noex", "in": "query", "schema": A, "style": "pipeDelimited", "explode": False},
                                 {"name": "n_noex", "in": "query", "schema": {"type": "array", "items": {"type": "integer"}}, "explode": False},
                                 {"name": "n_pipe", "in": "query", "schema": {"type": "array", "items": {"type": "integer", "format": "int32"}}, "style": "pipeDelimited"}]}])
    if replay:
        cases = [json.load(open(replay))["ops"]]
    d = vlib.scratch("C05")

    def one(i):
        sp = os.path.join(d, f"s{i}.json")
        json.dump(make_spec(cases[i]), open(sp, "w"))
        outd = os.path.join(d, f"o{i}")
        rc, txt = vlib.oas(["generate", "server-mod", "-i", sp, "-o", outd, "-q"])
        return rc, txt, outd
    outs = vlib.pmap(one, range(len(cases)))
    rbs = vlib.vtool_lines("server", [o[2] for o in outs])
    tdumps = vlib.vtool_lines("dump", [os.path.join(o[2], "types.rs") for o in outs])
    pnames = sorted({prm["name"] for ops in cases for o in ops for prm in o.get("path_params", []) + o.get("op_params", [])})
    field_names = {}
    if pnames:
        prn = subprocess.run([probe], input="\n".join(c09.hx(n.encode()) for n in pnames) + "\n", stdout=subprocess.PIPE, text=True)
        field_names = {n: c09.unhx(l.split(" ")[0]).decode() for n, l in zip(pnames, prn.stdout.split("\n"))}
    # field names of path parameters through the real sanitiser
    allnames = sorted({nm for ops in cases for o in ops for nm in re.findall(r"\{([^}]+)\}", o["template"])})
    pr = subprocess.run([probe], input="\n".join(c09.hx(n.encode()) for n in allnames) + "\n", stdout=subprocess.PIPE, text=True)
    field_of = {n: c09.unhx(l.split(" ")[0]).decode() for n, l in zip(allnames, pr.stdout.split("\n"))}
    dis, viol, known_hits = [], [], set()
    model_routes = None
    if exe:
        q = []
        for ops in cases:
            toks = ["routes", str(len(ops))]
            nops = 0
            ORDER = ["get", "put", "post", "delete", "options", "head", "patch", "trace"]   # oas3 PathItem::methods()
            for o in sorted(ops, key=lambda o: (o["template"].encode(), ORDER.index(o["method"]))):
                names = re.findall(r"\{([^}]+)\}", o["template"])
                # model of oas3's operations(): PathItem::methods() lists TRACE twice (known finding)
                for suffix in (["", "_2"] if o["method"] == "trace" else [""]):
                    toks += [o["method"].upper(), o["template"], "H" + o["id"] + suffix, str(len(names))]
                    for nm in names:
                        toks += [nm, field_of[nm]]
                    nops += 1
            toks[1] = str(nops)
            q.append(" ".join(toks))
        model_routes = vlib.run_driver(exe, q)
        keys = sorted({k for ops in cases for o in ops for k, _ in o["responses"]})
        model_status = dict(zip(keys, vlib.run_driver(exe, ["status " + k for k in keys])))
    n_eval = 0
    for i, (ops, (rc, txt, _), rb) in enumerate(zip(cases, outs, rbs)):
        if rc != 0 or "error" in rb or "router_error" in rb:
            has_ot = any(o["method"] in ("options", "trace") for o in ops)
            viol.append((ops, f"server-mod generation failed rc={rc}: {txt[-300:]} {rb.get('error', rb.get('router_error',''))}"))
            continue
        handler_by_op = {}
        for tm in rb["trait_methods"]:
            m = re.search(r"Path: `(\w+) ([^`]+)`", " ".join(tm["doc"]))
            if m:
                handler_by_op.setdefault((m.group(1).lower(), m.group(2)), tm["name"])
        # model vs implementation: route table
        impl_routes = " ; ".join(r["path"] + "|" + ",".join(f"{f}:{h}" for f, h in r["handlers"]) for r in rb["routes"])
        if model_routes is not None:
            mr = model_routes[i]
            for o in ops:
                mr = mr.replace("H" + o["id"], handler_by_op.get((o["method"], o["template"]), "?"))   # op.._2 keeps its suffix
            if mr != impl_routes:
                dis.append(f"routes: ops {[(o['method'], o['template']) for o in ops]} impl [{impl_routes}] model [{mr}]")
        # oracle on the implementation: one route per operation, none else
        flat = [(r["path"], f, h) for r in rb["routes"] for f, h in r["handlers"]]
        for o in ops:
            n_eval += 1
            h = handler_by_op.get((o["method"], o["template"]))
            pat = "/" + "/".join(re.sub(r"\{([^}]+)\}", lambda m: "{" + field_of[m.group(1)] + "}", s) for s in o["template"].split("/") if s)
            hits = [x for x in flat if x[2] == h and x[0] == pat and x[1] == o["method"]]
            if o["method"] == "trace":
                continue      # registered twice (known finding trace-listed-twice): the doc line maps to the second entry
            if h is None or len(hits) != 1 or sum(1 for x in flat if x[2] == h) != 1:
                viol.append((ops, f"operation {o['method'].upper()} {o['template']}: router entries {[x for x in flat if x[2]==h]}, expected exactly one ({pat}, {o['method']})"))
            hd = rb["handlers"].get(h or "", {})
            if h and not hd.get("err_500"):
                viol.append((ops, f"handler {h}: a service error is not mapped to 500"))
        # parameters: path-item level merged with operation level, operation wins on (in, name); every effective
        # query/header parameter must be a member of the request's query/header struct, with a matching extractor
        for o in ops:
            eff = {}
            for prm in o.get("path_params", []) + o.get("op_params", []):
                eff[(prm["in"], prm["name"])] = prm
            if not eff:
                continue
            h = handler_by_op.get((o["method"], o["template"]))
            ext = " ".join(rb["handlers"].get(h or "", {}).get("extractors", []))
            tdump = tdumps[i]
            for (loc, nm), prm in eff.items():
                sname = {"query": "Query", "header": "Header"}.get(loc)
                if sname is None:
                    continue
                structs = [x for x in tdump.get("items", []) if x["kind"] == "struct" and x["name"].endswith("Request" + sname)]
                fieldnames = [f["name"] for st in structs for f in st["fields"]]
                want = field_names[nm]
                n_eval += 1
                if want not in fieldnames:
                    viol.append((ops, f"{o['method'].upper()} {o['template']}: declared {loc} parameter {nm!r} is not a member of the request's {sname.lower()} struct (members {fieldnames})"))
                if want in fieldnames and loc == "query":
                    # the wire name: the member must (de)serialise under the parameter's exact name
                    fld0 = next(f for st in structs for f in st["fields"] if f["name"] == want)
                    attrs0 = " ".join(str(a.get("attr")) for a in fld0["attrs"])
                    mren = re.search(r'rename\s*=\s*"((?:[^"\\]|\\.)*)"', attrs0)
                    wire = mren.group(1) if mren else want.replace("r#", "")
                    if wire != nm:
                        viol.append((ops, f"{o['method'].upper()} {o['template']}: query parameter {nm!r} is read from the key {wire!r} (member {want}, attributes {attrs0 or 'none'}): `?{nm}=v` does not reach the handler"))
                if want not in fieldnames:
                    pass
                elif loc == "query" and prm["schema"].get("type") == "array":
                    # a non-exploded array arrives as ONE delimited value: the member needs the style's separator adapter;
                    # explode defaults to true only for style form (OpenAPI 3.1 §4.8.12.2)
                    style = prm.get("style", "form")
                    exploded = prm.get("explode", style == "form")
                    fld = next(f for st in structs for f in st["fields"] if f["name"] == want)
                    attrs = " ".join(str(a.get("attr")) for a in fld["attrs"])
                    sep = {"form": "Comma", "spaceDelimited": "Space", "pipeDelimited": "Pipe"}[style]
                    has = f"StringWith{sep}Separator" in attrs or ("StringWithSeparator<" in attrs.replace(" ", "") and f"{sep}Separator" in attrs)
                    if exploded == has or (not exploded and not has):
                        viol.append((ops, f"{o['method'].upper()} {o['template']}: array query parameter {nm!r} (style {style}, explode {exploded}) is extracted {'with' if has else 'without'} the {sep.lower()} separator adapter ({attrs or 'no attributes'}): a request `?{nm}=a{ {'Comma': ',', 'Space': '%20', 'Pipe': '|'}[sep] }b` does not reach the handler as [a, b]"))
                if (loc == "query" and "Query(query)" not in ext) or (loc == "header" and "HeaderMap" not in ext):
                    viol.append((ops, f"{o['method'].upper()} {o['template']}: no {loc} extractor in the handler although {nm!r} is declared ({ext})"))
        if len(flat) != len(ops):
            if any(o["method"] == "trace" for o in ops) and len(flat) == len(ops) + sum(1 for o in ops if o["method"] == "trace"):
                known_hits.add("trace-listed-twice")
            else:
                viol.append((ops, f"router has {len(flat)} entries for {len(ops)} operations"))
        # statuses and encoders of response variants
        for en, arms in rb["into_response"].items():
            vdocs = {v["name"]: (v["doc"][0].split(":")[0].strip() if v["doc"] else "") for v in rb["enums"].get(en, [])}
            for arm in arms:
                n_eval += 1
                key = vdocs.get(arm["variant"], "")
                st = arm["status"]
                m = re.fullmatch(r"http::StatusCode::([A-Z_]+)", st)
                m2 = re.fullmatch(r"http::StatusCode::from_u16\((\d+)u16\)\.unwrap_or\(http::StatusCode::INTERNAL_SERVER_ERROR\)", st)
                code = c04.HTTP_CONSTS.get(m.group(1)) if m else (int(m2.group(1)) if m2 and 100 <= int(m2.group(1)) <= 999 else (500 if m2 else None))
                if code is None or (key and not key_class_ok(key, code)):
                    viol.append((ops, f"variant {arm['variant']} declared for {key!r} is sent with status {st}"))
                if exe and key in model_status and str(code) != model_status[key]:
                    dis.append(f"status: key {key} impl {code} model {model_status[key]}")
                if arm["encoder"] and arm["encoder"] != "axum::Json":
                    dis.append(f"encoder {arm['encoder']}")
                    jsonish = [ct for o in ops for k, shape in o["responses"] if k == key for ct, sc in shape if ct.endswith("json") and sc is not None]
                    if jsonish:
                        viol.append((ops, f"variant {arm['variant']} (key {key}) declares {jsonish[0]} but its payload is sent with the encoder `{arm['encoder']}` instead of JSON"))
            # media type (F20): a variant whose declared content is not JSON-like but is sent as axum::Json
        for o in ops:
            for k, shape in o["responses"]:
                if any(ct.startswith("text/") or ct == "application/octet-stream" for ct, _ in shape):
                    known_hits.add("payload-always-json")
    res.counts.update({"evaluations": n_eval, "distinct_nontrivial": len(cases), "specs": len(cases),
                       "traces_validated_against_impl": len(cases) if exe else 0,
                       "rule": "server-mod specs with 1-6 operations over 10 path templates (plain, multi-parameter, mixed literal/parameter segments, names needing sanitising) x 8 methods x response sets; router(), handler functions and IntoResponse arms read back with syn and compared with the extracted model (route table, sent status per key); oracle: exactly one (pattern, method) route per operation, status covered by the declared key, errors -> 500"})
    for ops in cases[:3]:
        res.sample({"ops": [(o["method"], o["template"], [k for k, _ in o["responses"]]) for o in ops]})
    res.oblige(f"correspondence: model = implementation on {len(cases)} server-mod outputs", not dis, dis[0] if dis else "")
    res.cov["trusted_base"] = vlib.COMMON_TRUSTED + [
        "coq/Model/Server.v, Model/Path.v: hand model of RouterFragment / ParsedPath; HttpMethodFragment, HttpStatusCode and the IntoResponse shape are translated",
        "axum/matchit routing semantics (exact method, {name} matches one segment, 404/405) are a library contract, not exercised in this tier"]
    res.assumptions = ["structural tier only: the compiled router is not run in this round (no tower oneshot); request extraction (Path/Query/HeaderMap/body) is read back as extractor lists but not executed"]
    kf = {k["key"]: k["text"] for k in vlib.known_findings("C05")}
    for k in sorted(known_hits):
        if k in kf:
            res.known(k, kf[k])
    for (ops, dsc) in viol[:3]:
        res.violation(dsc, {"ops": ops})
    broken = [o for o in res.obligations if not o[1]]
    if broken and not viol:
        res.violation("proof obligation or correspondence no longer checks: " + "; ".join(o[0] for o in broken),
                      {"broken": [[o[0], o[2]] for o in broken]}, no_input=True)
    return res.finish()
