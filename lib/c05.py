"""C05 — generated server routes, extracts and responds exactly as the spec says (structural read-back + the compiled router run on loopback)."""
import binascii, json, os, random, re, subprocess
import vlib, c04, c09, arena
from vlib import Result, log

THEOREMS = ["C05_route_table", "C05_route_fn", "C05_status_units", "C05_status_unknown", "C05_error_is_500",
            "C05_pattern_wellformed", "C05_media_by_category", "C05_nonvacuous"]
TARGETS = ["Props/C05.v", "Extract/C05.v"]
METHODS = ["get", "put", "post", "delete", "head", "patch", "options", "trace"]
TEMPLATES = ["/pets", "/pets/{petId}", "/pets/{pet-id}/toys/{toyId}", "/a/b/c", "/files/{name}.json", "/x{a}y{b}z", "/",
             "/users/{id}/", "/v1/{kind}/items/{item_id}", "/search"]
RESP_KEYS = ["200", "201", "204", "299", "3XX", "404", "4XX", "500", "5XX", "1XX", "2XX", "default", "418"]


def gen_case(rnd):
    n = rnd.randint(1, 6)
    used, ops = set(), []
    while len(ops) < n:
        t, m = rnd.choice(TEMPLATES), rnd.choice(METHODS)
        if (t, m) in used:
            continue
        used.add((t, m))
        keys = rnd.sample(RESP_KEYS, rnd.randint(1, 4))
        ops.append({"template": t, "method": m, "id": f"op{len(ops)}x", "responses": [(k, rnd.choice(c04.CONTENT_SHAPES[:8])) for k in keys]})
    return ops


def make_spec(ops):
    paths = {}
    for o in ops:
        names = re.findall(r"\{([^}]+)\}", o["template"])
        op = {"operationId": o["id"], "responses": c04.make_spec(o["responses"])["paths"]["/x"]["get"]["responses"],
              "parameters": [{"name": nm, "in": "path", "required": True, "schema": {"type": "string"}} for nm in names] + o.get("op_params", [])}
        paths.setdefault(o["template"], {})[o["method"]] = op
        if o.get("path_params"):
            paths[o["template"]]["parameters"] = o["path_params"]
    sp = c04.make_spec([])
    sp["paths"] = paths
    return sp


def key_class_ok(key, code):
    if key == "default":
        return True
    if re.fullmatch(r"\d{3}", key):
        return int(key) == code
    return key[0].isdigit() and int(key[0]) == code // 100


# ======================================================================================================
# dynamic leg: the generated axum router runs on the loopback interface and is driven with raw HTTP requests
# ======================================================================================================
def dyn_spec():
    R = lambda t: {"$ref": f"#/components/schemas/{t}"}
    J = lambda s: {"application/json": {"schema": s}}
    P = lambda n, w, s, req=False, **kw: dict({"name": n, "in": w, "required": req, "schema": s}, **kw)
    S, I = {"type": "string"}, {"type": "integer"}
    want = P("X-Want", "header", S)
    return {"openapi": "3.1.0", "info": {"title": "srv", "version": "1"}, "paths": {
        "/items/{id}": {
            "get": {"operationId": "get_item", "parameters": [P("id", "path", S, True), P("q", "query", S), P("n", "query", I), P("tags", "query", {"type": "array", "items": S}, explode=False), P("X-T", "header", S), want],
                    "responses": {"200": {"description": "ok", "content": J(R("Echo"))}, "404": {"description": "nf"}, "default": {"description": "err", "content": J(R("Problem"))}}},
            "put": {"operationId": "put_item", "parameters": [P("id", "path", S, True), want], "requestBody": {"required": True, "content": J(R("Item"))},
                    "responses": {"200": {"description": "ok", "content": J(R("Echo"))}, "204": {"description": "nc"}, "422": {"description": "bad", "content": J(R("Problem"))}}},
            "delete": {"operationId": "delete_item", "parameters": [P("id", "path", S, True)], "responses": {"204": {"description": "gone"}}}},
        "/items": {"post": {"operationId": "create_item", "parameters": [want], "requestBody": {"required": True, "content": J(R("Item"))},
                            "responses": {"201": {"description": "made", "content": J(R("Echo"))}, "409": {"description": "dup", "content": J(R("Problem"))}}},
                   "get": {"operationId": "list_items", "parameters": [P("limit", "query", I), P("X-Ids", "header", {"type": "array", "items": I}), P("X-Names", "header", {"type": "array", "items": S})], "responses": {"200": {"description": "ok", "content": J({"type": "array", "items": R("Echo")})}}}},
        "/a/{x}/b/{y}": {"get": {"operationId": "get_ab", "parameters": [P("x", "path", S, True), P("y", "path", I, True)], "responses": {"200": {"description": "ok", "content": J(R("Echo"))}}}},
        "/kind/{kind}": {"get": {"operationId": "get_kind", "parameters": [P("kind", "path", {"type": "string", "enum": ["alpha", "beta"]}, True)],
                                 "responses": {"200": {"description": "ok", "content": J(R("Echo"))}, "400": {"description": "bad"}}}},
        "/text": {"get": {"operationId": "get_text", "parameters": [want], "responses": {"200": {"description": "ok", "content": {"text/plain": {"schema": S}}},
                                                                                       "202": {"description": "acc", "content": {"application/octet-stream": {"schema": {"type": "string", "format": "binary"}}}}}}},
        # the same payload type (String) under two media types, in two operations with equal status sets
        "/note/title": {"get": {"operationId": "get_title", "responses": {"200": {"description": "ok", "content": J(S)}, "404": {"description": "nf"}}}},
        "/note/text": {"get": {"operationId": "get_body_text", "responses": {"200": {"description": "ok", "content": {"text/plain": {"schema": S}}}, "404": {"description": "nf"}}}},
        # enum-typed header values written with capitals
        "/export": {"get": {"operationId": "get_export", "parameters": [P("X-Format", "header", {"type": "string", "enum": ["JSON", "Parquet", "csv"]}),
                                                                        P("X-Parts", "header", {"type": "array", "items": {"type": "string", "enum": ["Totals", "rows", "HEAD"]}})],
                            "responses": {"200": {"description": "ok", "content": J(R("Echo"))}, "406": {"description": "no"}}}},
        "/form": {"post": {"operationId": "post_form", "requestBody": {"required": True, "content": {"application/x-www-form-urlencoded": {"schema": {"type": "object", "properties": {"a": S, "b": I}}}}},
                           "responses": {"200": {"description": "ok", "content": J(R("Echo"))}, "413": {"description": "big"}}}},
        "/opt": {"post": {"operationId": "post_opt", "requestBody": {"content": J(R("Item"))}, "responses": {"200": {"description": "ok", "content": J(R("Echo"))}, "410": {"description": "gone"}}}},
    }, "components": {"schemas": {"Item": {"type": "object", "required": ["name"], "properties": {"name": S, "qty": I}},
                                  "Echo": {"type": "object", "properties": {"seen": S}}, "Problem": {"type": "object", "properties": {"detail": S}}}}}


DYN_MAIN_HEAD = r'''
use case_0 as S;
use std::sync::{Arc, Mutex};
#[derive(Clone)]
struct Svc { calls: Arc<Mutex<Vec<String>>> }
impl Svc { fn note(&self, n: &str) { self.calls.lock().unwrap().push(n.to_string()); } }
fn echo(s: String) -> S::Echo { S::Echo { seen: Some(s) } }
impl S::ApiServer for Svc {
    async fn get_item(&self, r: S::GetItemRequest) -> anyhow::Result<S::GetItemResponse> {
        self.note("get_item");
        match r.header.x_want.as_deref() {
            Some("nf") => Ok(S::GetItemResponse::NotFound),
            Some("err") => Err(anyhow::anyhow!("boom")),
            _ => Ok(S::GetItemResponse::Ok(echo(format!("id={:?} q={:?} n={:?} tags={:?} xt={:?}", r.path.id, r.query.q, r.query.n, r.query.tags, r.header.x_t)))),
        }
    }
    async fn put_item(&self, r: S::PutItemRequest) -> anyhow::Result<S::PutItemResponse> {
        self.note("put_item");
        match r.header.x_want.as_deref() {
            Some("nc") => Ok(S::PutItemResponse::NoContent),
            Some("bad") => Ok(S::PutItemResponse::UnprocessableEntity(S::Problem { detail: Some("bad".to_string()) })),
            Some("err") => Err(anyhow::anyhow!("boom")),
            _ => Ok(S::PutItemResponse::Ok(echo(format!("id={:?} name={:?} qty={:?}", r.path.id, r.body.name, r.body.qty)))),
        }
    }
    async fn delete_item(&self, r: S::DeleteItemRequest) -> anyhow::Result<S::DeleteItemResponse> {
        self.note(&format!("delete_item({})", r.path.id));
        Ok(S::DeleteItemResponse::NoContent)
    }
    async fn create_item(&self, r: S::CreateItemRequest) -> anyhow::Result<S::CreateItemResponse> {
        self.note("create_item");
        match r.header.x_want.as_deref() {
            Some("dup") => Ok(S::CreateItemResponse::Conflict(S::Problem { detail: Some("dup".to_string()) })),
            _ => Ok(S::CreateItemResponse::Created(echo(format!("name={:?} qty={:?}", r.body.name, r.body.qty)))),
        }
    }
    async fn list_items(&self, r: S::ListItemsRequest) -> anyhow::Result<S::ListItemsResponse> {
        self.note("list_items");
        Ok(S::ListItemsResponse::Ok(vec![echo(format!("limit={:?}", r.query.limit)), echo(format!("ids={:?} names={:?}", r.header.x_ids, r.header.x_names))]))
    }
    async fn get_ab(&self, r: S::GetAbRequest) -> anyhow::Result<S::GetAbResponse> {
        self.note("get_ab");
        Ok(S::GetAbResponse::Ok(echo(format!("x={:?} y={:?}", r.path.x, r.path.y))))
    }
    async fn get_kind(&self, r: S::GetKindRequest) -> anyhow::Result<S::GetKindResponse> {
        self.note("get_kind");
        Ok(S::GetKindResponse::Ok(echo(format!("kind={}", r.path.kind))))
    }
    async fn get_text(&self, r: S::GetTextRequest) -> anyhow::Result<S::GetTextResponse> {
        self.note("get_text");
        match r.header.x_want.as_deref() {
            Some("bin") => Ok(S::GetTextResponse::Accepted(vec![1u8, 2, 255])),
            _ => Ok(S::GetTextResponse::Ok("plain \u{fc}".to_string())),
        }
    }
    async fn get_title(&self, _r: S::GetTitleRequest) -> anyhow::Result<S::GetTitleResponse> {
        self.note("get_title");
        Ok(S::GetTitleResponse::Ok("Groceries \"weekly\"".to_string()))
    }
    async fn get_body_text(&self, _r: S::GetBodyTextRequest) -> anyhow::Result<S::GetBodyTextResponse> {
        self.note("get_body_text");
        Ok(S::GetBodyTextResponse::Ok("Groceries \"weekly\"".to_string()))
    }
    async fn get_export(&self, r: S::GetExportRequest) -> anyhow::Result<S::GetExportResponse> {
        self.note("get_export");
        Ok(S::GetExportResponse::Ok(echo(format!("format={} parts={}", r.header.x_format.map(|f| f.to_string()).unwrap_or("-".to_string()),
            r.header.x_parts.map(|p| p.iter().map(|x| x.to_string()).collect::<Vec<_>>().join("+")).unwrap_or("-".to_string())))))
    }
    async fn post_form(&self, r: S::PostFormRequest) -> anyhow::Result<S::PostFormResponse> {
        self.note("post_form");
        Ok(S::PostFormResponse::Ok(echo(format!("a={:?} b={:?}", r.body.a, r.body.b))))
    }
    async fn post_opt(&self, r: S::PostOptRequest) -> anyhow::Result<S::PostOptResponse> {
        self.note("post_opt");
        Ok(S::PostOptResponse::Ok(echo(format!("body={:?}", r.body.map(|b| (b.name, b.qty))))))
    }
}
fn hex(b: &[u8]) -> String { let mut s = String::new(); for x in b { s.push_str(&format!("{:02x}", x)); } if s.is_empty() { "-".to_string() } else { s } }
fn main() {
    let rt = tokio::runtime::Builder::new_multi_thread().worker_threads(2).enable_all().build().unwrap();
    rt.block_on(async {
        let listener = tokio::net::TcpListener::bind("127.0.0.1:0").await.unwrap();
        let port = listener.local_addr().unwrap().port();
        let calls = Arc::new(Mutex::new(Vec::new()));
        let svc = Svc { calls: calls.clone() };
        tokio::spawn(async move { axum::serve(listener, S::router(svc)).await.unwrap(); });
        let client = reqwest::Client::builder().redirect(reqwest::redirect::Policy::none()).build().unwrap();
        let probes: Vec<(usize, &str, &str, Vec<(&str, &str)>, Option<(&str, Vec<u8>)>)> = vec![
'''

DYN_MAIN_TAIL = r'''
        ];
        for (k, method, target, headers, body) in probes {
            let mut rb = client.request(reqwest::Method::from_bytes(method.as_bytes()).unwrap(), format!("http://127.0.0.1:{}{}", port, target));
            for (h, v) in headers { rb = rb.header(h, v); }
            if let Some((ct, bytes)) = body { if !ct.is_empty() { rb = rb.header("content-type", ct); } rb = rb.body(bytes); }
            match rb.send().await {
                Ok(resp) => {
                    let st = resp.status().as_u16();
                    let ct = resp.headers().get("content-type").and_then(|v| v.to_str().ok()).unwrap_or("-").to_string();
                    let b = resp.bytes().await.map(|b| b.to_vec()).unwrap_or_default();
                    let cs: Vec<String> = calls.lock().unwrap().drain(..).collect();
                    println!("{}\t{}\t{}\t{}\t{}", k, st, ct, hex(&b), if cs.is_empty() { "-".to_string() } else { cs.join(",") });
                }
                Err(e) => println!("{}\tERR\t{}", k, format!("{:#}", e).replace('\n', " ")),
            }
        }
    });
}
'''


def dyn_probes():
    """(method, target, headers, body (content type, bytes) | None, expectation)
    expectation: dict(status | statuses, calls, json | text | bytes | empty, ctype prefix)"""
    js = lambda o: ("application/json", json.dumps(o).encode())
    E = lambda seen: {"seen": seen}
    return [
        ("GET", "/items/abc", [], None, dict(status=200, calls=["get_item"], json=E('id="abc" q=None n=None tags=None xt=None'))),
        ("GET", "/items/a%2Fb%20c?q=x%20y&n=-5&tags=a,b", [("X-T", "t1")], None, dict(status=200, calls=["get_item"], json=E('id="a/b c" q=Some("x y") n=Some(-5) tags=Some(["a", "b"]) xt=Some("t1")'))),
        ("GET", "/items/%C3%BC?q=", [], None, dict(status=200, calls=["get_item"], json=E('id="ü" q=Some("") n=None tags=None xt=None'))),
        ("GET", "/items/abc", [("X-Want", "nf")], None, dict(status=404, calls=["get_item"], empty=True)),
        ("GET", "/items/abc", [("X-Want", "err")], None, dict(status=500, calls=["get_item"])),
        ("PUT", "/items/k1", [], js({"name": "n", "qty": 3}), dict(status=200, calls=["put_item"], json=E('id="k1" name="n" qty=Some(3)'))),
        ("PUT", "/items/k1", [("X-Want", "nc")], js({"name": "n"}), dict(status=204, calls=["put_item"], empty=True)),
        ("PUT", "/items/k1", [("X-Want", "bad")], js({"name": "n"}), dict(status=422, calls=["put_item"], json={"detail": "bad"})),
        ("PUT", "/items/k1", [("X-Want", "err")], js({"name": "n"}), dict(status=500, calls=["put_item"])),
        ("PUT", "/items/k1", [], ("application/json", b'{"name": '), dict(statuses=range(400, 500), calls=[])),
        ("PUT", "/items/k1", [], js({"qty": 3}), dict(statuses=range(400, 500), calls=[])),
        ("DELETE", "/items/zz%20top", [], None, dict(status=204, calls=["delete_item(zz top)"], empty=True)),
        ("POST", "/items", [], js({"name": "a ü", "qty": -1}), dict(status=201, calls=["create_item"], json=E('name="a ü" qty=Some(-1)'))),
        ("POST", "/items", [("X-Want", "dup")], js({"name": "a"}), dict(status=409, calls=["create_item"], json={"detail": "dup"})),
        ("GET", "/items?limit=7", [], None, dict(status=200, calls=["list_items"], json=[E("limit=Some(7)"), E("ids=None names=None")])),
        ("GET", "/items", [("X-Ids", "1,22,333"), ("X-Names", "a,b c")], None, dict(status=200, calls=["list_items"], json=[E("limit=None"), E('ids=Some([1, 22, 333]) names=Some(["a", "b c"])')])),
        # a list header may be written with optional white space after the commas (RFC 9110 5.6.1)
        ("GET", "/items", [("X-Ids", "1, 22, 333"), ("X-Names", "a, b")], None, dict(status=200, calls=["list_items"], json=[E("limit=None"), E('ids=Some([1, 22, 333]) names=Some(["a", "b"])')])),
        ("GET", "/items?limit=seven", [], None, dict(statuses=range(400, 500), calls=[])),
        ("GET", "/a/p%2Fq/b/42", [], None, dict(status=200, calls=["get_ab"], json=E('x="p/q" y=42'))),
        ("GET", "/a/p/b/-9223372036854775808", [], None, dict(status=200, calls=["get_ab"], json=E('x="p" y=-9223372036854775808'))),
        ("GET", "/a/p/b/notint", [], None, dict(statuses=range(400, 500), calls=[])),
        ("GET", "/kind/beta", [], None, dict(status=200, calls=["get_kind"], json=E("kind=beta"))),
        ("GET", "/kind/gamma", [], None, dict(statuses=range(400, 500), calls=[])),
        ("GET", "/text", [], None, dict(status=200, calls=["get_text"], text="plain ü", ctype="text/plain")),
        ("GET", "/text", [("X-Want", "bin")], None, dict(status=202, calls=["get_text"], bytes=bytes([1, 2, 255]), ctype="application/octet-stream")),
        ("POST", "/form", [], ("application/x-www-form-urlencoded", b"a=x+y%26z&b=7"), dict(status=200, calls=["post_form"], json=E('a=Some("x y&z") b=Some(7)'))),
        ("POST", "/form", [], ("application/x-www-form-urlencoded", b""), dict(status=200, calls=["post_form"], json=E("a=None b=None"))),
        ("POST", "/opt", [], js({"name": "z"}), dict(status=200, calls=["post_opt"], json=E('body=Some(("z", None))'))),
        ("POST", "/opt", [], None, dict(status=200, calls=["post_opt"], json=E("body=None"))),
        ("GET", "/note/title", [], None, dict(status=200, calls=["get_title"], json='Groceries "weekly"')),
        ("GET", "/note/text", [], None, dict(status=200, calls=["get_body_text"], text='Groceries "weekly"', ctype="text/plain")),
        ("GET", "/export", [("X-Format", "JSON"), ("X-Parts", "Totals,rows,HEAD")], None, dict(status=200, calls=["get_export"], json=E("format=JSON parts=Totals+rows+HEAD"))),
        ("GET", "/export", [("X-Format", "Parquet")], None, dict(status=200, calls=["get_export"], json=E("format=Parquet parts=-"))),
        ("GET", "/export", [("X-Format", "csv"), ("X-Parts", "rows")], None, dict(status=200, calls=["get_export"], json=E("format=csv parts=rows"))),
        # undeclared paths and methods: no handler, 404 / 405
        ("GET", "/nope", [], None, dict(status=404, calls=[])),
        ("GET", "/items/abc/extra", [], None, dict(status=404, calls=[])),
        ("GET", "/items/", [], None, dict(status=404, calls=[])),
        ("GET", "/a/p/b", [], None, dict(status=404, calls=[])),
        ("GET", "/ITEMS", [], None, dict(status=404, calls=[])),
        ("POST", "/items/abc", [], js({"name": "n"}), dict(status=405, calls=[])),
        ("PATCH", "/items", [], js({"name": "n"}), dict(status=405, calls=[])),
        ("GET", "/form", [], None, dict(status=405, calls=[])),
        ("DELETE", "/text", [], None, dict(status=405, calls=[])),
        ("PUT", "/opt", [], js({"name": "n"}), dict(status=405, calls=[])),
    ]


def dynamic_leg(viol, known_hits):
    spec = dyn_spec()
    d = vlib.scratch("C05d")
    sp = os.path.join(d, "spec.json")
    json.dump(spec, open(sp, "w"))
    outp = os.path.join(d, "server")
    rc, txt = vlib.oas(["generate", "server-mod", "-i", sp, "-o", outp, "-q"])
    if rc != 0:
        viol.append(([], f"dynamic leg: server-mod generation failed {txt[-200:]}"))
        return 0
    probes = dyn_probes()
    rs = lambda s: '"' + s.replace("\\", "\\\\").replace('"', '\\"') + '"'
    lines = []
    for k, (m, target, hdrs, body, _) in enumerate(probes):
        hs = ", ".join(f"({rs(a)}, {rs(b)})" for a, b in hdrs)
        bd = "None" if body is None else f"Some(({rs(body[0])}, vec![{', '.join(str(x) for x in body[1])}]))"
        lines.append(f"            ({k}, {rs(m)}, {rs(target)}, vec![{hs}], {bd}),")
    ar = arena.Arena("C05d")
    ar.add_case(0, outp)
    ar.write_main(DYN_MAIN_HEAD + "\n".join(lines) + DYN_MAIN_TAIL)
    ok, diags, err = ar.cargo("build")
    if not ok:
        viol.append(([], f"dynamic leg: the generated server and its driver do not build: {(diags[0]['rendered'] if diags else err)[:500]}"))
        return 0
    rc, outp_, errp = ar.run("", timeout=180)
    obs = {}
    for line in outp_.split("\n"):
        parts = line.split("\t")
        if len(parts) >= 3 and parts[0].isdigit():
            obs[int(parts[0])] = parts[1:]
    n = 0
    for k, (m, target, hdrs, body, exp) in enumerate(probes):
        o = obs.get(k)
        what = f"{m} {target}" + (f" {dict(hdrs)}" if hdrs else "") + (f" body={body[1][:40]!r}" if body else "")
        if o is None or o[0] == "ERR":
            viol.append(([what], f"dynamic leg: {what}: no response observed ({o[1] if o else 'runner rc=' + str(rc) + ' ' + errp[-150:]})"))
            continue
        n += 1
        st, ct, bhex, calls = int(o[0]), o[1], o[2], ([] if o[3] == "-" else o[3].split(","))
        bodyb = binascii.unhexlify(bhex) if bhex != "-" else b""
        if calls != exp["calls"]:
            viol.append(([what], f"dynamic leg: {what}: handlers invoked {calls}, the spec routes this request to {exp['calls'] or 'no handler'}"))
            continue
        if ("status" in exp and st != exp["status"]) or ("statuses" in exp and st not in exp["statuses"]):
            viol.append(([what], f"dynamic leg: {what}: answered with status {st}, declared / required {exp.get('status') or 'a 4xx status'}"))
            continue
        if exp.get("empty") and bodyb:
            viol.append(([what], f"dynamic leg: {what}: a variant without content is sent with a body {bodyb[:60]!r}"))
        if "json" in exp:
            try:
                got = json.loads(bodyb.decode("utf-8"))
            except Exception:
                got = bodyb[:80]
            if got != exp["json"] or not ct.startswith("application/json"):
                viol.append(([what], f"dynamic leg: {what}: body {got!r} ({ct}), the handler's payload / received values are {exp['json']!r} as application/json"))
        for key, want in (("text", exp.get("text")), ("bytes", exp.get("bytes"))):
            if want is None:
                continue
            wantb = want.encode("utf-8") if isinstance(want, str) else want
            if bodyb != wantb or not ct.startswith(exp["ctype"]):
                if True:
                    viol.append(([what], f"dynamic leg: {what}: body {bodyb[:60]!r} ({ct}), declared {exp['ctype']} carrying {wantb[:60]!r}"))
    return n


def main(tier, seed, replay=None):
    res = Result("C05", tier, seed)
    c04.load_http_consts()
    vlib.build_repo()
    rep = vlib.translate()
    for f in ("StatusTable.v", "Methods.v"):
        r = rep.get(f, {"ok": False, "error": "missing"})
        res.oblige(f"translator: Gen/{f} regenerated from current source", r.get("ok"), r.get("error", ""))
    r_ = vlib.translate().get("Params.v", {"ok": False, "error": "missing"})
    res.oblige("translator: Gen/Params.v regenerated from current source", r_.get("ok"), r_.get("error", ""))
    coq_ok, out = vlib.standard_coq_obligations(res, TARGETS, THEOREMS, expect_closed=4)
    exe = vlib.ocaml_build("c05") if coq_ok else None
    if coq_ok:
        res.oblige("extracted model driver builds", exe is not None)
    probe, err = c09.build_probe()
    rnd = random.Random(seed)
    cases = [gen_case(rnd) for _ in range(150 if tier == "quick" else 1500)]
    # deterministic: every status the generator has a name for, as a response key (three operations)
    import re as _re
    allcodes = _re.findall(r'\("(\d{3}|\dxx)", ', open(os.path.join(vlib.COQ, "Gen", "StatusTable.v")).read())
    allkeys = [c.upper() for c in allcodes] + ["418", "599", "default"]
    third = (len(allkeys) + 2) // 3
    cases.append([{"template": f"/all{k}", "method": "get", "id": f"all{k}x", "responses": [(key, c04.CONTENT_SHAPES[1]) for key in allkeys[k * third:(k + 1) * third]]} for k in range(3)])
    # deterministic: path-level and operation-level parameters, same name in different locations
    cases.append([{"template": "/r/{id}", "method": "get", "id": "paramsx", "responses": [("200", [])],
                   "path_params": [{"name": "version", "in": "query", "schema": {"type": "string"}}, {"name": "shared", "in": "header", "schema": {"type": "string"}},
                                   {"name": "limit", "in": "query", "schema": {"type": "integer"}}],
                   "op_params": [{"name": "version", "in": "header", "schema": {"type": "string"}}, {"name": "shared", "in": "query", "schema": {"type": "integer"}},
                                 {"name": "limit", "in": "query", "schema": {"type": "string"}}, {"name": "X-Only", "in": "header", "schema": {"type": "boolean"}}]}])
    # deterministic: query names that differ from their Rust member names; a string payload declared as JSON
    cases.append([{"template": "/find", "method": "get", "id": "namesx", "responses": [("200", [("application/json", {"type": "string"})]), ("404", [("application/json", c04.REF_ERR)])],
                   "op_params": [{"name": "pageSize", "in": "query", "schema": {"type": "integer"}}, {"name": "sort-by", "in": "query", "required": True, "schema": {"type": "string"}},
                                 {"name": "filter[status]", "in": "query", "schema": {"type": "string"}}, {"name": "q", "in": "query", "schema": {"type": "string"}},
                                 {"name": "type", "in": "query", "schema": {"type": "string"}}]}])
    # deterministic: array query parameters in every style, with and without an explicit `explode`
    A = {"type": "array", "items": {"type": "string"}}
    cases.append([{"template": "/search", "method": "get", "id": "stylesx", "responses": [("200", [])],
                   "op_params": [{"name": "f_def", "in": "query", "schema": A}, {"name": "f_ex", "in": "query", "schema": A, "explode": True},
                                 {"name": "f_noex", "in": "query", "schema": A, "explode": False},
                                 {"name": "sp_def", "in": "query", "schema": A, "style": "spaceDelimited"}, {"name": "sp_noex", "in": "query", "schema": A, "style": "spaceDelimited", "explode": False},
                                 {"name": "pi_def", "in": "query", "schema": A, "style": "pipeDelimited"}, {"name": "pi_noex", "in": "query", "schema": A, "style": "pipeDelimited", "explode": False},
                                 {"name": "n_noex", "in": "query", "schema": {"type": "array", "items": {"type": "integer"}}, "explode": False},
                                 {"name": "n_pipe", "in": "query", "schema": {"type": "array", "items": {"type": "integer", "format": "int32"}}, "style": "pipeDelimited"}]}])
    if replay:
        cases = [json.load(open(replay))["ops"]]
    d = vlib.scratch("C05")

    def one(i):
        sp = os.path.join(d, f"s{i}.json")
        json.dump(make_spec(cases[i]), open(sp, "w"))
        outd = os.path.join(d, f"o{i}")
        rc, txt = vlib.oas(["generate", "server-mod", "-i", sp, "-o", outd, "-q"])
        return rc, txt, outd
    outs = vlib.pmap(one, range(len(cases)))
    rbs = vlib.vtool_lines("server", [o[2] for o in outs])
    tdumps = vlib.vtool_lines("dump", [os.path.join(o[2], "types.rs") for o in outs])
    pnames = sorted({prm["name"] for ops in cases for o in ops for prm in o.get("path_params", []) + o.get("op_params", [])})
    field_names = {}
    if pnames:
        prn = subprocess.run([probe], input="\n".join(c09.hx(n.encode()) for n in pnames) + "\n", stdout=subprocess.PIPE, text=True)
        field_names = {n: c09.unhx(l.split(" ")[0]).decode() for n, l in zip(pnames, prn.stdout.split("\n"))}
    # field names of path parameters through the real sanitiser
    allnames = sorted({nm for ops in cases for o in ops for nm in re.findall(r"\{([^}]+)\}", o["template"])})
    pr = subprocess.run([probe], input="\n".join(c09.hx(n.encode()) for n in allnames) + "\n", stdout=subprocess.PIPE, text=True)
    field_of = {n: c09.unhx(l.split(" ")[0]).decode() for n, l in zip(allnames, pr.stdout.split("\n"))}
    dis, viol, known_hits = [], [], set()
    enc_q = []
    model_routes = None
    if exe:
        q = []
        for ops in cases:
            toks = ["routes", str(len(ops))]
            nops = 0
            ORDER = ["get", "put", "post", "delete", "options", "head", "patch", "trace"]   # oas3 PathItem::methods()
            for o in sorted(ops, key=lambda o: (o["template"].encode(), ORDER.index(o["method"]))):
                names = re.findall(r"\{([^}]+)\}", o["template"])
                # model of oas3's operations(): PathItem::methods() lists TRACE twice (known finding)
                for suffix in (["", "_2"] if o["method"] == "trace" else [""]):
                    toks += [o["method"].upper(), o["template"], "H" + o["id"] + suffix, str(len(names))]
                    for nm in names:
                        toks += [nm, field_of[nm]]
                    nops += 1
            toks[1] = str(nops)
            q.append(" ".join(toks))
        model_routes = vlib.run_driver(exe, q)
        keys = sorted({k for ops in cases for o in ops for k, _ in o["responses"]})
        model_status = dict(zip(keys, vlib.run_driver(exe, ["status " + k for k in keys])))
    n_eval = 0
    for i, (ops, (rc, txt, _), rb) in enumerate(zip(cases, outs, rbs)):
        if rc != 0 or "error" in rb or "router_error" in rb:
            has_ot = any(o["method"] in ("options", "trace") for o in ops)
            viol.append((ops, f"server-mod generation failed rc={rc}: {txt[-300:]} {rb.get('error', rb.get('router_error',''))}"))
            continue
        handler_by_op = {}
        for tm in rb["trait_methods"]:
            m = re.search(r"Path: `(\w+) ([^`]+)`", " ".join(tm["doc"]))
            if m:
                handler_by_op.setdefault((m.group(1).lower(), m.group(2)), tm["name"])
        # model vs implementation: route table
        impl_routes = " ; ".join(r["path"] + "|" + ",".join(f"{f}:{h}" for f, h in r["handlers"]) for r in rb["routes"])
        if model_routes is not None:
            mr = model_routes[i]
            for o in ops:
                mr = mr.replace("H" + o["id"], handler_by_op.get((o["method"], o["template"]), "?"))   # op.._2 keeps its suffix
            if mr != impl_routes:
                dis.append(f"routes: ops {[(o['method'], o['template']) for o in ops]} impl [{impl_routes}] model [{mr}]")
        # oracle on the implementation: one route per operation, none else
        flat = [(r["path"], f, h) for r in rb["routes"] for f, h in r["handlers"]]
        for o in ops:
            n_eval += 1
            h = handler_by_op.get((o["method"], o["template"]))
            pat = "/" + "/".join(re.sub(r"\{([^}]+)\}", lambda m: "{" + field_of[m.group(1)] + "}", s) for s in o["template"].split("/") if s)
            hits = [x for x in flat if x[2] == h and x[0] == pat and x[1] == o["method"]]
            if o["method"] == "trace":
                continue      # registered twice (known finding trace-listed-twice): the doc line maps to the second entry
            if h is None or len(hits) != 1 or sum(1 for x in flat if x[2] == h) != 1:
                viol.append((ops, f"operation {o['method'].upper()} {o['template']}: router entries {[x for x in flat if x[2]==h]}, expected exactly one ({pat}, {o['method']})"))
            hd = rb["handlers"].get(h or "", {})
            if h and not hd.get("err_500"):
                viol.append((ops, f"handler {h}: a service error is not mapped to 500"))
        # parameters: path-item level merged with operation level, operation wins on (in, name); every effective
        # query/header parameter must be a member of the request's query/header struct, with a matching extractor
        for o in ops:
            eff = {}
            for prm in o.get("path_params", []) + o.get("op_params", []):
                eff[(prm["in"], prm["name"])] = prm
            if not eff:
                continue
            h = handler_by_op.get((o["method"], o["template"]))
            ext = " ".join(rb["handlers"].get(h or "", {}).get("extractors", []))
            tdump = tdumps[i]
            for (loc, nm), prm in eff.items():
                sname = {"query": "Query", "header": "Header"}.get(loc)
                if sname is None:
                    continue
                structs = [x for x in tdump.get("items", []) if x["kind"] == "struct" and x["name"].endswith("Request" + sname)]
                fieldnames = [f["name"] for st in structs for f in st["fields"]]
                want = field_names[nm]
                n_eval += 1
                if want not in fieldnames:
                    viol.append((ops, f"{o['method'].upper()} {o['template']}: declared {loc} parameter {nm!r} is not a member of the request's {sname.lower()} struct (members {fieldnames})"))
                if want in fieldnames and loc == "query":
                    # the wire name: the member must (de)serialise under the parameter's exact name
                    fld0 = next(f for st in structs for f in st["fields"] if f["name"] == want)
                    attrs0 = " ".join(str(a.get("attr")) for a in fld0["attrs"])
                    mren = re.search(r'rename\s*=\s*"((?:[^"\\]|\\.)*)"', attrs0)
                    wire = mren.group(1) if mren else want.replace("r#", "")
                    if wire != nm:
                        viol.append((ops, f"{o['method'].upper()} {o['template']}: query parameter {nm!r} is read from the key {wire!r} (member {want}, attributes {attrs0 or 'none'}): `?{nm}=v` does not reach the handler"))
                if want not in fieldnames:
                    pass
                elif loc == "query" and prm["schema"].get("type") == "array":
                    # a non-exploded array arrives as ONE delimited value: the member needs the style's separator adapter;
                    # explode defaults to true only for style form (OpenAPI 3.1 §4.8.12.2)
                    style = prm.get("style", "form")
                    exploded = prm.get("explode", style == "form")
                    fld = next(f for st in structs for f in st["fields"] if f["name"] == want)
                    attrs = " ".join(str(a.get("attr")) for a in fld["attrs"])
                    sep = {"form": "Comma", "spaceDelimited": "Space", "pipeDelimited": "Pipe"}[style]
                    has = f"StringWith{sep}Separator" in attrs or ("StringWithSeparator<" in attrs.replace(" ", "") and f"{sep}Separator" in attrs)
                    if exploded == has or (not exploded and not has):
                        viol.append((ops, f"{o['method'].upper()} {o['template']}: array query parameter {nm!r} (style {style}, explode {exploded}) is extracted {'with' if has else 'without'} the {sep.lower()} separator adapter ({attrs or 'no attributes'}): a request `?{nm}=a{ {'Comma': ',', 'Space': '%20', 'Pipe': '|'}[sep] }b` does not reach the handler as [a, b]"))
                if (loc == "query" and "Query(query)" not in ext) or (loc == "header" and "HeaderMap" not in ext):
                    viol.append((ops, f"{o['method'].upper()} {o['template']}: no {loc} extractor in the handler although {nm!r} is declared ({ext})"))
        if len(flat) != len(ops):
            if any(o["method"] == "trace" for o in ops) and len(flat) == len(ops) + sum(1 for o in ops if o["method"] == "trace"):
                known_hits.add("trace-listed-twice")
            else:
                viol.append((ops, f"router has {len(flat)} entries for {len(ops)} operations"))
        # statuses and encoders of response variants
        for en, arms in rb["into_response"].items():
            vdocs = {v["name"]: (v["doc"][0].split(":")[0].strip() if v["doc"] else "") for v in rb["enums"].get(en, [])}
            for arm in arms:
                n_eval += 1
                key = vdocs.get(arm["variant"], "")
                st = arm["status"]
                m = re.fullmatch(r"http::StatusCode::([A-Z_]+)", st)
                m2 = re.fullmatch(r"http::StatusCode::from_u16\((\d+)u16\)\.unwrap_or\(http::StatusCode::INTERNAL_SERVER_ERROR\)", st)
                code = c04.HTTP_CONSTS.get(m.group(1)) if m else (int(m2.group(1)) if m2 and 100 <= int(m2.group(1)) <= 999 else (500 if m2 else None))
                if code is None or (key and not key_class_ok(key, code)):
                    viol.append((ops, f"variant {arm['variant']} declared for {key!r} is sent with status {st}"))
                if exe and key in model_status and str(code) != model_status[key]:
                    dis.append(f"status: key {key} impl {code} model {model_status[key]}")
                if arm["encoder"]:
                    # the payload goes out in the media type declared for the variant: raw for a String declared as
                    # text / bytes declared as binary, JSON for everything else
                    ptype = next((v.get("payload") for v in rb["enums"].get(en, []) if v["name"] == arm["variant"]), None)
                    pt = {"String": "String", "Vec<u8>": "Bytes", "Vec < u8 >": "Bytes"}.get((ptype or "").strip(), "Other")
                    plain = pt != "Other"
                    cts = [c04.essence(ct) for o in ops if any(k == key for k, _ in o["responses"])  for k, shape in o["responses"] if k == key for ct, sc in shape if sc is not None]
                    cats = {("Text" if ct.startswith("text/") and ct != "text/event-stream" else "Binary" if ct in ("application/octet-stream", "application/pdf") or ct.startswith(("image/", "audio/", "video/")) else
                             "Json" if ct.endswith("json") else "Other") for ct in cts}
                    enc = "raw" if arm["encoder"] == "data" else arm["encoder"]
                    enc_q.append((f"enc {sorted(cats)[0] if len(cats) == 1 else 'Mixed'} {pt} {1 if plain else 0}", enc, arm["variant"], key, sorted(cats), ops))
                    if enc == "raw" and not ((pt == "String" and "Text" in cats) or (pt == "Bytes" and "Binary" in cats)):
                        viol.append((ops, f"variant {arm['variant']} (key {key}, payload {ptype}) declares {sorted(set(cts))} but its payload is written raw instead of JSON"))
                    if enc == "axum::Json" and ((cats == {"Text"} and pt == "String") or (cats == {"Binary"} and pt == "Bytes")):
                        viol.append((ops, f"variant {arm['variant']} (key {key}, payload {ptype}) declares only {sorted(set(cts))} but its payload is sent as JSON"))
                    if enc not in ("raw", "axum::Json"):
                        dis.append(f"encoder {arm['encoder']}")
    # ---- payload encoders against the extracted model (variants whose declared media types fall in one category)
    single = [q for q in enc_q if " Mixed " not in q[0]]
    n_enc = 0
    if exe and single:
        for (q, enc, vname, key, cats, ops_), r in zip(single, vlib.run_driver(exe, [q[0] for q in single])):
            n_enc += 1
            if r != enc:
                dis.append(f"encoder of variant {vname} (key {key}, categories {cats}): emitted {enc}, model {r} ({q})")
    # ---- the compiled router, run on the loopback interface
    n_dyn = dynamic_leg(viol, known_hits)
    res.oblige("dynamic leg: the generated router was built and answered every probe", n_dyn == len(dyn_probes()), f"{n_dyn} of {len(dyn_probes())} probes observed")
    res.counts.update({"evaluations": n_eval, "dynamic_probes": n_dyn, "payload_encoders_compared_with_model": n_enc, "payload_encoders_read_back": len(enc_q), "distinct_nontrivial": len(cases), "specs": len(cases),
                       "traces_validated_against_impl": len(cases) if exe else 0,
                       "rule": "server-mod specs with 1-6 operations over 10 path templates (plain, multi-parameter, mixed literal/parameter segments, names needing sanitising) x 8 methods x response sets; router(), handler functions and IntoResponse arms read back with syn and compared with the extracted model (route table, sent status per key); oracle: exactly one (pattern, method) route per operation, status covered by the declared key, errors -> 500; plus a dynamic leg: a fixed feature spec (10 operations: path / query / header / delimited-array parameters, json / form / optional bodies, text and binary responses, enum and integer path parameters) generated as server-mod, compiled with a recording trait implementation and driven over the loopback interface with raw requests: which handler runs with which values, the status and body of every declared variant, handler errors (500), malformed values (4xx, no handler), undeclared paths (404) and methods (405)"})
    for ops in cases[:3]:
        res.sample({"ops": [(o["method"], o["template"], [k for k, _ in o["responses"]]) for o in ops]})
    res.oblige(f"correspondence: model = implementation on {len(cases)} server-mod outputs", not dis, dis[0] if dis else "")
    res.cov["trusted_base"] = vlib.COMMON_TRUSTED + [
        "coq/Model/Server.v, Model/Path.v: hand model of RouterFragment / ParsedPath; HttpMethodFragment, HttpStatusCode and the IntoResponse shape are translated",
        "axum/matchit routing semantics are exercised by the dynamic leg on one feature spec (real sockets on 127.0.0.1), not modelled", "lib/c05.py dynamic leg: hand-written trait implementation and expectations for the fixed spec"]
    res.assumptions = ["PARTIAL: the theorems are about the route table and the status mapping; delivery of values and bodies is observed on the dynamic leg's fixed spec, HEAD / OPTIONS / TRACE routes and the `default` variant (recorded under C06) are not driven dynamically"]
    kf = {k["key"]: k["text"] for k in vlib.known_findings("C05")}
    for k in sorted(known_hits):
        if k in kf:
            res.known(k, kf[k])
    for (ops, dsc) in viol[:3]:
        res.violation(dsc, {"ops": ops})
    broken = [o for o in res.obligations if not o[1]]
    if broken and not viol:
        res.violation("proof obligation or correspondence no longer checks: " + "; ".join(o[0] for o in broken),
                      {"broken": [[o[0], o[2]] for o in broken]}, no_input=True)
    return res.finish()
