"""C14 — discriminated unions dispatch by tag and round-trip."""
import itertools, json, os, random, re
import vlib
from vlib import Result, log
from arena import Arena

THEOREMS = ["C14_base_dispatch", "C14_base_unmapped", "C14_base_untagged", "C14_members_reachable", "C14_union_dispatch", "C14_const_mapping",
            "C14_unmapped_member_dropped_refuted", "C14_nonvacuous"]
TARGETS = ["Props/C14.v", "Extract/C14.v"]


def R(t):
    return {"$ref": f"#/components/schemas/{t}"}


def wrap(schemas, paths=None):
    return {"openapi": "3.1.0", "info": {"title": "t", "version": "1"}, "paths": paths or {}, "components": {"schemas": schemas}}


CHILD_FIELDS = {"Alpha": ("av", "string", "x"), "Beta": ("bv", "integer", 7), "Gamma": ("gv", "boolean", True), "Delta": ("dv", "number", 1.5),
                "AlphaKid": ("av", "string", "x"), "BetaKid": ("bv", "integer", 7)}


def tag_schema(tagtype, values):
    if tagtype == "enum":
        return {"type": "string", "enum": sorted(values)}
    return {"type": "string"}


def configs():
    """-> list of dict(name, spec, unions=[dict(name, kind, prop, mapping{tag:schema}, members[...], base)])"""
    out = []
    # ---- A: base schema with explicit mapping, children by allOf
    for tags in ({"Alpha": ["a"], "Beta": ["b"]}, {"Alpha": ["a", "a2"], "Beta": ["b"]}, {"Alpha": ["a", "a2", "a3"], "Beta": ["b", "b2"], "Gamma": ["g"]}):
        for tagtype in ("string", "enum"):
            for backref in (False, True):
                allv = [t for ts in tags.values() for t in ts]
                mapping = {t: c for c, ts in tags.items() for t in ts}
                schemas = {"Base": {"type": "object", "required": ["kind"], "properties": {"kind": tag_schema(tagtype, allv), "label": {"type": "string"}},
                                    "discriminator": {"propertyName": "kind", "mapping": {t: f"#/components/schemas/{c}" for t, c in mapping.items()}}}}
                for c in tags:
                    f, ty, _ = CHILD_FIELDS[c]
                    props = {f: {"type": ty}}
                    if backref:
                        props["parent"] = R("Base")
                    schemas[c] = {"allOf": [R("Base"), {"type": "object", "properties": props}]}
                out.append({"name": f"base/{len(allv)}tags/{tagtype}/{'backref' if backref else 'flat'}", "spec": wrap(schemas),
                            "unions": [{"name": "Base", "kind": "base", "prop": "kind", "mapping": mapping, "members": sorted(tags), "base": "BaseBase"}]})
    # ---- A2: two-level hierarchy: the mapped schemas are grandchildren of the base through an unmapped intermediate schema
    for tagtype in ("string", "enum"):
        mapping = {"a": "Alpha", "a2": "Alpha", "b": "Beta", "g": "Gamma"}
        schemas = {"Base": {"type": "object", "required": ["kind"], "properties": {"kind": tag_schema(tagtype, sorted(mapping)), "label": {"type": "string"}},
                            "discriminator": {"propertyName": "kind", "mapping": {t: f"#/components/schemas/{c}" for t, c in mapping.items()}}},
                   "Mid": {"allOf": [R("Base"), {"type": "object", "properties": {"mid": {"type": "string"}}}]}}
        for c, parent in (("Alpha", "Mid"), ("Beta", "Mid"), ("Gamma", "Base")):
            f, ty, _ = CHILD_FIELDS[c]
            schemas[c] = {"allOf": [R(parent), {"type": "object", "properties": {f: {"type": ty}}}]}
        out.append({"name": f"base/grandchildren/{tagtype}", "spec": wrap(schemas),
                    "unions": [{"name": "Base", "kind": "base", "prop": "kind", "mapping": mapping, "members": ["Alpha", "Beta", "Gamma"], "base": "BaseBase"}]})
    # ---- B/C/D: oneOf / anyOf with discriminator
    for kw in ("oneOf", "anyOf"):
        for mode in ("explicit", "explicit-multi", "const", "partial", "extra-target", "no-mapping-no-const"):
            for tagtype in ("string", "enum"):
                members = ["Alpha", "Beta", "Gamma"]
                tagsof = {"Alpha": ["a"], "Beta": ["b"], "Gamma": ["g"]}
                if mode == "explicit-multi":
                    tagsof = {"Alpha": ["a", "a2"], "Beta": ["b"], "Gamma": ["g", "g2", "g3"]}
                schemas = {}
                allv = [t for ts in tagsof.values() for t in ts]
                for c in members:
                    f, ty, _ = CHILD_FIELDS[c]
                    tagp = {"const": tagsof[c][0]} if mode == "const" else tag_schema(tagtype, allv)
                    schemas[c] = {"type": "object", "required": ["kind"], "properties": {"kind": tagp, f: {"type": ty}}}
                disc = {"propertyName": "kind"}
                mapping = {t: c for c, ts in tagsof.items() for t in ts}
                if mode in ("explicit", "explicit-multi"):
                    disc["mapping"] = {t: f"#/components/schemas/{c}" for t, c in mapping.items()}
                elif mode == "partial":
                    mapping = {t: c for t, c in mapping.items() if c != "Gamma"}
                    disc["mapping"] = {t: f"#/components/schemas/{c}" for t, c in mapping.items()}
                elif mode == "extra-target":
                    schemas["Delta"] = {"type": "object", "required": ["kind"], "properties": {"kind": {"type": "string"}, "dv": {"type": "number"}}}
                    mapping = dict(mapping, d="Delta")
                    disc["mapping"] = {t: f"#/components/schemas/{c}" for t, c in mapping.items()}
                elif mode == "const":
                    if tagtype == "enum":
                        continue
                elif mode == "no-mapping-no-const":
                    mapping = {}
                schemas["Uni"] = {kw: [R(c) for c in members], "discriminator": disc}
                out.append({"name": f"{kw}/{mode}/{tagtype}", "spec": wrap(schemas),
                            "unions": [{"name": "Uni", "kind": "union", "prop": "kind", "mapping": mapping, "members": members, "base": None, "implicit": mode == "const"}]})
    # ---- implicit mapping that cannot be synthesised: duplicate const, a member without const
    for why in ("dup", "noconst"):
        schemas = {}
        for c, tag in (("Alpha", "a"), ("Beta", "a" if why == "dup" else "b"), ("Gamma", "g")):
            f, ty, _ = CHILD_FIELDS[c]
            tagp = {"type": "string"} if (why == "noconst" and c == "Gamma") else {"const": tag}
            schemas[c] = {"type": "object", "required": ["kind"], "properties": {"kind": tagp, f: {"type": ty}}}
        schemas["Uni"] = {"oneOf": [R(c) for c in ("Alpha", "Beta", "Gamma")], "discriminator": {"propertyName": "kind"}}
        out.append({"name": f"oneOf/const-{why}", "spec": wrap(schemas),
                    "unions": [{"name": "Uni", "kind": "union", "prop": "kind", "mapping": {}, "members": ["Alpha", "Beta", "Gamma"], "base": None, "implicit": True}]})
    # ---- two unions over one tag property that share a member: one fully const-tagged, the other with a member that has no const
    for kw in ("oneOf", "anyOf"):
        schemas = {}
        for c, tag in (("Alpha", "a"), ("Beta", "b"), ("Gamma", None)):
            f, ty, _ = CHILD_FIELDS[c]
            schemas[c] = {"type": "object", "required": ["kind", f], "properties": {"kind": {"const": tag} if tag else {"type": "string"}, f: {"type": ty}}}
        schemas["Direct"] = {kw: [R("Alpha"), R("Beta")], "discriminator": {"propertyName": "kind"}}
        schemas["Mixed"] = {kw: [R("Gamma"), R("Alpha")], "discriminator": {"propertyName": "kind"}}
        out.append({"name": f"{kw}/two-unions-shared-member", "spec": wrap(schemas),
                    "unions": [{"name": "Direct", "kind": "union", "prop": "kind", "mapping": {}, "members": ["Alpha", "Beta"], "base": None, "implicit": True},
                               {"name": "Mixed", "kind": "union", "prop": "kind", "mapping": {}, "members": ["Gamma", "Alpha"], "base": None, "implicit": True}]})
    # ---- members that refer back to the union (they are boxed in the enum)
    for kw in ("oneOf", "anyOf"):
        schemas = {"Alpha": {"type": "object", "required": ["kind"], "properties": {"kind": {"type": "string"}, "av": {"type": "string"}}},
                   "Beta": {"type": "object", "required": ["kind"], "properties": {"kind": {"type": "string"}, "bv": {"type": "integer"}, "arg": R("Uni")}},
                   "Gamma": {"type": "object", "required": ["kind"], "properties": {"kind": {"type": "string"}, "gv": {"type": "boolean"}, "terms": {"type": "array", "items": R("Uni")}}}}
        mapping = {"a": "Alpha", "b": "Beta", "g": "Gamma", "g2": "Gamma"}
        schemas["Uni"] = {kw: [R("Alpha"), R("Beta"), R("Gamma")], "discriminator": {"propertyName": "kind", "mapping": {t: f"#/components/schemas/{c}" for t, c in mapping.items()}}}
        out.append({"name": f"{kw}/cyclic-members", "spec": wrap(schemas),
                    "unions": [{"name": "Uni", "kind": "union", "prop": "kind", "mapping": mapping, "members": ["Alpha", "Beta", "Gamma"], "base": None}]})
    # ---- an INLINE discriminated union next to a NAMED union over the same members without discriminator
    for kw in ("oneOf", "anyOf"):
        schemas = {}
        for c in ("Alpha", "Beta"):
            f, ty, _ = CHILD_FIELDS[c]
            schemas[c] = {"type": "object", "required": ["kind"], "properties": {"kind": {"type": "string"}, f: {"type": ty}}}
        schemas["Animal"] = {kw: [R("Alpha"), R("Beta")]}
        schemas["Owner"] = {"type": "object", "properties": {"pet": {kw: [R("Alpha"), R("Beta")], "discriminator": {"propertyName": "kind", "mapping": {"a": "#/components/schemas/Alpha", "b": "#/components/schemas/Beta"}}},
                                                             "other": R("Animal")}}
        out.append({"name": f"{kw}/inline-next-to-plain-named", "spec": wrap(schemas),
                    "unions": [{"name": None, "via": ("Owner", "pet"), "kind": "union", "prop": "kind", "mapping": {"a": "Alpha", "b": "Beta"}, "members": ["Alpha", "Beta"], "base": None}]})
    # ---- F: nested unions: a member of the outer union is itself a discriminated union
    schemas = {}
    for c in ("Alpha", "Beta", "Gamma"):
        f, ty, _ = CHILD_FIELDS[c]
        schemas[c] = {"type": "object", "required": ["kind"], "properties": {"kind": {"type": "string"}, f: {"type": ty}}}
    schemas["Inner"] = {"oneOf": [R("Alpha"), R("Beta")], "discriminator": {"propertyName": "kind", "mapping": {"a": "#/components/schemas/Alpha", "b": "#/components/schemas/Beta"}}}
    schemas["Outer"] = {"oneOf": [R("Inner"), R("Gamma")], "discriminator": {"propertyName": "kind", "mapping": {"g": "#/components/schemas/Gamma", "a": "#/components/schemas/Inner", "b": "#/components/schemas/Inner"}}}
    out.append({"name": "nested", "spec": wrap(schemas),
                "unions": [{"name": "Inner", "kind": "union", "prop": "kind", "mapping": {"a": "Alpha", "b": "Beta"}, "members": ["Alpha", "Beta"], "base": None},
                           {"name": "Outer", "kind": "union", "prop": "kind", "mapping": {"g": "Gamma", "a": "Inner", "b": "Inner"}, "members": ["Inner", "Gamma"], "base": None}]})
    # ---- operation filters that make some children unreachable (base hierarchy used by two operations)
    ok = lambda sch: {"200": {"description": "ok", "content": {"application/json": {"schema": sch}}}}
    schemas = {"Base": {"type": "object", "required": ["kind"], "properties": {"kind": {"type": "string"}},
                        "discriminator": {"propertyName": "kind", "mapping": {"a": "#/components/schemas/Alpha", "b": "#/components/schemas/Beta"}}},
               "Alpha": {"allOf": [R("Base"), {"type": "object", "properties": {"av": {"type": "string"}}}]},
               "Beta": {"allOf": [R("Base"), {"type": "object", "properties": {"bv": {"type": "integer"}}}]}}
    both = lambda opid, t: {"post": {"operationId": opid, "requestBody": {"required": True, "content": {"application/json": {"schema": R(t)}}}, "responses": ok(R(t))}}
    paths = {"/base": both("get_base", "Base"), "/alpha": both("get_alpha", "Alpha"), "/beta": both("get_beta", "Beta")}
    for flags, reach in ((["--only", "get_base,get_alpha"], ["Alpha"]), (["--exclude", "get_beta"], ["Alpha"]), ([], ["Alpha", "Beta"]), (["--only", "get_base"], [])):
        out.append({"name": "filtered/" + "_".join(flags or ["default"]), "spec": wrap(schemas, paths), "flags": flags,
                    "unions": [{"name": "Base", "kind": "base", "prop": "kind", "mapping": {"a": "Alpha", "b": "Beta"}, "members": ["Alpha", "Beta"], "base": "BaseBase", "reachable": reach}]})
    # ---- the same filters with child schemas whose names are not their Rust type names (alpha_kid -> AlphaKid)
    schemas = {"Base": {"type": "object", "required": ["kind"], "properties": {"kind": {"type": "string"}},
                        "discriminator": {"propertyName": "kind", "mapping": {"a": "#/components/schemas/alpha_kid", "a2": "#/components/schemas/alpha_kid", "b": "#/components/schemas/beta-kid"}}},
               "alpha_kid": {"allOf": [R("Base"), {"type": "object", "properties": {"av": {"type": "string"}}}]},
               "beta-kid": {"allOf": [R("Base"), {"type": "object", "properties": {"bv": {"type": "integer"}}}]}}
    paths = {"/base": both("get_base", "Base"), "/alpha": both("get_alpha", "alpha_kid"), "/beta": both("get_beta", "beta-kid")}
    for flags, reach in ((["--only", "get_base,get_alpha"], ["AlphaKid"]), ([], ["AlphaKid", "BetaKid"]), (["--exclude", "get_alpha"], ["BetaKid"])):
        out.append({"name": "filtered-rawnames/" + "_".join(flags or ["default"]), "spec": wrap(schemas, paths), "flags": flags,
                    "unions": [{"name": "Base", "kind": "base", "prop": "kind", "mapping": {"a": "AlphaKid", "a2": "AlphaKid", "b": "BetaKid"}, "members": ["AlphaKid", "BetaKid"], "base": "BaseBase", "reachable": reach}]})
    # ---- a discriminated union wrapped in a nullable union (the wrapper is flattened into the inner union)
    for kw in ("oneOf", "anyOf"):
        schemas = {}
        for c in ("Alpha", "Beta", "Gamma"):
            f, ty, _ = CHILD_FIELDS[c]
            schemas[c] = {"type": "object", "required": ["kind"], "properties": {"kind": {"type": "string"}, f: {"type": ty}}}
        mapping = {"a": "Alpha", "b": "Beta", "g": "Gamma", "g2": "Gamma"}
        inner = {kw: [R("Alpha"), R("Beta"), R("Gamma")], "discriminator": {"propertyName": "kind", "mapping": {t: f"#/components/schemas/{c}" for t, c in mapping.items()}}}
        schemas["Uni"] = {"oneOf": [inner, {"type": "null"}]}
        out.append({"name": f"{kw}/nullable-wrapper", "spec": wrap(schemas),
                    "unions": [{"name": "Uni", "kind": "union", "prop": "kind", "mapping": mapping, "members": ["Alpha", "Beta", "Gamma"], "base": None}]})
    return out


def tagname_part(viol):
    """tag properties whose names are not Rust identifiers (vehicleType, event-kind): a value constructed from the member's
    Default is written with the tag under the property's own name and is dispatched back to the same member"""
    schemas = {"Vehicle": {"type": "object", "required": ["vehicleType"], "properties": {"vehicleType": {"type": "string"}},
                           "discriminator": {"propertyName": "vehicleType", "mapping": {"car": "#/components/schemas/Car", "truck": "#/components/schemas/Truck"}}},
               "Car": {"allOf": [R("Vehicle"), {"type": "object", "properties": {"doors": {"type": "integer"}}}]},
               "Truck": {"allOf": [R("Vehicle"), {"type": "object", "properties": {"axles": {"type": "integer"}}}]},
               "Dispatched": {"type": "object", "required": ["event-kind"], "properties": {"event-kind": {"type": "string"}, "at": {"type": "string"}}},
               "Delivered": {"type": "object", "required": ["event-kind"], "properties": {"event-kind": {"type": "string"}, "to": {"type": "string"}}},
               "FleetEvent": {"oneOf": [R("Dispatched"), R("Delivered")], "discriminator": {"propertyName": "event-kind", "mapping": {
                   "dispatched": "#/components/schemas/Dispatched", "delivered": "#/components/schemas/Delivered"}}}}
    d = vlib.scratch("C14t")
    sp = os.path.join(d, "spec.json")
    json.dump(wrap(schemas), open(sp, "w"))
    outp = os.path.join(d, "out.rs")
    rc, txt = vlib.oas(["generate", "types", "-i", sp, "-o", outp, "-q", "--no-helpers", "--all-schemas"], timeout=120)
    if rc != 0:
        viol.append(({"name": "tag-names", "spec": wrap(schemas)}, f"tag-names: generation failed rc={rc} {txt[-200:]}", None))
        return 0
    members = [("Car", "Vehicle", "vehicleType", "car"), ("Truck", "Vehicle", "vehicleType", "truck"), ("Dispatched", "FleetEvent", "event-kind", "dispatched"), ("Delivered", "FleetEvent", "event-kind", "delivered")]
    ar = Arena("c14t")
    ar.add_case(0, outp)
    lines = []
    for k, (m, u, prop, tag) in enumerate(members):
        lines.append(f'{{ let s = serde_json::to_string(&case_0::{m}::default()).unwrap(); let back: Result<case_0::{u}, _> = serde_json::from_str(&s); '
                     f'println!("{k}\t{{}}\t{{}}", s, match back {{ Ok(v) => format!("{{:?}}", v).split("(").next().unwrap().to_string(), Err(e) => format!("ERR {{}}", e) }}); }}')
    ar.write_main("fn main() {\n" + "\n".join(lines) + "\n}\n")
    ok, diags, err = ar.cargo("build")
    if not ok:
        viol.append(({"name": "tag-names", "spec": wrap(schemas)}, f"tag-names: the emitted types do not compile: {(diags[0]['message'] if diags else err)[:300]}", None))
        return 0
    rc, so, se = ar.run("")
    got = {}
    for l in so.strip().split("\n"):
        parts = l.split("	")
        if len(parts) == 3:
            got[int(parts[0])] = (parts[1], parts[2])
    for k, (m, u, prop, tag) in enumerate(members):
        enc, back = got.get(k, ("", "no output"))
        try:
            doc = json.loads(enc)
        except Exception:
            doc = {}
        if doc.get(prop) != tag or back != m:
            viol.append(({"name": "tag-names", "spec": wrap(schemas)}, f"tag-names: {m}::default() is written as {enc} (tag property {prop!r} must carry {tag!r}) and read back through {u} as {back}", None))
    return len(members)


def random_configs(rnd, n):
    """seeded hierarchies and unions: 2-4 members out of Alpha..Delta, 1-3 tags each (tags drawn from a pool with shared
    prefixes, upper / lower case, digits, separators), string or enum tag members, base + allOf or oneOf / anyOf,
    optional back references"""
    # (tags are free of the separators of the model driver's line protocol: space , = :
    # and do not collide as Rust variant names: an enum-typed tag whose values collide follows the merge contract of C15)
    pool = ["a", "a2", "b", "bb", "B1", "g", "gamma", "delta.d", "d+d", "x/y", "1", "true", "Zz", "k9", "in-progress", "done_ok"]
    out = []
    for k in range(n):
        members = rnd.sample(["Alpha", "Beta", "Gamma", "Delta"], rnd.randint(2, 4))
        tags = rnd.sample(pool, min(len(pool), sum(rnd.randint(1, 3) for _ in members)))
        tagsof, i = {}, 0
        for m in members:
            cnt = max(1, min(len(tags) - i - (len(members) - len(tagsof) - 1), rnd.randint(1, 3)))
            tagsof[m] = tags[i:i + cnt]
            i += cnt
        mapping = {t: c for c, ts in tagsof.items() for t in ts}
        allv = sorted(mapping)
        tagtype = rnd.choice(["string", "enum"])
        style = rnd.choice(["base", "oneOf", "anyOf"])
        if style == "base":
            backref = rnd.random() < 0.4
            schemas = {"Base": {"type": "object", "required": ["kind"], "properties": {"kind": tag_schema(tagtype, allv), "label": {"type": "string"}},
                                "discriminator": {"propertyName": "kind", "mapping": {t: f"#/components/schemas/{c}" for t, c in mapping.items()}}}}
            for c in members:
                f, ty, _ = CHILD_FIELDS[c]
                props = {f: {"type": ty}}
                if backref:
                    props["parent"] = R("Base")
                schemas[c] = {"allOf": [R("Base"), {"type": "object", "properties": props}]}
            out.append({"name": f"random{k}/base/{tagtype}/{len(allv)}tags", "spec": wrap(schemas),
                        "unions": [{"name": "Base", "kind": "base", "prop": "kind", "mapping": mapping, "members": sorted(members), "base": "BaseBase"}]})
        else:
            schemas = {}
            for c in members:
                f, ty, _ = CHILD_FIELDS[c]
                schemas[c] = {"type": "object", "required": ["kind"], "properties": {"kind": tag_schema(tagtype, allv), f: {"type": ty}}}
            schemas["Uni"] = {style: [R(c) for c in members], "discriminator": {"propertyName": "kind", "mapping": {t: f"#/components/schemas/{c}" for t, c in mapping.items()}}}
            out.append({"name": f"random{k}/{style}/{tagtype}/{len(allv)}tags", "spec": wrap(schemas),
                        "unions": [{"name": "Uni", "kind": "union", "prop": "kind", "mapping": mapping, "members": members, "base": None}]})
    return out


# ---------------------------------------------------------------- read-back of the emitted dispatch table

def read_enum(text, name):
    m = re.search(r"(?s)pub enum " + re.escape(name) + r" \{(.*?)\n\}", text)
    if not m:
        return None
    variants = {}
    for vm in re.finditer(r"(?m)^\s+(\w+)\(\s*(?:Box<)?([\w:]+?)>?\s*\),?$", m.group(1)):
        variants[vm.group(1)] = vm.group(2)
    untagged = bool(re.search(r"#\[serde\(untagged\)\]\s*\npub enum " + re.escape(name) + r" ", text))
    dm = re.search(r"(?s)impl<'de> serde::Deserialize<'de> for " + re.escape(name) + r" \{(.*?)\n\}\n", text)
    table = None
    if dm:
        body = dm.group(1)
        arms = []
        for am in re.finditer(r'(?s)Some\("((?:[^"\\]|\\.)*)"\) => \{?\s*serde_json::from_value\(value\)\s*\.map\(Self::(\w+)\)', body):
            arms.append((json.loads('"' + am.group(1) + '"'), am.group(2)))
        nm = re.search(r"(?s)None => \{?\s*serde_json::from_value\(value\)\s*\.map\(Self::(\w+)\)", body)
        table = {"arms": arms, "none": nm.group(1) if nm else None, "missing_err": "missing_field" in body}
    return {"variants": variants, "untagged": untagged, "table": table}


def parse_model(line):
    if line.startswith("NONE"):
        return None
    m = re.match(r"A (.*?) ?// F (\S+)$", line)
    arms = []
    for tok in m.group(1).split():
        s, ts = tok.split(":")
        arms.append((s, ts.split(",")))
    return {"arms": arms, "fallback": None if m.group(2) == "-" else m.group(2)}


def main(tier, seed, replay=None):
    res = Result("C14", tier, seed)
    vlib.build_repo()
    coq_ok, out = vlib.standard_coq_obligations(res, TARGETS, THEOREMS, expect_closed=6)
    exe = vlib.ocaml_build("c14")
    res.oblige("extracted model (group, base_enum, upgrade, dispatch) builds", exe is not None)
    cfgs = configs() + random_configs(random.Random(f"c14-{seed}"), 12 if tier == "quick" else 250)
    if replay:
        r = json.load(open(replay))
        if "config" in r:
            cfgs = [c for c in cfgs if c["name"] == r["config"]] or cfgs
    d = vlib.scratch("C14")

    def one(i):
        c = cfgs[i]
        base = os.path.join(d, f"c{i}")
        os.makedirs(base, exist_ok=True)
        sp = os.path.join(base, "spec.json")
        json.dump(c["spec"], open(sp, "w"))
        outp = os.path.join(base, "out.rs")
        flags = c.get("flags")
        rc, txt = vlib.oas(["generate", "types", "-i", sp, "-o", outp, "-q", "--no-helpers"] + (flags if flags is not None else ["--all-schemas"]), timeout=120)
        return rc, txt[-300:], outp
    results = vlib.pmap(one, range(len(cfgs)))
    for i, c in enumerate(cfgs):
        for u in c["unions"]:
            if u.get("via") and results[i][0] == 0:
                # the union is inline: its emitted name is whatever the member is typed with
                text = open(results[i][2]).read()
                sm = re.search(r"(?s)pub struct " + u["via"][0] + r" \{(.*?)\n\}", text)
                fm = re.search(r"(?m)^\s+pub " + u["via"][1] + r": (.*),$", sm.group(1)) if sm else None
                ids = re.findall(r"[A-Z]\w*", re.sub(r"\b(Option|Box|Vec)\b", "", fm.group(1))) if fm else []
                u["name"] = ids[0] if ids else "<not found>"
    # implicit mappings are synthesised by the MODEL from the const values found in the spec
    sq, sidx = [], []
    for i, c in enumerate(cfgs):
        for u in c["unions"]:
            if u.get("implicit"):
                toks = []
                for mname in u["members"]:
                    sc = c["spec"]["components"]["schemas"].get(mname)
                    if sc is None:
                        toks.append(f"{mname}=?")
                    else:
                        cv = (sc.get("properties", {}).get(u["prop"]) or {}).get("const")
                        toks.append(f"{mname}={cv}" if isinstance(cv, str) else f"{mname}=!")
                sq.append("synth " + " ".join(toks))
                sidx.append((c, u))
    syn_dis = []
    if exe and sq:
        for (c, u), r in zip(sidx, vlib.run_driver(exe, sq)):
            got = {} if r.startswith("NONE") else dict(kv.split("=") for kv in r[2:].split(",") if kv)
            if u["mapping"] and got != u["mapping"]:
                syn_dis.append(f"{c['name']}: model synthesises {got}, configuration expects {u['mapping']}")
            u["mapping"] = got
    res.oblige(f"model: implicit mappings synthesised from const tags for {len(sq)} unions agree with the configurations", not syn_dis, "; ".join(syn_dis[:2]))
    queries, qmap = [], []
    for i, c in enumerate(cfgs):
        for u in c["unions"]:
            m = ",".join(f"{t}={s}" for t, s in sorted(u["mapping"].items())) or "-"
            if u["kind"] == "base":
                reach = u.get("reachable")
                queries.append(f"base {u['base']} {m} // " + (" ".join(reach) if reach is not None else "*"))
            else:
                queries.append(f"union {m} // " + " ".join(u["members"]))
            qmap.append((i, u["name"]))
    model = dict(zip(qmap, vlib.run_driver(exe, queries))) if exe else {}
    viol, dis = [], []
    n_tables = 0
    ar = Arena("c14")
    probes = {}
    for i, c in enumerate(cfgs):
        rc, txt, outp = results[i]
        if rc != 0:
            viol.append((c, f"{c['name']}: generation failed rc={rc} {txt.strip()[-200:]}", None))
            continue
        text = open(outp).read()
        ar.add_case(i, outp)
        probes[i] = []
        for u in c["unions"]:
            em = read_enum(text, u["name"])
            mod = parse_model(model[(i, u["name"])]) if (i, u["name"]) in model else None
            if em is None:
                viol.append((c, f"{c['name']}: no enum emitted for the discriminated schema {u['name']}", None))
                continue
            n_tables += 1
            if mod is None:
                # the model does not upgrade this union: it must stay untagged (first match wins)
                if em["table"] is not None:
                    dis.append(f"{c['name']}/{u['name']}: emitted a tag-dispatching enum where the model keeps the union untagged")
            else:
                if em["table"] is None:
                    dis.append(f"{c['name']}/{u['name']}: emitted enum has no tag dispatch, model: {mod}")
                else:
                    got = [(em["variants"].get(v, v), t) for (t, v) in em["table"]["arms"]]
                    want = [(s, t) for (s, ts) in mod["arms"] for t in ts]
                    if got != want:
                        dis.append(f"{c['name']}/{u['name']}: emitted arms {got} vs model {want}")
                    fb = em["variants"].get(em["table"]["none"]) if em["table"]["none"] else None
                    if fb != mod["fallback"]:
                        dis.append(f"{c['name']}/{u['name']}: missing-tag handling: emitted fallback {fb}, model {mod['fallback']}")
            # ---- the property itself, as probes for the compiled types
            if u["kind"] == "union" and not set(u["mapping"].values()) <= set(u["members"]):
                # ill-formed input (OpenAPI: mapping targets must be members of the union): only the model
                # correspondence (the union stays untagged) is checked
                continue
            reach = u.get("reachable")
            for t, s in sorted(u["mapping"].items()):
                if reach is not None and s not in reach:
                    probes[i].append({"u": u["name"], "what": "filtered-tag", "tag": t, "schema": s, "doc": {u["prop"]: t}})
                    continue
                doc = {u["prop"]: t}
                leaf = s
                if s == "Inner":
                    leaf = {"a": "Alpha", "b": "Beta"}[t]
                if leaf in CHILD_FIELDS:
                    f, _, v = CHILD_FIELDS[leaf]
                    doc[f] = v
                probes[i].append({"u": u["name"], "what": "mapped-tag", "tag": t, "schema": s, "doc": doc})
            probes[i].append({"u": u["name"], "what": "unmapped-tag", "tag": "zz-unmapped", "doc": {u["prop"]: "zz-unmapped"}})
            probes[i].append({"u": u["name"], "what": "missing-tag", "tag": None, "doc": {"label": "x"}})
            probes[i].append({"u": u["name"], "what": "non-string-tag", "tag": 5, "doc": {u["prop"]: 5}})
            for mname in u["members"]:
                if mname not in u["mapping"].values() and u["mapping"]:
                    probes[i].append({"u": u["name"], "what": "member-without-tag", "schema": mname, "doc": None})
    res.oblige(f"correspondence: emitted dispatch tables (tag -> variant payload type, missing-tag handling, untagged fallback) = extracted model on {n_tables} unions", not dis, "; ".join(dis[:3]))

    def body(cases):
        arms = []
        for i in cases:
            ps = []
            for k, p in enumerate(probes.get(i, [])):
                if p["doc"] is None:
                    continue
                lit = json.dumps(json.dumps(p["doc"]))
                ps.append(f'{{ let r: Result<case_{i}::{p["u"]}, _> = serde_json::from_str({lit}); match r {{ Ok(v) => println!("{i}\\t{k}\\tOK\\t{{}}\\t{{}}", format!("{{:?}}", v).replace("\\t", " "), serde_json::to_string(&v).unwrap()), Err(e) => println!("{i}\\t{k}\\tERR\\t{{}}", e.to_string().replace("\\t", " ").replace("\\n", " ")) }} }}')
            arms.append("\n".join(ps))
        return "fn main() {\n" + "\n".join(arms) + "\n}\n"
    ok, failed, err = ar.build_bisect(body, sub="build")
    for ci, diags in failed.items():
        viol.append((cfgs[ci], f"{cfgs[ci]['name']}: rustc rejects the emitted types: {diags[0]['message'][:200]}", None))
    res.oblige(f"arena: {len(ar.cases)} emitted modules with discriminated unions compile", ok, err[:300])
    n_probe = 0
    if ok:
        rc, so, se = ar.run("")
        obs = {}
        for line in so.split("\n"):
            parts = line.split("\t")
            if len(parts) >= 4:
                obs[(int(parts[0]), int(parts[1]))] = parts[2:]
        for i in ar.cases:
            c = cfgs[i]
            umap = {u["name"]: u for u in c["unions"]}
            text = open(results[i][2]).read()
            for k, p in enumerate(probes.get(i, [])):
                u = umap[p["u"]]
                em = read_enum(text, u["name"]) or {"variants": {}, "table": None, "untagged": False}
                if p["what"] == "member-without-tag":
                    n_probe += 1
                    if p["schema"] not in em["variants"].values():
                        viol.append((c, f"{c['name']}: union member {p['schema']} of {u['name']} is not a variant of the emitted enum: no document can decode to it", "oneof-member-without-mapping-dropped"))
                    continue
                o = obs.get((i, k))
                if o is None:
                    viol.append((c, f"{c['name']}: probe {p} produced no output (rc={rc} {se[-120:]})", None))
                    continue
                n_probe += 1
                discriminated = em["table"] is not None
                if p["what"] == "mapped-tag":
                    if o[0] != "OK":
                        viol.append((c, f"{c['name']}: document {json.dumps(p['doc'])} with the mapped tag {p['tag']!r} is rejected by {u['name']}: {o[1][:160]}", classify(c, u, p, o, em)))
                        continue
                    dbg, back = o[1], json.loads(o[2])
                    vname = dbg.split("(")[0]
                    got_schema = em["variants"].get(vname, vname)
                    if got_schema != p["schema"]:
                        viol.append((c, f"{c['name']}: document {json.dumps(p['doc'])} decodes into variant {vname} ({got_schema}), its tag maps to {p['schema']}", classify(c, u, p, o, em)))
                    if back.get(u["prop"]) != p["tag"]:
                        viol.append((c, f"{c['name']}: encode(decode({json.dumps(p['doc'])})) = {json.dumps(back)}: tag property {u['prop']!r} is {back.get(u['prop'])!r}, was {p['tag']!r}", classify_tag(c, u, p, back)))
                elif p["what"] in ("unmapped-tag", "filtered-tag") and discriminated:
                    if o[0] == "OK":
                        vname = o[1].split("(")[0]
                        if em["variants"].get(vname) != u.get("base"):
                            viol.append((c, f"{c['name']}: document with the unmapped tag {p['tag']!r} is accepted as {vname}", None))
                elif p["what"] in ("missing-tag", "non-string-tag") and discriminated:
                    if o[0] == "OK":
                        vname = o[1].split("(")[0]
                        if em["variants"].get(vname) != u.get("base"):
                            viol.append((c, f"{c['name']}: document without a usable tag ({p['what']}) is accepted as {vname}", None))
    n_probe += tagname_part(viol)
    res.counts.update({"evaluations": len(cfgs), "distinct_nontrivial": n_tables, "comparisons": n_tables + n_probe, "probes_run": n_probe,
                       "traces_validated_against_impl": n_tables, "exhaustive": True,
                       "rule": "discriminator configurations {base + allOf children with explicit mapping (1..3 tags per child, string / enum-typed tag, children referring back to the base)} + {oneOf, anyOf} x {explicit, several tags per member, implicit by const, partial mapping, mapping target outside the union, neither mapping nor const} x {string, enum-typed tag} + nested unions + operation filters that leave 0/1/2 children reachable; the emitted Deserialize match (tag -> variant payload type, None arm) read back and compared with the extracted model; compiled types probed with one document per mapped tag, an unmapped tag, a missing tag, a non-string tag: decoded variant, acceptance, and the tag written by re-encoding"})
    for c in cfgs[:4]:
        res.sample({"config": c["name"], "unions": [u["name"] for u in c["unions"]]})
    res.cov["trusted_base"] = vlib.COMMON_TRUSTED + [
        "coq/Model/Discrim.v: hand model of build_variants_from_mapping / try_upgrade_to_discriminated / the emitted Deserialize match",
        "lib/c14.py read_enum: regex read-back of the emitted enum and its Deserialize impl; serde / serde_json for the payloads"]
    res.assumptions = ["PARTIAL: the theorems cover which variant a tag selects, rejection of unmapped tags and the missing-tag arm; decoding of the variant payload and the tag written on encode are arena observations",
                       "effective_mapping: the synthesis from const values is modelled (synth); the choice between explicit mapping and synthesis is exercised through the configurations"]
    kf = {k["key"]: k["text"] for k in vlib.known_findings("C14")}
    seen_known, real = set(), []
    for (c, dsc, cls) in viol:
        if cls and cls in kf:
            seen_known.add(cls)
        else:
            real.append((c, dsc + (f" [unlisted class {cls}]" if cls else "")))
    for k in sorted(seen_known):
        res.known(k, kf[k])
    for (c, dsc) in real[:3]:
        res.violation(dsc, {"config": c["name"], "spec": c["spec"], "flags": c.get("flags")})
    if len(real) > 3:
        log(f"  ... {len(real)} violations in total: " + "; ".join(x[1][:110] for x in real[:25]))
    broken = [o for o in res.obligations if not o[1]]
    if broken and not real:
        res.violation("proof obligation or correspondence no longer checks: " + "; ".join(o[0] for o in broken),
                      {"broken": [[o[0], o[2]] for o in broken]}, no_input=True)
    return res.finish()


def classify(c, u, p, o, em):
    return None


def classify_tag(c, u, p, back):
    """narrow classes for a tag that does not survive decode -> encode"""
    if u["prop"] not in back:
        # the recorded class is about HIDDEN tag members (plain string / const tags); a tag declared as a multi-valued
        # enum is an ordinary visible member and has to survive
        sch = c["spec"]["components"]["schemas"]
        owner = sch.get("Base") if u["kind"] == "base" else sch.get(p.get("schema"))
        ps = ((owner or {}).get("properties") or {}).get(u["prop"]) or {}
        if "$ref" in ps:
            ps = sch.get(ps["$ref"].split("/")[-1], {})
        if len(ps.get("enum", [])) >= 2:
            return None
        return "tag-lost-on-reencode"
    return None
