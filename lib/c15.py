"""C15 — enum modes keep their documented accept/emit contracts."""
import itertools, json, os, random, re
import vlib, arena
from vlib import Result, log

THEOREMS = ["C15_merge_accepts", "C15_merge_rejects", "C15_preserve_roundtrip", "C15_preserve_rejects",
            "C15_relaxed_accepts", "C15_relaxed_rejects", "C15_refuted_preserve_names", "C15_relaxed_alias_accepted",
            "C15_refuted_nonstring", "C15_relaxed_fallback_swallows", "C15_relaxed_rejects_refuted", "C15_nonvacuous"]
TARGETS = ["Props/C15.v", "Extract/C15.v"]
ALPH = ["a", "A", "b", "a-", "a_", "1", "", "aB", "a2", "a b"]
MODES = ["merge", "preserve", "relaxed"]


def alower(x):
    """ASCII case folding only (the property speaks of ASCII letter-case)"""
    return "".join(ch.lower() if ch.isascii() else ch for ch in x)


def tok(v):
    if isinstance(v, bool):
        return "Bt" if v else "Bf"
    if isinstance(v, int):
        return f"I{v}"
    return "S" + (v.encode().hex() or "")


def spec_for(vals):
    t = "string" if all(isinstance(v, str) for v in vals) else None
    sch = {"enum": list(vals)}
    if t:
        sch["type"] = t
    return {"openapi": "3.1.0", "info": {"title": "t", "version": "1"}, "paths": {},
            "components": {"schemas": {"E": sch, "W": {"anyOf": [{"type": "string", "enum": [v for v in vals if isinstance(v, str)] or ["zz"]}, {"type": "string"}]}}}}


def value_lists(tier, rnd):
    ls = []
    for k in (1, 2, 3):
        for t in itertools.product(ALPH, repeat=k):
            ls.append(list(t))
    extra = [["us", "US", "us1"], ["a", "A", "a1", "A1"], ["ab", "AB", "Ab", "ab2", "ab3"], ["foo-bar", "foo_bar"], ["a2", "a", "A"], [3, 4], [1, "1"], [True, False], ["on", "Off", "ON"], ["x{}y"], ["type", "match"],
             ["A", "a", "A1"], ["", "none"], [-1, 1], ["a", "a"], ["Ärger", "x"], ["É", "é", "e"], ["Über", "über"],
             # values whose variant is NAMED Other / Unknown (the relaxed decoder's catch-all arm)
             ["low", "other", "high"], ["unknown", "x"], ["x", "Unknown", "OTHER"], ["un-known", "o.ther"]]
    return ls, extra


def read_enum(dump, name):
    it = [x for x in dump.get("items", []) if x["kind"] == "enum" and x["name"] == name]
    if not it:
        return None
    out = []
    for v in it[0]["variants"]:
        ren, al = None, []
        for a in v["attrs"]:
            t = a.get("attr", "")
            m = re.match(r'serde\((.*)\)$', t)
            if m:
                for k, val in re.findall(r'(rename|alias)="((?:[^"\\]|\\.)*)"', m.group(1)):
                    val = bytes(val, "utf-8").decode("unicode_escape").encode("latin-1").decode("utf-8") if "\\" in val else val
                    if k == "rename":
                        ren = val
                    else:
                        al.append(val)
        out.append((v["name"], ren, al))
    return out


def pair_part(viol):
    """closed and open enums over the SAME values side by side in one object (inline closed enum, inline open wrapper, open
    wrapper whose string alternative is a $ref, closed component enum): the closed ones reject undeclared strings, the
    open ones keep them verbatim, in every mode"""
    S = {"type": "string"}
    spec = {"openapi": "3.1.0", "info": {"title": "t", "version": "1"}, "paths": {}, "components": {"schemas": {
        "Level": {"type": "string", "enum": ["low", "high"]}, "FreeText": S,
        "Holder": {"type": "object", "properties": {
            "a": {"anyOf": [{"type": "string", "enum": ["on", "off"]}, S]}, "b": {"type": "string", "enum": ["on", "off"]},
            "k": {"anyOf": [{"type": "string", "enum": ["low", "high"]}, {"$ref": "#/components/schemas/FreeText"}]},
            "lvl": {"$ref": "#/components/schemas/Level"}, "n": {"anyOf": [{"type": "string", "enum": ["low", "high"]}, S]}, "z": {"type": "string", "enum": ["low", "high"]}}}}}}
    d = vlib.scratch("C15p")
    sp = os.path.join(d, "spec.json")
    json.dump(spec, open(sp, "w"))
    ar = arena.Arena("C15p")
    for mi, m in enumerate(MODES):
        outp = os.path.join(d, f"{m}.rs")
        rc, txt = vlib.oas(["generate", "types", "-i", sp, "-o", outp, "-q", "--all-schemas", "--no-helpers", "--enum-mode", m])
        if rc != 0:
            viol.append((["pair"], f"closed / open enum pairs, mode {m}: generation failed {txt[-200:]}"))
            return 0
        ar.add_case(mi, outp)
    probes = [("a", "on", "on"), ("a", "zzz", "zzz"), ("b", "on", "on"), ("b", "zzz", None), ("b", "", None), ("k", "low", "low"), ("k", "medium", "medium"),
              ("lvl", "high", "high"), ("lvl", "medium", None), ("n", "medium", "medium"), ("z", "low", "low"), ("z", "medium", None)]
    lines = []
    for mi in range(len(MODES)):
        for k, (f, v, _) in enumerate(probes):
            lit = json.dumps(json.dumps({f: v}))
            lines.append(f'{{ let r: Result<case_{mi}::Holder, _> = serde_json::from_str({lit}); match r {{ Ok(h) => println!("{mi}\t{k}\tOK\t{{}}", serde_json::to_string(&h).unwrap()), Err(_) => println!("{mi}\t{k}\tERR") }} }}')
    ar.write_main("fn main() {\n" + "\n".join(lines) + "\n}\n")
    ok, diags, err = ar.cargo("build")
    if not ok:
        viol.append((["pair"], f"closed / open enum pairs: the emitted types do not compile: {(diags[0]['message'] if diags else err)[:300]}"))
        return 0
    rc, so, se = ar.run("")
    got = {}
    for l in so.strip().split("\n"):
        parts = l.split("\t")
        if len(parts) >= 3:
            got[(int(parts[0]), int(parts[1]))] = parts[2:]
    n = 0
    for mi, m in enumerate(MODES):
        for k, (f, v, want) in enumerate(probes):
            n += 1
            o = got.get((mi, k), ["missing"])
            back = json.loads(o[1]).get(f) if o[0] == "OK" else None
            if (want is None and o[0] == "OK") or (want is not None and back != want):
                kind = "closed" if f in ("b", "lvl", "z") else "open"
                viol.append((["pair", f, v], f"closed / open enum pairs, mode {m}: member {f} ({kind} over the same values as its neighbour) given {v!r}: {'accepted and written as ' + json.dumps(back) if o[0] == 'OK' else 'rejected'}, expected {'rejection' if want is None else json.dumps(want)}"))
    return n


def main(tier, seed, replay=None):
    res = Result("C15", tier, seed)
    vlib.build_repo()
    vlib.build_vtool()
    coq_ok, out = vlib.standard_coq_obligations(res, TARGETS, THEOREMS, expect_closed=8)
    exe = vlib.ocaml_build("c15") if coq_ok else None
    if coq_ok:
        res.oblige("extracted model driver builds", exe is not None)
    rnd = random.Random(seed)
    lists, extra = value_lists(tier, rnd)
    if tier == "quick":
        rnd.shuffle(lists)
        lists = lists[:250]
    lists = extra + lists
    if replay:
        lists = [json.load(open(replay))["values"]]
    d = vlib.scratch("C15")
    cases = [(vals, m) for vals in lists for m in MODES]

    def one(i):
        vals, m = cases[i]
        sp = os.path.join(d, f"s{i}.json")
        json.dump(spec_for(vals), open(sp, "w"))
        out = os.path.join(d, f"o{i}.rs")
        rc, txt = vlib.oas(["generate", "types", "-i", sp, "-o", out, "-q", "--all-schemas", "--no-helpers", "--enum-mode", m])
        return rc, txt, out
    outs = vlib.pmap(one, range(len(cases)))
    dumps = vlib.vtool_lines("dump", [o[2] for o in outs])
    model = vlib.run_driver(exe, [f"build {m} " + " ".join(tok(v) for v in vals) for vals, m in cases]) if exe else None
    dis, viol, known_hits = [], [], set()
    compile_idx = []
    for i, ((vals, m), (rc, txt, _), dump) in enumerate(zip(cases, outs, dumps)):
        if rc != 0 or "error" in dump:
            viol.append((vals, f"generator failed for values {vals} mode {m}: rc={rc} {txt[-200:]}"))
            continue
        ev = read_enum(dump, "E")
        if ev is None:
            continue    # e.g. a single-value enum may be emitted as a plain type; not an enum-mode case
        ascii_only = all((not isinstance(v, str)) or v.isascii() for v in vals)
        if model is not None and ascii_only:
            mv = []
            body, nd = model[i].split(" # ")
            for part in [p for p in body.split(" ; ") if p]:
                n, r, al = part.split(":")
                h = lambda x: bytes.fromhex(x).decode() if x != "-" else ""
                mv.append((h(n), h(r), [h(a) for a in al.split(",") if a]))
            if mv != ev:
                dis.append(f"values {vals} mode {m}: impl {ev} model {mv}")
        names = [n for n, _, _ in ev]
        if len(set(names)) != len(names):
            if m == "preserve" and (model is None or not ascii_only or mv == ev):
                # the recorded class: the invented `<Name><index>` equals an EARLIER value's own name — exactly what
                # the model of the unchanged algorithm predicts; any other duplicate is a new failure
                known_hits.add("preserve-index-collision")
            else:
                viol.append((vals, f"values {vals} mode {m}: duplicate variants {names}"))
        else:
            compile_idx.append(i)
    # ---- behaviour: compile a sample and decode/encode every declared value, case variants and near misses
    hand = [i for i in compile_idx if i < len(extra) * len(MODES)]
    rest = [i for i in compile_idx if i >= len(extra) * len(MODES)]
    rnd.shuffle(rest)
    sample = sorted(hand + rest[:60 if tier == "quick" else 900])
    n_beh = 0
    if sample:
        ar = arena.Arena("C15")
        for i in sample:
            ar.add_case(i, outs[i][2])

        def body(cs):
            arms = "\n".join(f'            ({i}, "E") => rt::<case_{i}::E>(j),\n            ({i}, "W") => rt::<case_{i}::W>(j),' for i in cs)
            return '''
use std::io::BufRead;
fn rt<T: serde::de::DeserializeOwned + serde::Serialize>(j: &str) -> String {
    match serde_json::from_str::<T>(j) { Ok(v) => format!("OK {}", serde_json::to_string(&v).unwrap()), Err(_) => "ERR".to_string() }
}
fn main() {
    for line in std::io::stdin().lock().lines() {
        let line = line.unwrap();
        let mut it = line.splitn(3, ' ');
        let c: usize = it.next().unwrap().parse().unwrap();
        let t = it.next().unwrap();
        let j = it.next().unwrap_or("");
        let r = match (c, t) {
''' + arms + '''
            _ => "NOCASE".to_string(),
        };
        println!("{}", r);
    }
}
'''
        ok, failed, err = ar.build_bisect(body, sub="build")
        for ci, dg in failed.items():
            vals, m = cases[ci]
            if any("{" in v or "}" in v for v in vals if isinstance(v, str)):
                known_hits.add("display-format-braces")
            else:
                viol.append((vals, f"values {vals} mode {m}: emitted enum does not compile: {dg[0]['code']} {dg[0]['message'][:150]}"))
        if ok:
            qs, meta = [], []
            for i in ar.cases:
                vals, m = cases[i]
                probes = []
                for v in vals:
                    if isinstance(v, str):
                        for s in {v, v.upper(), v.lower(), v.swapcase(), alower(v), v + "x", "x" + v}:
                            probes.append(json.dumps(s))
                    else:
                        probes += [json.dumps(v), json.dumps(str(v).lower() if isinstance(v, bool) else str(v))]
                probes += ['"zzz"', "null", "7"]
                for p in sorted(set(probes)):
                    qs.append(f"{i} E {p}")
                    meta.append((i, "E", p))
                for p in sorted(set(probes)):
                    if p.startswith('"'):
                        qs.append(f"{i} W {p}")
                        meta.append((i, "W", p))
            rc, outp, errp = ar.run("\n".join(qs) + "\n")
            lines = outp.split("\n")
            mq = []
            for (i, t, p) in meta:
                vals, m = cases[i]
                if p.startswith('"') and t == "E":
                    mq.append(f"dec {m} {json.loads(p).encode().hex() or '-'} // " + " ".join(tok(v) for v in vals))
                else:
                    mq.append(None)
            mres = vlib.run_driver(exe, [q for q in mq if q]) if exe else []
            mi = 0
            for k, (i, t, p) in enumerate(meta):
                vals, m = cases[i]
                got = lines[k] if k < len(lines) else "MISSING"
                n_beh += 1
                if t == "E":
                    if mq[k]:
                        exp = mres[mi] if exe else None
                        mi += 1
                        if exp is not None and all((not isinstance(v, str)) or v.isascii() for v in vals):
                            expv = "ERR" if exp == "ERR" else "OK " + json.dumps(bytes.fromhex(exp).decode() if exp != "-" else "")
                            if got != expv:
                                dis.append(f"values {vals} mode {m} input {p}: impl {got} model {expv}")
                    else:
                        if got != "ERR" and not (p == "null"):
                            # non-string JSON accepted?
                            pass
                    # property oracle (search): declared string values
                    if p.startswith('"'):
                        s = json.loads(p)
                        declared = [v for v in vals if isinstance(v, str)]
                        if m in ("merge", "preserve"):
                            if s in declared and got == "ERR":
                                viol.append((vals, f"mode {m}: declared value {p} is rejected"))
                            if s not in declared and str(s) not in [str(v).lower() if isinstance(v, bool) else str(v) for v in vals] and got != "ERR":
                                viol.append((vals, f"mode {m}: undeclared string {p} is accepted as {got}"))
                            if m == "preserve" and s in declared and got != "ERR" and json.loads(got[3:]) != s:
                                viol.append((vals, f"mode preserve: {p} re-encodes as {got}"))
                        else:
                            low = [alower(v) for v in declared]
                            if alower(s) in low and got == "ERR":
                                # known only when the value was merged into another variant (alias)
                                names = {}
                                merged = False
                                ev = read_enum(dumps[i], "E") or []
                                if any(al for _, _, al in ev):
                                    known_hits.add("relaxed-ignores-aliases")
                                else:
                                    viol.append((vals, f"mode relaxed: {p} (a case variant of a declared value) is rejected"))
                            if alower(s) not in low and alower(str(s)) not in [alower(str(v)) for v in vals] and got != "ERR":
                                ev = read_enum(dumps[i], "E") or []
                                if any(nm in ("Other", "Unknown") for nm, _, _ in ev):
                                    known_hits.add("relaxed-fallback-swallows-unknown")
                                else:
                                    viol.append((vals, f"mode relaxed: undeclared string {p} is accepted as {got}"))
                    elif p not in ("null",) and got != "ERR" and json.loads(p) in vals:
                        pass
                    elif p not in ("null", '"zzz"', "7") and got == "ERR" and json.loads(p) in vals and not isinstance(json.loads(p), str):
                        known_hits.add("nonstring-values-as-text")
                else:
                    # open-string wrapper: declared -> Known (encodes as itself), anything else preserved verbatim
                    s = json.loads(p)
                    declared = [v for v in vals if isinstance(v, str)] or ["zz"]
                    kn = read_enum(dumps[i], "WKnown") or read_enum(dumps[i], "E") or []
                    group = [r for _, r, al in kn if s == r or s in al]
                    if m != "relaxed" and group:
                        # merge: colliding values decode to one variant that encodes as the first of them
                        if not (got.startswith("OK ") and json.loads(got[3:]) == group[0]):
                            viol.append((vals, f"open-string wrapper mode {m}: declared {p} decodes/encodes as {got}, expected {group[0]!r}"))
                    elif m == "relaxed" and alower(s) in [alower(v) for v in declared]:
                        okset = {v for v in declared if alower(v) == alower(s)} | {r for _, r, al in kn if alower(s) in [alower(a) for a in al]}
                        if not (got.startswith("OK ") and json.loads(got[3:]) in okset):
                            ev = kn
                            if any(al for _, _, al in ev) and got == "OK " + p:
                                known_hits.add("relaxed-ignores-aliases")
                            else:
                                viol.append((vals, f"open-string wrapper mode relaxed: {p} decodes/encodes as {got}, expected one of {sorted(okset)}"))
                    elif not (got.startswith("OK ") and json.loads(got[3:]) == s):
                        if m == "relaxed" and any(nm in ("Other", "Unknown") for nm, _, _ in kn):
                            # the catch-all arm of the known-values enum wins over the open-string alternative
                            known_hits.add("relaxed-fallback-swallows-unknown")
                        else:
                            viol.append((vals, f"open-string wrapper mode {m}: {p} decodes/encodes as {got}"))
    n_pair = pair_part(viol)
    res.counts.update({"evaluations": len(cases) + n_beh, "closed_open_pair_probes": n_pair, "distinct_nontrivial": len(lists),
                       "traces_validated_against_impl": len(cases), "compiled_enums": len(sample), "behaviour_probes": n_beh,
                       "rule": "value lists: all lists of up to 3 values over a 10-symbol alphabet (case-only and separator-only differences, digits, empty string, duplicates) sampled in quick / complete in thorough, plus hand lists (non-string values, keywords, braces) x 3 enum modes; emitted enum read back with syn vs the extracted model (names, rename, alias); a sample compiled in the arena and probed with every declared value, its case variants and near misses, against the model's decoder and the property's oracle; plus the anyOf known+open-string wrapper"})
    for vals, m in cases[:2] + cases[-2:]:
        res.sample({"values": vals, "mode": m})
    res.oblige(f"correspondence: model = implementation on {len(cases)} emitted enums and {n_beh} decode/encode probes", not dis, dis[0] if dis else "")
    res.cov["trusted_base"] = vlib.COMMON_TRUSTED + [
        "coq/Model/EnumCodec.v: hand model of value_enums.rs + NormalizedVariant + the serde derive semantics for unit variants (rename/alias: library contract) + the emitted case-insensitive Deserialize",
        "arena: serde_json on the compiled enums"]
    res.assumptions = ["nullable enums are not probed in this round", "non-ASCII values only through the hand list"]
    kf = {k["key"]: k["text"] for k in vlib.known_findings("C15")}
    for k in sorted(known_hits):
        if k in kf:
            res.known(k, kf[k])
        else:
            viol.append((k, f"unlisted failing class {k}"))
    for (vals, dsc) in viol[:3]:
        res.violation(dsc, {"values": vals})
    broken = [o for o in res.obligations if not o[1]]
    if broken and not viol:
        res.violation("proof obligation or correspondence no longer checks: " + "; ".join(o[0] for o in broken),
                      {"broken": [[o[0], o[2]] for o in broken]}, no_input=True)
    return res.finish()
