"""C12 — generation always ends cleanly: no panic, abort or hang, no half-written output."""
import copy, json, os, random, re, shutil, stat, subprocess, time
import vlib, specgen, inv
from vlib import Result, log

THEOREMS = ["C12_depth_terminates_on_acyclic_allof", "C12_depth_diverges", "C12_worklist_terminates",
            "C12_no_write_on_generate_failure", "C12_all_files_on_success", "C12_atomic_refuted", "C12_nonvacuous"]
TARGETS = ["Props/C12.v"]
MODES = ["types", "client", "client-mod", "server-mod"]
TIMEOUT = 20


def schemas(spec):
    return spec.setdefault("components", {}).setdefault("schemas", {})


def m_allof_cycle(spec, rnd):
    s = schemas(spec)
    s["CycA"] = {"allOf": [{"$ref": "#/components/schemas/CycB"}], "type": "object", "properties": {"a": {"type": "string"}}}
    s["CycB"] = {"allOf": [{"$ref": "#/components/schemas/CycA"}], "type": "object", "properties": {"b": {"type": "string"}}}
    return "allof-cycle"


def m_self_ref(spec, rnd):
    schemas(spec)["Selfish"] = {"$ref": "#/components/schemas/Selfish"}
    return "self-ref"


def m_dangling(spec, rnd):
    s = schemas(spec)
    s["Dangler"] = {"type": "object", "properties": {"x": {"$ref": "#/components/schemas/DoesNotExist"}}}
    return "dangling-ref"


def m_delete_schema(spec, rnd):
    s = schemas(spec)
    if s:
        del s[rnd.choice(sorted(s))]
    return "delete-schema"


def m_empty_names(spec, rnd):
    s = schemas(spec)
    s[""] = {"type": "object", "properties": {"": {"type": "string"}, "-": {"type": "integer"}}}
    return "empty-names"


def m_huge_name(spec, rnd):
    schemas(spec)["N" + "a" * 6000] = {"type": "object", "properties": {"p" * 3000: {"type": "string"}}}
    return "huge-name"


def m_keyword_names(spec, rnd):
    s = schemas(spec)
    nm = rnd.choice(["Self", "self", "crate", "super", "type"])
    if rnd.random() < 0.5:
        s[nm] = {"type": "object", "properties": {"x": {"type": "string"}}}
    else:
        s["Kw"] = {"type": "object", "properties": {nm: {"type": "string"}}}
    return "keyword-name:" + nm


def m_methods(spec, rnd):
    m = rnd.choice(["options", "trace", "head"])
    spec.setdefault("paths", {}).setdefault("/m", {})[m] = {"operationId": "m" + m, "responses": {"200": {"description": "ok"}}}
    return "method:" + m


def m_deep_nesting(spec, rnd):
    cur = {"type": "string"}
    for i in range(rnd.choice([30, 120])):
        cur = {"type": "object", "properties": {"n": cur}} if i % 2 else {"type": "array", "items": cur}
    schemas(spec)["Deep"] = cur
    return "deep-nesting"


def m_contradictory(spec, rnd):
    schemas(spec)["Odd"] = {"type": "object", "required": ["ghost"], "properties": {"n": {"type": "integer", "minimum": 10, "maximum": 1, "multipleOf": 0},
                                                                                  "s": {"type": "string", "minLength": 9, "maxLength": 2, "pattern": "(["}}}
    return "contradictory-constraints"


def m_type_confusion(spec, rnd):
    s = schemas(spec)
    s["Confused"] = rnd.choice([{"type": "object", "properties": {"a": {"type": "array"}}}, {"type": "array"},
                                {"type": ["string", "integer", "null"]}, {"enum": []}, {"oneOf": []}, {"allOf": []},
                                {"type": "object", "additionalProperties": {"$ref": "#/components/schemas/Confused"}},
                                {"type": "string", "enum": ["a", 1, None, {"x": 1}, [2]]}])
    return "type-confusion"


def m_generic_variant_name(spec, rnd):
    spec.setdefault("paths", {})["/gv"] = {"get": {"operationId": "gv", "responses": {"400": {"description": "e", "content": {
        "application/json": {"schema": {"type": "array", "items": {"type": "string"}}},
        "application/problem+json": {"schema": {"type": "object", "properties": {"m": {"type": "string"}}}}}}}}}
    return "response-schema-suffix"


def m_duplicate_operations(spec, rnd):
    """k copies of one operation under new paths and ids: identical response sets, request shapes and inline types
    (exercises every de-duplication pass with more than one duplicate)"""
    import copy
    paths = spec.setdefault("paths", {})
    cands = [(p, m, op) for p, it in paths.items() if isinstance(it, dict) for m, op in it.items()
             if m in ("get", "post", "put", "delete", "patch") and isinstance(op, dict) and "{" not in p]
    k = rnd.choice([2, 3, 4])
    if not cands:
        base = {"responses": {"200": {"description": "ok", "content": {"application/json": {"schema": {"type": "object", "properties": {"v": {"type": "string", "enum": ["a", "b"]}}}}}},
                              "404": {"description": "nf", "content": {"application/json": {"schema": {"type": "object", "properties": {"msg": {"type": "string"}}}}}}}}
        cands = [("/dup", "get", base)]
        paths["/dup"] = {"get": dict(base, operationId="dup_base")}
    p, m, op = rnd.choice(cands)
    for i in range(k):
        c = copy.deepcopy(op)
        c["operationId"] = f"{op.get('operationId', 'op')}_copy{i}"
        paths[f"{p}/copy{i}"] = {m: c}
    return f"duplicate-operations:{k}"


def m_duplicate_schemas(spec, rnd):
    import copy
    s = schemas(spec)
    names = [n for n in s if isinstance(s[n], dict)]
    if not names:
        return "duplicate-schemas:0"
    k = rnd.choice([2, 3])
    n = rnd.choice(names)
    for i in range(k):
        s[f"{n}Copy{i}"] = copy.deepcopy(s[n])
    return f"duplicate-schemas:{k}"


def m_allof_union_children(spec, rnd):
    """a schema that has both allOf and oneOf/anyOf $refs whose targets inherit from it again (the allOf edges alone
    are acyclic)"""
    s = schemas(spec)
    kw = rnd.choice(["anyOf", "oneOf"])
    s["MBase"] = {"type": "object", "properties": {"id": {"type": "string"}}}
    s["MShape"] = {"allOf": [{"$ref": "#/components/schemas/MBase"}, {"type": "object", "properties": {"k": {"type": "string"}}}],
                   kw: [{"$ref": "#/components/schemas/MCircle"}, {"$ref": "#/components/schemas/MSquare"}]}
    s["MCircle"] = {"allOf": [{"$ref": "#/components/schemas/MShape"}, {"type": "object", "properties": {"r": {"type": "number"}}}]}
    s["MSquare"] = {"allOf": [{"$ref": "#/components/schemas/MShape"}, {"type": "object", "properties": {"side": {"type": "number"}}}]}
    return "allof-union-children:" + kw


def m_empty_operation_id(spec, rnd):
    """an operation whose operationId is the empty string (or only separators), registered after a normal one"""
    paths = spec.setdefault("paths", {})
    paths.setdefault("/aaa-first", {})["get"] = {"operationId": "first_normal_op", "responses": {"200": {"description": "ok"}}}
    oid = rnd.choice(["_", "-", "__", " "])
    paths.setdefault("/zzz-empty", {})["get"] = {"operationId": "", "responses": {"200": {"description": "ok"}}}
    paths.setdefault("/zzz-sep", {})["get"] = {"operationId": oid, "responses": {"200": {"description": "ok"}}}
    return "empty-operation-id:" + repr(oid)


MUTATORS = [m_duplicate_operations, m_duplicate_schemas, m_allof_union_children, m_empty_operation_id, m_allof_cycle, m_self_ref, m_dangling, m_delete_schema, m_empty_names, m_huge_name, m_keyword_names, m_methods,
            m_deep_nesting, m_contradictory, m_type_confusion, m_generic_variant_name]


def snapshot(path):
    out = {}
    if os.path.isdir(path):
        for root, _, files in os.walk(path):
            for f in files:
                p = os.path.join(root, f)
                out[os.path.relpath(p, path)] = (os.path.getsize(p), open(p, "rb").read()[:64])
    elif os.path.exists(path):
        out["."] = (os.path.getsize(path), open(path, "rb").read()[:64])
    return out


def refs_in(x):
    out = set()
    if isinstance(x, dict):
        if isinstance(x.get("$ref"), str):
            out.add(x["$ref"].split("/")[-1])
        for v in x.values():
            out |= refs_in(v)
    elif isinstance(x, list):
        for v in x:
            out |= refs_in(v)
    return out


def inline_union_member_refs(x, top=True):
    """$ref members of oneOf/anyOf unions that sit *inside* a schema (not the schema itself being the union)"""
    out = set()
    if isinstance(x, dict):
        for k, v in x.items():
            if k in ("oneOf", "anyOf") and not top and isinstance(v, list):
                out |= {m["$ref"].split("/")[-1] for m in v if isinstance(m, dict) and isinstance(m.get("$ref"), str)}
            out |= inline_union_member_refs(v, False)
    elif isinstance(x, list):
        for v in x:
            out |= inline_union_member_refs(v, False)
    return out


def has_recursive_inline_union(spec):
    """some component contains an inline union with a member that refers back (directly or transitively) to it"""
    comps = spec.get("components", {}).get("schemas", {})
    graph = {k: refs_in(v) & set(comps) for k, v in comps.items()}

    def reaches(a, b, seen=None):
        seen = seen or set()
        if a == b:
            return True
        seen.add(a)
        return any(reaches(n, b, seen) for n in graph.get(a, ()) if n not in seen)
    return any(reaches(r, k) for k, v in comps.items() for r in inline_union_member_refs(v) if r in comps)


def has_allof_cycle(spec):
    """some component reaches itself through $ref members of allOf (directly or transitively)"""
    comps = spec.get("components", {}).get("schemas", {})
    parents = {}
    for k, v in comps.items():
        ps = set()
        if isinstance(v, dict):
            for m in v.get("allOf", []) or []:
                if isinstance(m, dict) and isinstance(m.get("$ref"), str):
                    ps.add(m["$ref"].split("/")[-1])
        parents[k] = ps
    for k in comps:
        seen, todo = set(), list(parents.get(k, ()))
        while todo:
            u = todo.pop()
            if u == k:
                return True
            if u in seen:
                continue
            seen.add(u)
            todo.extend(parents.get(u, ()))
    return False


def has_recursive_array_alias(spec):
    """a component `{type: array, items: $ref X}` that reaches itself through such array components only"""
    comps = spec.get("components", {}).get("schemas", {})
    nxt = {}
    for k, v in comps.items():
        if isinstance(v, dict) and not v.get("properties") and isinstance(v.get("items"), dict) and isinstance(v["items"].get("$ref"), str):
            nxt[k] = v["items"]["$ref"].split("/")[-1]
    for k in nxt:
        seen, u = set(), nxt[k]
        while u in nxt and u not in seen:
            if u == k:
                return True
            seen.add(u)
            u = nxt[u]
        if u == k:
            return True
    return False


def classify(tags, mode, rc, out, spec=None):
    """known-finding key for a crash, by the mutator that was applied and the panic message (narrow)"""
    if rc in (-6, 134, -11, 139) or "stack overflow" in out:
        if "allof-cycle" in tags or (spec is not None and has_allof_cycle(spec)):
            return "allof-cycle-stack-overflow"
        if "self-ref" in tags:
            return "self-ref-stack-overflow"
        if spec is not None and has_recursive_array_alias(spec):
            return "recursive-array-alias-stack-overflow"
        if spec is not None and has_recursive_inline_union(spec):
            return "recursive-union-helpers-stack-overflow"
    if "panicked" in out:
        if "cannot be a raw identifier" in out and any(t.startswith("keyword-name:") and t.split(":")[1] in ("Self", "self", "crate", "super") for t in tags):
            return "raw-identifier-panic"
        if "reqwest::Method::" in out and mode in ("client", "client-mod") and any(t in ("method:options", "method:trace") for t in tags):
            return "options-trace-client-panic"
        if 'is not a valid Ident' in out or "not a valid identifier" in out:
            if "response-schema-suffix" in tags:
                return "response-variant-name-generic"
            if "empty-names" in tags:
                return "raw-identifier-panic"
    return None


def main(tier, seed, replay=None):
    res = Result("C12", tier, seed)
    vlib.build_repo()
    coq_ok, out = vlib.standard_coq_obligations(res, TARGETS, THEOREMS, expect_closed=4)
    cur = inv.current()
    ok, detail, n, gone = inv.compare("panic", cur)
    res.oblige(f"inventory: every potential panic site in non-test source ({n} site keys) is in the reviewed list with its discharge argument", ok, detail)
    rnd = random.Random(seed)
    d = vlib.scratch("C12")
    cases = []
    nbase = 10 if tier == "quick" else 60
    for i in range(nbase):
        base, _ = specgen.gen_spec(seed * 50 + i)
        cases.append((copy.deepcopy(base), ["unmutated"]))
        for mut in MUTATORS:
            s = copy.deepcopy(base)
            tag = mut(s, rnd)
            cases.append((s, [tag]))
        for _ in range(2):
            s = copy.deepcopy(base)
            tags = [m(s, rnd) for m in rnd.sample(MUTATORS, 2)]
            cases.append((s, tags))
    cases.append(({"openapi": "3.1.0", "info": {"title": "t", "version": "1"}, "paths": {}, "components": {"schemas": {
        "Error": {"type": "object", "properties": {"kind": {"oneOf": [{"$ref": "#/components/schemas/Error"}, {"type": "string"}]}}}}}}, ["witness:recursive-inline-union"]))
    cases.append(({"openapi": "3.1.0", "info": {"title": "t", "version": "1"}, "paths": {}, "components": {"schemas": {
        "Self": {"type": "object", "properties": {"crate": {"type": "string"}}}}}}, ["keyword-name:Self"]))
    okr0 = {"200": {"description": "ok"}}
    # one status, several media types of one category whose schemas are wrapper types (variant names derive from the Rust type)
    mm = lambda sch: {"schema": sch}
    cases.append(({"openapi": "3.1.0", "info": {"title": "t", "version": "1"}, "paths": {"/x": {"get": {"operationId": "get_x", "responses": {"200": {"description": "ok", "content": {
        "application/json": mm({"type": "array", "items": {"type": "string"}}), "application/vnd.api+json": mm({"$ref": "#/components/schemas/Doc"}),
        "application/problem+json": mm({"type": "object", "additionalProperties": {"type": "integer"}}), "text/plain": mm({"type": "string"}), "text/csv": mm({"type": "array", "items": {"type": "integer"}})}}}}}},
        "components": {"schemas": {"Doc": {"type": "object", "properties": {"k": {"type": ["string", "null"]}}}}}}, ["ops:same-category-media-types"]))
    # undeclared template variables whose names are not identifiers and coincide with parameters in other locations
    cases.append(({"openapi": "3.1.0", "info": {"title": "t", "version": "1"}, "paths": {
        "/items/{item-id}": {"get": {"operationId": "get_item", "parameters": [{"name": "item-id", "in": "query", "schema": {"type": "string"}}], "responses": okr0}},
        "/h/{X-Key}/{type}": {"parameters": [{"name": "X-Key", "in": "header", "schema": {"type": "string"}}],
                              "get": {"operationId": "get_h", "parameters": [{"name": "type", "in": "query", "schema": {"type": "integer"}}], "responses": okr0}}},
        "components": {"schemas": {}}}, ["ops:undeclared-path-variables-named-like-other-parameters"]))
    # schema names that are not Rust identifiers, a named union and the same references written inline
    cases.append(({"openapi": "3.1.0", "info": {"title": "t", "version": "1"}, "paths": {"/o": {"get": {"operationId": "get_order", "responses": {"200": {"description": "ok", "content": {"application/json": {"schema": {"$ref": "#/components/schemas/order"}}}}}}}},
                   "components": {"schemas": {"card-pay": {"type": "object", "properties": {"pan": {"type": "string"}}}, "bank.pay": {"type": "object", "properties": {"iban": {"type": "string"}}},
                                              "payment-method": {"oneOf": [{"$ref": "#/components/schemas/card-pay"}, {"$ref": "#/components/schemas/bank.pay"}]},
                                              "1st-choice": {"anyOf": [{"$ref": "#/components/schemas/card-pay"}, {"$ref": "#/components/schemas/bank.pay"}]},
                                              "order": {"type": "object", "properties": {"primary": {"$ref": "#/components/schemas/payment-method"},
                                                                                        "fallback": {"oneOf": [{"$ref": "#/components/schemas/card-pay"}, {"$ref": "#/components/schemas/bank.pay"}]},
                                                                                        "other": {"type": "array", "items": {"anyOf": [{"$ref": "#/components/schemas/bank.pay"}, {"$ref": "#/components/schemas/card-pay"}]}}}}}}},
                  ["ops:raw-schema-names-in-unions"]))
    # names inferred for inline array-item unions / objects that collide with component names (EntryKind, OrderLine, ...)
    cases.append(({"openapi": "3.1.0", "info": {"title": "t", "version": "1"}, "paths": {"/l": {"get": {"operationId": "get_log", "responses": {"200": {"description": "ok", "content": {"application/json": {"schema": {"$ref": "#/components/schemas/Log"}}}}}}}},
                   "components": {"schemas": {"EntryKind": {"type": "object", "properties": {"code": {"type": "integer"}}}, "LogEntryKind": {"type": "string", "enum": ["a", "b"]},
                                              "LogLine": {"type": "object", "properties": {"legacy": {"type": "string"}}},
                                              "Log": {"type": "object", "properties": {"kind": {"$ref": "#/components/schemas/EntryKind"}, "kind2": {"$ref": "#/components/schemas/LogEntryKind"}, "line": {"$ref": "#/components/schemas/LogLine"},
                                                                                       "entries": {"type": "array", "items": {"oneOf": [{"type": "string"}, {"type": "integer"}]}},
                                                                                       "lines": {"type": "array", "items": {"type": "object", "properties": {"n": {"type": "integer"}}}},
                                                                                       "kinds": {"type": "array", "items": {"anyOf": [{"type": "boolean"}, {"type": "number"}]}}}}}}},
                  ["ops:inferred-names-collide-with-components"]))
    # a deep acyclic schema graph with exponentially many reference paths (40 tiers of 2 schemas, each referring to both of the next tier)
    tiers = 40
    dsch = {}
    for t in range(tiers):
        for k in (0, 1):
            props = {"v": {"type": "string"}}
            if t + 1 < tiers:
                props.update({"l": {"$ref": f"#/components/schemas/T{t + 1}x0"}, "r": {"$ref": f"#/components/schemas/T{t + 1}x1"}})
            dsch[f"T{t}x{k}"] = {"type": "object", "properties": props}
    cases.append(({"openapi": "3.1.0", "info": {"title": "t", "version": "1"}, "paths": {"/top": {"get": {"operationId": "get_top", "responses": {"200": {"description": "ok", "content": {"application/json": {"schema": {"$ref": "#/components/schemas/T0x0"}}}}}}}},
                   "components": {"schemas": dsch}}, ["ops:deep-diamond-graph"]))
    # small fixed specs around degenerate operation ids (empty / separator-only ids next to ids that share affixes)
    okr = {"200": {"description": "ok"}}
    for ids in (["get_item_1", "get_item_2"], ["v1_list", "v1_2"], ["shape_list", "shape_type"], ["x_self", "x_crate", "x_super"], ["first_normal_op", ""], ["", "first_normal_op"], ["list_items_op", "get_items_op", ""], ["a_b", "_", "-"], ["", ""], ["x", "x_", "_x"]):
        paths = {f"/p{k}": {"get": {"operationId": oid, "responses": okr}} for k, oid in enumerate(ids)}
        cases.append(({"openapi": "3.1.0", "info": {"title": "t", "version": "1"}, "paths": paths, "components": {"schemas": {}}}, ["degenerate-ids:" + repr(ids)]))
    if replay:
        r = json.load(open(replay))
        cases = [(r["spec"], r.get("tags", ["replay"]))]
    jobs = [(ci, mode) for ci in range(len(cases)) for mode in (MODES if tier == "thorough" else [MODES[(ci + k) % 4] for k in (0, 2)])]

    def one(j):
        ci, mode = j
        spec, tags = cases[ci]
        base = os.path.join(d, f"c{ci}_{mode}")
        os.makedirs(base, exist_ok=True)
        sp = os.path.join(base, "spec.json")
        json.dump(spec, open(sp, "w"))
        outp = os.path.join(base, "out" if mode.endswith("-mod") else "out.rs")
        t0 = time.time()
        # fixed specs tagged ops: have operations of their own and run with the default (reachability-based) scope
        extra = ["--all-schemas"] if ((ci + MODES.index(mode)) % 2 == 0 or tags != ["unmutated"]) and not tags[0].startswith("ops:") else []
        rc, txt = vlib.oas(["generate", mode, "-i", sp, "-o", outp, "-q"] + extra, timeout=TIMEOUT)
        dt = time.time() - t0
        rc2, txt2 = vlib.oas(["list", "operations", "-i", sp, "--color", "never"], timeout=TIMEOUT)
        return rc, txt[-600:], dt, snapshot(outp), rc2, txt2[-300:]
    results = vlib.pmap(one, jobs)
    viol, known_hits = [], set()
    dist = {}
    for (ci, mode), (rc, txt, dt, snap, rc2, txt2) in zip(jobs, results):
        spec, tags = cases[ci]
        for t in tags:
            dist[t.split(":")[0]] = dist.get(t.split(":")[0], 0) + 1
        crashed = rc == -999 or rc < 0 or rc in (101, 134, 139) or "panicked" in txt or "stack overflow" in txt
        if crashed:
            key = classify(tags, mode, rc, txt, spec)
            if key:
                known_hits.add(key)
            else:
                what = "hang (timeout)" if rc == -999 else f"crash rc={rc}"
                viol.append((spec, tags, mode, f"generate {mode}: {what} on a spec with {tags}: {txt[-250:]}"))
        if rc != 0 and snap:
            viol.append((spec, tags, mode, f"generate {mode} failed (rc={rc}) but left output behind: {sorted(snap)}"))
        if rc == 0:
            want = {"types": ["."], "client": ["."], "client-mod": ["client.rs", "mod.rs", "types.rs"], "server-mod": ["mod.rs", "server.rs", "types.rs"]}[mode]
            if sorted(snap) != want or any(sz == 0 for sz, _ in snap.values()):
                viol.append((spec, tags, mode, f"generate {mode} exited 0 but the promised files are {want}, found {sorted(snap)}"))
        if rc2 == -999 or rc2 < 0 or rc2 in (101, 134, 139) or "panicked" in txt2:
            key = classify(tags, "list", rc2, txt2, spec)
            if key:
                known_hits.add(key)
            else:
                viol.append((spec, tags, "list", f"list operations crashed rc={rc2} on a spec with {tags}: {txt2[-200:]}"))
    # ---- output targets that cannot be written: nothing half-written
    base, _ = specgen.gen_spec(seed * 50)
    sp = os.path.join(d, "ok.json")
    json.dump(base, open(sp, "w"))
    n_fs = 0
    # (a) output path's parent is a regular file
    blocker = os.path.join(d, "blocker")
    open(blocker, "w").write("x")
    for mode in MODES:
        n_fs += 1
        target = os.path.join(blocker, "out" if mode.endswith("-mod") else "out.rs")
        rc, txt = vlib.oas(["generate", mode, "-i", sp, "-o", target, "-q"], timeout=TIMEOUT)
        if rc == 0 or rc < 0 or "panicked" in txt:
            viol.append((base, ["unwritable-parent"], mode, f"generate {mode} into a path under a regular file: rc={rc} {txt[-200:]}"))
        if open(blocker).read() != "x":
            viol.append((base, ["unwritable-parent"], mode, "the blocking file was modified"))
    # (b) module modes: the second file's name is taken by a directory -> the write sequence fails half-way
    for mode, second in (("client-mod", "client.rs"), ("server-mod", "server.rs")):
        n_fs += 1
        outd = os.path.join(d, f"half_{mode}")
        os.makedirs(os.path.join(outd, second), exist_ok=True)
        before = snapshot(outd)
        rc, txt = vlib.oas(["generate", mode, "-i", sp, "-o", outd, "-q"], timeout=TIMEOUT)
        after = snapshot(outd)
        if rc == 0:
            viol.append((base, ["second-write-fails"], mode, f"generate {mode} exited 0 although {second} could not be written"))
        elif after != before:
            known_hits.add("non-atomic-module-write")
    # (c) --doc-format: documentation goes through an external `mdformat`; with a stand-in on PATH (and with none) every mode ends cleanly
    stub = os.path.join(d, "stubbin")
    os.makedirs(stub, exist_ok=True)
    open(os.path.join(stub, "mdformat"), "w").write("#!/bin/sh\nexec cat\n")
    os.chmod(os.path.join(stub, "mdformat"), 0o755)
    long_text = "A fairly long description that goes well beyond one hundred characters so that the formatter is really invoked for it. " * 2
    dspec = {"openapi": "3.1.0", "info": {"title": "Docs", "version": "1", "description": long_text}, "paths": {"/d": {"get": {"operationId": "get_doc", "summary": "s", "description": long_text,
             "responses": {"200": {"description": long_text, "content": {"application/json": {"schema": {"$ref": "#/components/schemas/Doc"}}}}}}}},
             "components": {"schemas": {"Doc": {"type": "object", "description": long_text, "properties": {"k": {"type": "string", "description": long_text}}}}}}
    dsp = os.path.join(d, "docs.json")
    json.dump(dspec, open(dsp, "w"))
    for mode in MODES:
        for label, path_env in (("stand-in", stub + os.pathsep + os.environ.get("PATH", "")), ("absent", stub + "-none")):
            n_fs += 1
            outp = os.path.join(d, f"doc_{mode}_{label}" + ("" if mode.endswith("-mod") else ".rs"))
            rc, txt = vlib.oas(["generate", mode, "-i", dsp, "-o", outp, "-q", "--doc-format"], timeout=60, env=dict(vlib.ENV, PATH=path_env))
            snap = snapshot(outp)
            if rc != 0 or "panicked" in txt or not snap:
                viol.append((dspec, ["--doc-format", f"mdformat {label}"], mode, f"generate {mode} --doc-format (mdformat {label}): rc={rc}, files {sorted(snap)}: {txt[-250:]}"))
    res.counts.update({"evaluations": len(jobs) + n_fs, "distinct_nontrivial": len(cases), "input_distribution": dist,
                       "traces_validated_against_impl": len(jobs),
                       "rule": "feature-grammar specs passed through 12 structure-aware mutators (allOf cycles, self / dangling refs, deletion, empty and huge names, keyword names, OPTIONS/TRACE/HEAD methods, deep nesting, contradictory constraints, type confusion, schema-suffixed response variants), singly and in pairs, x modes; each run under a 20 s timeout observing exit status, signal, stderr, the output listing, and `list operations`; plus unwritable / half-writable output targets and --doc-format with a stand-in for / without the external mdformat"})
    for spec, tags in cases[:2] + cases[14:16]:
        res.sample({"mutators": tags, "schemas": sorted(spec.get("components", {}).get("schemas", {}))[:6]})
    res.cov["trusted_base"] = vlib.COMMON_TRUSTED + ["coq/Model/Termination.v: hand models of compute_depth and of the output phase's effect order", "tools/vtool inventory (syntactic panic sites)"]
    res.assumptions = ["PARTIAL: real stack depth, the OS, tokio and the oas3 parser are outside the model; a Diverge theorem is about the modelled function, the CLI run is what exhibits the crash",
                       "panic-site discharge arguments are reviewed prose in inventory/panic.json, not theorems (except identifier legality = C09 and the drain/compute_depth termination theorems)"]
    kf = {k["key"]: k["text"] for k in vlib.known_findings("C12")}
    for k in sorted(known_hits):
        if k in kf:
            res.known(k, kf[k])
        else:
            viol.append(({}, [k], "-", f"unlisted failing class {k}"))
    for (spec, tags, mode, dsc) in viol[:3]:
        res.violation(dsc, {"spec": spec, "tags": tags, "mode": mode})
    broken = [o for o in res.obligations if not o[1]]
    if broken and not viol:
        res.violation("proof obligation or inventory no longer checks: " + "; ".join(o[0] for o in broken),
                      {"broken": [[o[0], o[2]] for o in broken]}, no_input=True)
    return res.finish()
