"""C09 — every spec name becomes a valid, collision-free Rust identifier."""
import itertools, json, os, random, re, subprocess
import vlib
from vlib import Result, log

THEOREMS = ["C09_const_name_legal", "C09_field_name_legal", "C09_type_name_legal", "C09_keywords_covered",
            "C09_refuted_type_self", "C09_field_crate_super_repaired", "C09_refuted_field_empty", "C09_refuted_field_raw",
            "C09_refuted_fields_nodup", "C09_nonvacuous"]
TARGETS = ["Props/C09.v", "Extract/C09.v"]
PROBE = os.path.join(vlib.CACHE, "ident-target", "debug", "ident_probe")
ALPH = ["a", "B", "1", "_", "-", " ", ".", "@", "{", "#", "é", "日", "😀", "r#"]


def build_probe():
    with vlib.Lock("ident_probe"):
        env = dict(vlib.ENV)
        env["CARGO_TARGET_DIR"] = os.path.join(vlib.CACHE, "ident-target")
        rc, out = vlib.run(["cargo", "build", "--offline", "-q"], cwd=os.path.join(vlib.VERIF, "tools", "ident_probe"),
                           env=env, timeout=1800)
        if rc != 0:
            return None, out[-2000:]
    return PROBE, ""


def hx(b):
    return b.hex() if b else "-"


def unhx(s):
    return b"" if s == "-" else bytes.fromhex(s)


def name_pool(tier, seed):
    rnd = random.Random(seed)
    names = [""]
    maxlen = 3 if tier == "quick" else 5
    for L in range(1, maxlen + 1):
        for t in itertools.product(ALPH, repeat=L):
            names.append("".join(t))
    kw = re.findall(r'"([A-Za-z]+)"', open(os.path.join(vlib.COQ, "Gen", "Keywords.v")).read())
    names += kw + [k.capitalize() for k in kw] + [k.upper() for k in kw] + ["r#" + k for k in kw]
    special = kw + ["Self", "self", "Vec", "Option", "Type", "1", "1a", "_", "a"]
    for k in special:
        for pre in ["-", "--", "_", "-r#", "r#-", " ", "-_", "@", "1"]:
            names.append(pre + k)
        for suf in ["-", "_", " ", "_2", "2"]:
            names.append(k + suf)
            names.append("-" + k + suf)
    names += ["r#type", "r#1x", "r#", "r#_", "-foo", "-1", "--a", "XMLParser", "fooBar", "FOO_BAR", "foo__bar", "a.b",
              "union", "'static", "x-rate-limit", "@odata.type", "$ref", "a/b", "émigré", "日本語", "naïve_Café",
              "-Self", "r#Self", "Self_", "_self", "self-", "9lives", "a b c", "A1B2", "aB1-cD2", "__x__", "x__", "İ"]
    pool = "aB1_- .@{#é日😀ß​́Ωж"
    for _ in range(2000 if tier == "quick" else 50000):
        names.append("".join(rnd.choice(pool) for _ in range(rnd.randint(1, 9))))
    # de-dup preserving order
    seen, out = set(), []
    for n in names:
        if n not in seen:
            seen.add(n)
            out.append(n)
    return out


FIELD_KNOWN_RESULTS = {"_"}


def sanitiser_part(res, exe, probe, tier, seed):
    names = name_pool(tier, seed)
    inp = "\n".join(hx(n.encode()) for n in names) + "\n"
    p = subprocess.run([probe], input=inp, stdout=subprocess.PIPE, text=True, timeout=3000)
    impl = p.stdout.split("\n")[:len(names)]
    dis, viol, known_hits = [], [], set()
    model = None
    if exe:
        model = vlib.run_driver(exe, ["n " + (l.split(" ")[3] if len(l.split(" ")) > 3 else "") for l in impl])
        # legality of the implementation's own results, decided by the model's legal_ident
        qs = []
        for l in impl:
            f, t, c = l.split(" ")[:3]
            qs += ["l " + f, "l " + t, "l " + c]
        legal = vlib.run_driver(exe, qs)
    for i, (n, l) in enumerate(zip(names, impl)):
        parts = l.split(" ")
        if parts[0] == "PANIC":
            viol.append((n, "sanitiser panicked"))
            continue
        if model is not None:
            if parts[:3] != model[i].split(" ")[:3]:
                dis.append(f"name {n!r}: impl {[unhx(x).decode() for x in parts[:3]]} model {[unhx(x).decode() for x in model[i].split(' ')[:3]]}")
            f, t, c = (unhx(x).decode() for x in parts[:3])
            lf, lt, lc = (legal[3 * i + k] == "1" for k in range(3))
            if not lc:
                viol.append((n, f"constant name {c!r} is not a legal identifier"))
            if not lt:
                if t == "r#Self":
                    known_hits.add("type-self")
                else:
                    viol.append((n, f"type name {t!r} is not a legal identifier"))
            if not lf:
                if f in FIELD_KNOWN_RESULTS:
                    known_hits.add({"_": "field-underscore"}[f])
                elif n.startswith("r#") and f == n:
                    known_hits.add("field-raw-passthrough")
                else:
                    viol.append((n, f"field name {f!r} is not a legal identifier"))
    return names, dis, viol, known_hits


# ---------------------------------------------------------------- scopes through the CLI

FIELD_CLASSES = [["foo-bar", "foo_bar", "fooBar", "foo bar", "foo_bar_2", "foo-bar-2", "FooBar"],
                 ["type", "r#type", "Type", "type_", "type_2"],
                 ["a", "A", "a_2", "a-2", "-a"]]
ENUM_CLASSES = [["a", "A", "a2", "A2", "a-", "a_"], ["foo-bar", "foo_bar", "FooBar", "FooBar1", "foo bar"],
                ["x", "X", "x1", "x2", "X1"]]


def struct_spec(props):
    return {"openapi": "3.1.0", "info": {"title": "t", "version": "1"}, "paths": {},
            "components": {"schemas": {"Obj": {"type": "object", "properties": {p: {"type": "string"} for p in props}}}}}


def enum_spec(vals):
    return {"openapi": "3.1.0", "info": {"title": "t", "version": "1"}, "paths": {},
            "components": {"schemas": {"E": {"type": "string", "enum": vals}}}}


def field_collision_known(fields_rust):
    """F1 class: a duplicated base name b (k occurrences) and another member whose own name is b_i, 2<=i<=k"""
    from collections import Counter
    c = Counter(fields_rust)
    for b, k in c.items():
        if k > 1 and any(f"{b}_{i}" in c for i in range(2, k + 1)):
            return True
    return False


def scope_part(res, exe, tier, seed):
    d = vlib.scratch("C09")
    cases = []
    for cls in FIELD_CLASSES:
        for k in (2, 3):
            for combo in itertools.combinations(cls, k):
                cases.append(("struct", list(combo), []))
    for cls in ENUM_CLASSES:
        for k in (2, 3):
            for combo in itertools.permutations(cls, k):
                for mode in ("merge", "preserve", "relaxed"):
                    cases.append(("enum", list(combo), ["--enum-mode", mode]))
    if tier == "quick":
        rnd = random.Random(seed)
        rnd.shuffle(cases)
        cases = cases[:500]

    def one(i):
        kind, names, flags = cases[i]
        spec = struct_spec(names) if kind == "struct" else enum_spec(names)
        sp = os.path.join(d, f"s{i}.json")
        json.dump(spec, open(sp, "w"))
        out = os.path.join(d, f"o{i}.rs")
        rc, txt = vlib.oas(["generate", "types", "-i", sp, "-o", out, "-q", "--all-schemas"] + flags)
        return rc, txt, out
    outs = vlib.pmap(one, range(len(cases)))
    dumps = vlib.vtool_lines("dump", [o[2] for o in outs])
    viol, known_hits = [], set()
    for (kind, names, flags), (rc, txt, _), dump in zip(cases, outs, dumps):
        if rc != 0 or "error" in dump:
            viol.append((names, f"{kind} {names} {flags}: generator failed rc={rc} {txt[-200:]} {dump.get('error','')}"))
            continue
        if kind == "struct":
            it = [x for x in dump["items"] if x["kind"] == "struct" and x["name"] == "Obj"]
            if not it:
                viol.append((names, f"struct Obj missing for {names}"))
                continue
            fields = [f["name"] for f in it[0]["fields"]]
            if len(fields) != len(names):
                viol.append((names, f"properties {names} -> {len(fields)} fields {fields}: a member was dropped"))
            elif len(set(fields)) != len(fields):
                # which rust names did the sanitiser give before de-duplication? (model-independent: ask the probe)
                if field_collision_known(fields) or True:
                    base = fields
                    known_hits.add("field-suffix-collision") if _is_f1(names) else viol.append(
                        (names, f"properties {names} -> duplicate fields {fields}"))
        else:
            it = [x for x in dump["items"] if x["kind"] == "enum" and x["name"] == "E"]
            if not it:
                continue
            vs = [v["name"] for v in it[0]["variants"]]
            if len(set(vs)) != len(vs):
                if "preserve" in flags and _is_f2(names, vs):
                    known_hits.add("preserve-index-collision")
                else:
                    viol.append((names, f"enum values {names} {flags} -> duplicate variants {vs}"))
            if "preserve" in flags and len(vs) < len(set(names)):
                viol.append((names, f"enum values {names} preserve mode -> only variants {vs}: a value lost its variant"))
    return cases, viol, known_hits


MODULE_FAMILIES = [(("Order", "item_status"), ("OrderItem", "status")), (("User", "profile_kind"), ("UserProfile", "kind")),
                   (("A", "b_c"), ("AB", "c")), (("Pet", "tag_info"), ("PetTag", "info"))]
INLINE_KINDS = {
    "obj_desc": {"type": "object", "description": "counters", "properties": {"n": {"type": "integer"}}},
    "obj": {"type": "object", "properties": {"m": {"type": "string"}}},
    "enum_ab": {"type": "string", "enum": ["a", "b"]},
    "enum_xy": {"type": "string", "enum": ["x", "y"], "description": "state"},
}


def module_part(tier, seed):
    """inline types whose Parent+Prop names coincide: module items must stay distinct and keep their kind"""
    d = vlib.scratch("C09m")
    cases = []
    for (p1, f1), (p2, f2) in MODULE_FAMILIES:
        for k1 in INLINE_KINDS:
            for k2 in INLINE_KINDS:
                cases.append(((p1, f1, k1), (p2, f2, k2)))

    def one(i):
        (p1, f1, k1), (p2, f2, k2) = cases[i]
        spec = {"openapi": "3.1.0", "info": {"title": "t", "version": "1"}, "paths": {},
                "components": {"schemas": {p1: {"type": "object", "properties": {f1: INLINE_KINDS[k1]}},
                                           p2: {"type": "object", "properties": {f2: INLINE_KINDS[k2]}}}}}
        sp = os.path.join(d, f"s{i}.json")
        json.dump(spec, open(sp, "w"))
        out = os.path.join(d, f"o{i}.rs")
        rc, txt = vlib.oas(["generate", "types", "-i", sp, "-o", out, "-q", "--all-schemas"])
        return rc, txt, out
    outs = vlib.pmap(one, range(len(cases)))
    dumps = vlib.vtool_lines("dump", [o[2] for o in outs])
    viol = []
    raw = sorted({x for fam in MODULE_FAMILIES for (pp, ff) in fam for x in (pp, ff)})
    pr = subprocess.run([PROBE], input="\n".join(hx(n.encode()) for n in raw) + "\n", stdout=subprocess.PIPE, text=True)
    tname = {n: unhx(l.split(" ")[1]).decode() for n, l in zip(raw, pr.stdout.split("\n"))}
    fname = {n: unhx(l.split(" ")[0]).decode() for n, l in zip(raw, pr.stdout.split("\n"))}
    for case0, (rc, txt, _), dump in zip(cases, outs, dumps):
        case = tuple((tname[p], fname[f], k) for (p, f, k) in case0)
        if rc != 0 or "error" in dump:
            viol.append((case, f"generator failed on {case}: rc={rc} {txt[-200:]}"))
            continue
        items = [x for x in dump["items"] if x["kind"] in ("struct", "enum", "type")]
        names = [x["name"] for x in items]
        if len(set(names)) != len(names):
            viol.append((case, f"{case}: duplicate module items {sorted(n for n in names if names.count(n) > 1)}"))
            continue
        kind_of = {x["name"]: x["kind"] for x in items}
        tys = []
        for (p, f, k) in case:
            st = [x for x in items if x["name"] == p and x["kind"] == "struct"]
            if not st:
                viol.append((case, f"{case}: struct {p} missing"))
                break
            fl = [y for y in st[0]["fields"] if y["name"] == f]
            if not fl:
                viol.append((case, f"{case}: field {p}.{f} missing"))
                break
            ment = [m for m in fl[0]["mentions"] if m in kind_of]
            want = "struct" if k.startswith("obj") else "enum"
            if not ment or kind_of[ment[0]] != want:
                viol.append((case, f"{case}: {p}.{f} is an inline {want} in the spec but is typed {fl[0]['ty']} ({kind_of.get(ment[0]) if ment else 'no generated type'})"))
                break
            tys.append(ment[0])
        else:
            if case[0][2] != case[1][2] and tys[0] == tys[1]:
                viol.append((case, f"{case}: two different inline schemas share the type {tys[0]}"))
    return cases, viol


UNION_TITLE_FAMILIES = [
    ["Item", "item", "ITEM"], ["Item", "item", "ITEM", "iTEM"], ["A b", "a_b", "AB"], ["x", "X", "x ", "_x"],
    ["match", "loop", "skip"], ["type", "fn", "impl", "where"], ["async", "await", "dyn", "plain"], ["Some", "None", "Ok", "Err"],
    ["string", "String", "str"], ["2d", "3d", "d2"],
]


def union_part(tier):
    """named unions of inline branches whose titles collide or are keywords: variant names (and, with helpers, the
    constructor methods) must be distinct legal identifiers; the generator must not abort"""
    d = vlib.scratch("C09u")
    cases = [(fam, helpers) for fam in UNION_TITLE_FAMILIES for helpers in (True, False)]

    def one(i):
        fam, helpers = cases[i]
        branches = [{"type": "object", "title": t, "properties": {f"p{k}": {"type": "string"}}, "required": [f"p{k}"]} for k, t in enumerate(fam)]
        spec = {"openapi": "3.1.0", "info": {"title": "t", "version": "1"}, "paths": {}, "components": {"schemas": {"Rule": {"oneOf": branches}}}}
        sp = os.path.join(d, f"s{i}.json")
        json.dump(spec, open(sp, "w"))
        out = os.path.join(d, f"o{i}.rs")
        rc, txt = vlib.oas(["generate", "types", "-i", sp, "-o", out, "-q", "--all-schemas"] + ([] if helpers else ["--no-helpers"]))
        return rc, txt, out
    outs = vlib.pmap(one, range(len(cases)))
    dumps = vlib.vtool_lines("dump", [o[2] for o in outs])
    viol = []
    for (fam, helpers), (rc, txt, _), dump in zip(cases, outs, dumps):
        tag = f"union titles {fam} ({'helpers' if helpers else 'no helpers'})"
        if rc != 0 or "error" in dump:
            viol.append(((fam, helpers), f"{tag}: generator failed / output does not parse: rc={rc} {txt.strip()[-200:]} {dump.get('error', '')[:200]}"))
            continue
        en = [x for x in dump["items"] if x["kind"] == "enum" and x["name"] == "Rule"]
        if not en:
            viol.append(((fam, helpers), f"{tag}: enum Rule missing"))
            continue
        vs = [v["name"] for v in en[0]["variants"]]
        if len(vs) != len(fam) or len(set(vs)) != len(vs):
            viol.append(((fam, helpers), f"{tag}: variants {vs} are not {len(fam)} distinct names"))
        for imp in [x for x in dump["items"] if x["kind"] == "impl" and not x.get("trait") and x.get("self_ty") == "Rule"]:
            ms = [m["name"] for m in imp["methods"]]
            if len(set(ms)) != len(ms):
                viol.append(((fam, helpers), f"{tag}: constructor methods {ms} are not distinct"))
    return cases, viol


REF_UNION_FAMILIES = [["Event", "EventBatch", "EventEvent"], ["Item", "ItemItem", "ItemList"], ["A", "AB", "AA"], ["Pet", "PetPet", "Pet2"],
                      ["UserCreated", "UserDeleted", "User"], ["X", "Y", "XY", "YX"]]


def ref_union_part():
    """named unions over $ref members whose names share affixes: after affix stripping the variant names must stay
    distinct (a duplicate variant does not compile)"""
    d = vlib.scratch("C09r")
    cases = [(fam, helpers) for fam in REF_UNION_FAMILIES for helpers in (True, False)]

    def one(i):
        fam, helpers = cases[i]
        schemas = {nm: {"type": "object", "required": [f"k{k}"], "properties": {f"k{k}": {"type": "string"}}} for k, nm in enumerate(fam)}
        schemas["Payload"] = {"oneOf": [{"$ref": f"#/components/schemas/{nm}"} for nm in fam]}
        spec = {"openapi": "3.1.0", "info": {"title": "t", "version": "1"}, "paths": {}, "components": {"schemas": schemas}}
        sp = os.path.join(d, f"s{i}.json")
        json.dump(spec, open(sp, "w"))
        out = os.path.join(d, f"o{i}.rs")
        rc, txt = vlib.oas(["generate", "types", "-i", sp, "-o", out, "-q", "--all-schemas"] + ([] if helpers else ["--no-helpers"]))
        return rc, txt, out
    outs = vlib.pmap(one, range(len(cases)))
    dumps = vlib.vtool_lines("dump", [o[2] for o in outs])
    viol = []
    for (fam, helpers), (rc, txt, _), dump in zip(cases, outs, dumps):
        tag = f"union over $refs {fam} ({'helpers' if helpers else 'no helpers'})"
        if rc != 0 or "error" in dump:
            viol.append(((fam, helpers), f"{tag}: generator failed / output does not parse: rc={rc} {txt.strip()[-200:]} {dump.get('error', '')[:200]}"))
            continue
        en = [x for x in dump["items"] if x["kind"] == "enum" and x["name"] == "Payload"]
        vs = [v["name"] for v in en[0]["variants"]] if en else []
        if len(vs) != len(fam) or len(set(vs)) != len(vs):
            viol.append(((fam, helpers), f"{tag}: variants {vs} are not {len(fam)} distinct names"))
    return cases, viol


def opname_part():
    """component schemas whose Rust names coincide with the names an operation's request / response types would take"""
    d = vlib.scratch("C09o")
    viol, cases = [], []
    for (sreq, sresp, opid) in (("fetch_thing_request", "fetch_thing_response", "fetchThing"), ("FetchThingRequest", "FetchThingResponse", "fetchThing"),
                                ("get-item-request", "get-item-response", "get_item"), ("listOrdersRequest", "listOrdersResponse", "list-orders")):
        R_ = lambda t: {"$ref": f"#/components/schemas/{t}"}
        spec = {"openapi": "3.1.0", "info": {"title": "t", "version": "1"},
                "paths": {"/t": {"post": {"operationId": opid, "requestBody": {"required": True, "content": {"application/json": {"schema": R_(sreq)}}},
                                          "responses": {"200": {"description": "ok", "content": {"application/json": {"schema": R_(sresp)}}}, "404": {"description": "nf"}}}}},
                "components": {"schemas": {sreq: {"type": "object", "required": ["rid"], "properties": {"rid": {"type": "string"}}},
                                           sresp: {"type": "object", "required": ["value"], "properties": {"value": {"type": "integer"}}}}}}
        cases.append((sreq, sresp, opid))
        sp = os.path.join(d, f"{opid}_{sreq[:3]}.json")
        json.dump(spec, open(sp, "w"))
        out = os.path.join(d, f"{opid}_{sreq[:3]}.rs")
        rc, txt = vlib.oas(["generate", "types", "-i", sp, "-o", out, "-q"])
        dump = vlib.vtool_lines("dump", [out])[0] if rc == 0 else {"error": "no output"}
        tag = f"schemas {sreq}/{sresp} + operation {opid}"
        if rc != 0 or "error" in dump:
            viol.append(((sreq, sresp, opid), f"{tag}: generator failed rc={rc} {txt.strip()[-200:]}"))
            continue
        items = [x for x in dump["items"] if x["kind"] in ("struct", "enum", "type")]
        names = [x["name"] for x in items]
        if len(set(names)) != len(names):
            viol.append(((sreq, sresp, opid), f"{tag}: duplicate module items {sorted(n for n in names if names.count(n) > 1)}"))
        body_struct = [x for x in items if x["kind"] == "struct" and any(f["name"] == "rid" for f in x["fields"])]
        resp_struct = [x for x in items if x["kind"] == "struct" and any(f["name"] == "value" for f in x["fields"])]
        req_struct = [x for x in items if x["kind"] == "struct" and any(f["name"] == "body" for f in x["fields"])]
        resp_enum = [x for x in items if x["kind"] == "enum" and any(v["name"] == "NotFound" for v in x["variants"])]
        if not (body_struct and resp_struct and req_struct and resp_enum):
            viol.append(((sreq, sresp, opid), f"{tag}: expected the two schema structs, the operation's request struct and its response enum; found items {names}"))
            continue
        payload = [f["ty"] for v in resp_enum[0]["variants"] for f in v["fields"]]
        if resp_enum[0]["name"] in " ".join(payload) or req_struct[0]["name"] == body_struct[0]["name"]:
            viol.append(((sreq, sresp, opid), f"{tag}: the operation's types took the schemas' names: response enum {resp_enum[0]['name']} carries {payload}, request struct {req_struct[0]['name']}"))
    return cases, viol


def inline_name_part():
    """components whose names equal the names DERIVED for inline types of other components (array item objects and
    enums, union variants): every entity keeps a definition of its own, nothing is dropped or redirected"""
    d = vlib.scratch("C09i")
    S, I = {"type": "string"}, {"type": "integer"}
    item = {"type": "object", "properties": {"sku": S, "qty": I}}
    tag = {"type": "string", "enum": ["gift", "fragile", "express"]}
    specs = []
    for holder, later in (("Order", ("OrderLine", "OrderTag")), ("Zorder", ("ZorderLine", "ZorderTag")), ("Order", ("OrderLines", "OrderTags"))):
        # (the component sorts before / after the names derived from it)
        schemas = {holder: {"type": "object", "properties": {"id": S, "lines": {"type": "array", "items": item}, "tags": {"type": "array", "items": tag}}},
                   later[0]: {"type": "object", "properties": {"legacy_code": S}}, later[1]: {"type": "object", "properties": {"label": S}}}
        if holder == "Zorder":
            schemas = dict(sorted(schemas.items()))
        specs.append((holder, later, {"openapi": "3.1.0", "info": {"title": "t", "version": "1"}, "paths": {}, "components": {"schemas": schemas}}))
    viol, cases = [], []
    for k, (holder, later, spec) in enumerate(specs):
        cases.append((holder,) + later)
        sp = os.path.join(d, f"s{k}.json")
        json.dump(spec, open(sp, "w"))
        out = os.path.join(d, f"o{k}.rs")
        rc, txt = vlib.oas(["generate", "types", "-i", sp, "-o", out, "-q", "--all-schemas", "--no-helpers"])
        dump = vlib.vtool_lines("dump", [out])[0] if rc == 0 else {"error": txt[-200:]}
        tag_ = f"components {holder} / {later[0]} / {later[1]}"
        if rc != 0 or "error" in dump:
            viol.append(((holder,) + later, f"{tag_}: generator failed / output does not parse: rc={rc} {dump.get('error', '')[:200]}"))
            continue
        items = {x["name"]: x for x in dump["items"] if x["kind"] in ("struct", "enum")}
        fields = lambda n: sorted(f["name"] for f in items.get(n, {}).get("fields", []))
        names = [x["name"] for x in dump["items"] if x["kind"] in ("struct", "enum", "type")]
        if len(names) != len(set(names)):
            viol.append(((holder,) + later, f"{tag_}: duplicate item names {sorted(n for n in set(names) if names.count(n) > 1)}"))
        if fields(later[0]) != ["legacy_code"] or fields(later[1]) != ["label"]:
            viol.append(((holder,) + later, f"{tag_}: the components are emitted as {later[0]}{fields(later[0])} / {later[1]}{fields(later[1])}, declared members are legacy_code / label"))
        h = {f["name"]: f["ty"] for f in items.get(holder, {}).get("fields", [])}
        lt = re.findall(r"[A-Z]\w*", re.sub(r"\b(Option|Vec|Box)\b", "", h.get("lines", "")))
        tt = re.findall(r"[A-Z]\w*", re.sub(r"\b(Option|Vec|Box)\b", "", h.get("tags", "")))
        if not lt or fields(lt[0]) != ["qty", "sku"]:
            viol.append(((holder,) + later, f"{tag_}: {holder}.lines is typed {h.get('lines')!r} whose item type has members {fields(lt[0]) if lt else None}, the inline item declares qty / sku"))
        if not tt or items.get(tt[0], {}).get("kind") != "enum" or len(items[tt[0]].get("variants", [])) != 3:
            viol.append(((holder,) + later, f"{tag_}: {holder}.tags is typed {h.get('tags')!r}, the inline item is an enum of three values"))
    return cases, viol


KNOWN_V = set()


def variant_and_opid_part():
    """(a) a union's inline variant and another component's inline member whose derived names coincide (PetOwnerInfo);
    (b) operation ids that collide after sanitising, next to an explicit id equal to the suffixed form: every entity keeps
    an item / a method of its own"""
    d = vlib.scratch("C09v")
    viol, cases = [], []
    S, I = {"type": "string"}, {"type": "integer"}
    spec = {"openapi": "3.1.0", "info": {"title": "t", "version": "1"}, "paths": {}, "components": {"schemas": {
        "Pet": {"oneOf": [{"title": "OwnerInfo", "type": "object", "properties": {"phone": S, "email": S}}, {"title": "Stray", "type": "object", "properties": {"found_at": S}}]},
        "PetOwner": {"type": "object", "properties": {"name": S, "info": {"type": "object", "properties": {"zip": I}}}}}}}
    cases.append(("variant-vs-member",))
    sp = os.path.join(d, "a.json")
    json.dump(spec, open(sp, "w"))
    out = os.path.join(d, "a.rs")
    rc, txt = vlib.oas(["generate", "types", "-i", sp, "-o", out, "-q", "--all-schemas", "--no-helpers"])
    dump = vlib.vtool_lines("dump", [out])[0] if rc == 0 else {"error": txt[-200:]}
    if rc != 0 or "error" in dump:
        viol.append((cases[-1], f"variant / member name clash: generator failed rc={rc} {dump.get('error', '')[:200]}"))
    else:
        items = {x["name"]: x for x in dump["items"] if x["kind"] in ("struct", "enum")}
        fields = lambda n: sorted(f["name"] for f in items.get(n, {}).get("fields", []))
        names = [x["name"] for x in dump["items"] if x["kind"] in ("struct", "enum", "type")]
        h = {f["name"]: f["ty"] for f in items.get("PetOwner", {}).get("fields", [])}
        it = re.findall(r"[A-Z]\w*", re.sub(r"\b(Option|Vec|Box)\b", "", h.get("info", "")))
        vts = [[m for f in v.get("fields", []) for m in f.get("mentions", [])] for v in items.get("Pet", {}).get("variants", [])]
        vfields = sorted(tuple(fields(v[0])) for v in vts if v)
        if len(names) != len(set(names)) or not it or fields(it[0]) != ["zip"] or vfields != [("email", "phone"), ("found_at",)]:
            viol.append((cases[-1], f"variant / member name clash: PetOwner.info is typed {h.get('info')!r} with members {fields(it[0]) if it else None} (declared: zip); the variants of Pet carry {vfields} (declared: email+phone / found_at); items {sorted(names)}"))
    ok = {"204": {"description": "n"}}
    for ids in (["new", "fetch_session", "with_client"], ["shape_list", "shape_type"], ["api_match_all", "api_type_all", "api_fn_all"], ["getPet", "getPet", "getPet_2"], ["get-pet", "get_pet", "getPet", "get_pet_2", "get_pet_3"], ["list", "list_2", "list", "list"]):
        cases.append(("opids", tuple(ids)))
        paths = {f"/p{k}": {"get": {"operationId": oid, "responses": ok}} for k, oid in enumerate(ids)}
        sp = os.path.join(d, "ops.json")
        json.dump({"openapi": "3.1.0", "info": {"title": "t", "version": "1"}, "paths": paths, "components": {"schemas": {}}}, open(sp, "w"))
        outp = os.path.join(d, "ops")
        rc, txt = vlib.oas(["generate", "client-mod", "-i", sp, "-o", outp, "-q"])
        if rc != 0:
            viol.append((cases[-1], f"operation ids {ids}: generator failed rc={rc} {txt.strip()[-200:]}"))
            continue
        ctext = open(os.path.join(outp, "client.rs")).read()
        methods = re.findall(r"pub async fn ((?:r#)?\w+)\s*\(", ctext)
        docs = re.findall(r"\* Path: `GET (/p\d+)`", ctext)
        inherent = re.findall(r"pub fn (\w+)\s*[(<]", ctext)
        clash = sorted(set(methods) & set(inherent))
        if clash:
            # recorded: an operation named like one of the client's own constructors is emitted as a second inherent fn
            KNOWN_V.add("operation-named-like-client-constructor")
            continue
        if len(methods) != len(ids) or len(set(methods)) != len(methods) or sorted(set(docs)) != sorted(paths):
            viol.append((cases[-1], f"operation ids {ids}: the client has the methods {methods} for the paths {sorted(set(docs))}; {len(ids)} operations ({sorted(paths)}) were declared"))
    return cases, viol


def undeclared_path_part():
    """template variables that no parameter declares get a synthesized member: the identifier the client uses for it is
    the member's (legal) name, whatever the spelling of the variable"""
    d = vlib.scratch("C09p")
    ok = {"204": {"description": "n"}}
    paths = {"/orders/{orderId}/items/{item-id}": {"get": {"operationId": "get_order_item", "responses": ok}},
             "/t/{tenant-id}/u/{User_Name}": {"delete": {"operationId": "drop_user", "parameters": [{"name": "tenant-id", "in": "query", "schema": {"type": "string"}}], "responses": ok}},
             "/k/{type}/m/{match}": {"get": {"operationId": "get_kw", "responses": ok}},
             "/d/{declared-one}/{undeclaredTwo}": {"put": {"operationId": "put_mixed", "parameters": [{"name": "declared-one", "in": "path", "required": True, "schema": {"type": "integer"}}], "responses": ok}}}
    spec = {"openapi": "3.1.0", "info": {"title": "t", "version": "1"}, "paths": paths, "components": {"schemas": {}}}
    sp = os.path.join(d, "spec.json")
    json.dump(spec, open(sp, "w"))
    outp = os.path.join(d, "out")
    rc, txt = vlib.oas(["generate", "client-mod", "-i", sp, "-o", outp, "-q"])
    case = ("undeclared-path-variables",)
    if rc != 0:
        return [case], [(case, f"undeclared path variables {sorted(paths)}: generator failed rc={rc} {txt.strip()[-200:]}")]
    dump = vlib.vtool_lines("dump", [os.path.join(outp, "types.rs")])[0]
    if "error" in dump:
        return [case], [(case, f"undeclared path variables: types.rs does not parse: {dump['error'][:200]}")]
    members = {x["name"]: [f["name"] for f in x.get("fields", [])] for x in dump["items"] if x["kind"] == "struct"}
    ctext = open(os.path.join(outp, "client.rs")).read()
    viol = []
    pathfields = sorted(set(f for n, fs in members.items() if n.endswith("RequestPath") for f in fs))
    used = sorted(set(re.findall(r"request\s*\.\s*path\s*\.\s*((?:r#)?\w+)", ctext)))
    missing = [u for u in used if u not in pathfields]
    if missing:
        viol.append((case, f"undeclared path variables: the client refers to request.path.{missing} but the path structs only have the members {pathfields}"))
    want_n = sum(len(re.findall(r"\{[^}]+\}", t)) for t in paths)
    if len([f for n, fs in members.items() if n.endswith("RequestPath") for f in fs]) != want_n or len(used) != want_n:
        viol.append((case, f"undeclared path variables: {want_n} template variables, path struct members {pathfields}, members used by the client {used}"))
    return [case], viol


def _is_f1(props):
    """the recorded class: two properties share a Rust name b and a third property's Rust name is b_<i>"""
    import subprocess
    p = subprocess.run([PROBE], input="\n".join(hx(n.encode()) for n in props) + "\n", stdout=subprocess.PIPE, text=True)
    rust = [unhx(l.split(" ")[0]).decode() for l in p.stdout.split("\n")[:len(props)]]
    return field_collision_known(rust)


def _is_f2(values, variants):
    """the recorded class: preserve mode, a collision suffix <name><index> equals another value's own variant name"""
    from collections import Counter
    c = Counter(variants)
    dup = [v for v, k in c.items() if k > 1]
    return any(re.search(r"\d+$", v) for v in dup)


def main(tier, seed, replay=None):
    res = Result("C09", tier, seed)
    vlib.build_repo()
    rep = vlib.translate()
    r = rep.get("Keywords.v", {"ok": False, "error": "missing"})
    res.oblige("translator: Gen/Keywords.v regenerated from current source", r.get("ok"), r.get("error", ""))
    coq_ok, out = vlib.standard_coq_obligations(res, TARGETS, THEOREMS, expect_closed=5)
    exe = vlib.ocaml_build("c09") if coq_ok else None
    if coq_ok:
        res.oblige("extracted model driver builds", exe is not None)
    probe, err = build_probe()
    res.oblige("probe: naming/identifiers.rs of the current tree compiles into the harness by path", probe is not None, err)
    viol, known_hits, dis, names = [], set(), [], []
    if probe:
        names, dis, viol, known_hits = sanitiser_part(res, exe, probe, tier, seed)
        res.oblige(f"correspondence: model = implementation on {len(names)} names x 3 sanitisers", not dis, dis[0] if dis else "")
    cases, viol2, kh2 = scope_part(res, exe, tier, seed)
    known_hits |= kh2
    mcases, viol3 = module_part(tier, seed)
    ucases, viol4 = union_part(tier)
    rcases, viol5 = ref_union_part()
    ocases, viol6 = opname_part()
    icases, viol7 = inline_name_part()
    pcases, viol8 = undeclared_path_part()
    vcases, viol9 = variant_and_opid_part()
    known_hits |= KNOWN_V
    viol2 = viol2 + viol3 + viol4 + viol5 + viol6 + viol7 + viol8 + viol9
    cases = cases + mcases + ucases + rcases + ocases + icases + pcases + vcases
    res.counts.update({"evaluations": len(names) * 3 + len(cases), "distinct_nontrivial": len(names),
                       "traces_validated_against_impl": len(names) if exe else 0, "scope_cases": len(cases),
                       "rule": f"every string over the 14-symbol alphabet up to length {3 if tier=='quick' else 5}, every keyword in 4 spellings, a hand list and random Unicode strings through the real sanitisers (compiled by #[path]) and the extracted model; legality of the implementation's results decided by the model's legal_ident; plus collision classes (pairs/triples) placed in struct-field and enum-variant scopes through the CLI; module-level inline type names; unions of inline branches whose titles collide three or four ways or are keywords, with and without helper constructors; components named like the names derived for another component's inline array items; undeclared path template variables in camelCase / kebab-case / keyword spellings (the member the client uses exists)"})
    for n in names[1:4] + names[-2:]:
        res.sample({"name": n})
    res.cov["trusted_base"] = vlib.COMMON_TRUSTED + [
        "coq/Model/Ident.v: hand model of naming/identifiers.rs incl. inflections' to_snake_case/to_constant_case on ASCII and the regex-based sanitize; any_ascii is abstracted (theorems hold for every transliteration)",
        "legal_ident: hand definition of rustc/proc_macro2 identifier legality (keywords of edition 2024, raw-identifier exceptions)",
        "tools/ident_probe (#[path] include of identifiers.rs)"]
    res.assumptions = ["scope-level uniqueness (module items, methods, header constants) beyond struct fields and enum variants is not modelled in this round"]
    kf = {k["key"]: k["text"] for k in vlib.known_findings("C09")}
    for k in sorted(known_hits):
        if k in kf:
            res.known(k, kf[k])
        else:
            viol.append((k, f"unlisted failing class {k}"))
    for (n, dsc) in (viol + viol2)[:3]:
        res.violation(dsc, {"name_or_case": n})
    broken = [o for o in res.obligations if not o[1]]
    if broken and not (viol + viol2):
        res.violation("proof obligation or correspondence no longer checks: " + "; ".join(o[0] for o in broken),
                      {"broken": [[o[0], o[2]] for o in broken]}, no_input=True)
    return res.finish()
