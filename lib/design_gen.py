#!/usr/bin/env python3
"""Regenerates /verif/DESIGN.md from doc/design_head.md, the claims table, known-findings.txt, seeded/*/meta.json and doc/design_tail.md."""
import json, os, re, glob, runpy
V = os.path.dirname(os.path.dirname(os.path.abspath(__file__)))
ns = runpy.run_path(os.path.join(V, "lib", "manifest_gen.py"))
CLAIMS = ns["CLAIMS"]
props = {json.loads(l)["id"]: json.loads(l) for l in open(os.path.join(V, "properties.jsonl"))}
man = json.load(open(os.path.join(V, "MANIFEST.json")))
known, fixed = {}, {}
for line in open(os.path.join(V, "known-findings.txt")):
    m = re.match(r"known:\s+property=(\S+)\s+key=(\S+)\s+(.*)", line.strip())
    if m:
        known.setdefault(m.group(1), []).append((m.group(2), m.group(3)))
    m = re.match(r"fixed:\s+property=(\S+)\s+(\S+)\s+(.*)", line.strip())
    if m:
        fixed.setdefault(m.group(1), []).append((m.group(2), m.group(3)))
seeds = {}
for f in sorted(glob.glob(os.path.join(V, "seeded", "*", "meta.json"))):
    m = json.load(open(f))
    seeds.setdefault(m["property"], []).append(m)
out = [open(os.path.join(V, "doc", "design_head.md")).read()]
out.append("## 4. Per property: theorems, tie to the code, what is only observed\n")
out.append("Each block is the claim registered in MANIFEST.json (`level_claimed.text`, `level_note`, `technique`), followed by the findings and the seeded changes of that property.\n")
for pid in sorted(props):
    p = props[pid]
    out.append(f"### {pid} — {p['title']}\n")
    if pid in CLAIMS:
        c = CLAIMS[pid]
        out.append(f"*Technique.* {c['technique']}\n")
        out.append(f"*Claim.* {c['text']}\n")
        out.append(f"*Trusted / not covered.* {c['note']}\n")
        out.append(f"*Files.* `coq/Props/{pid}.v`, `lib/{pid.lower()}.py`" + (f", `coq/Extract/{pid}.v` + `ocaml/{pid.lower()}_driver.ml`" if os.path.exists(os.path.join(V, "coq", "Extract", pid + ".v")) else "") + ".\n")
    else:
        na = [x for x in man.get("not_applicable", []) if x.get("property_id") == pid]
        out.append("*Not claimed.* " + (na[0].get("reason", "") if na else "") + "\n")
    if pid in fixed:
        out.append("*Repaired in /repo (`fix:` commits):*\n")
        for (cm, tx) in fixed[pid]:
            out.append(f"* `{cm}` — {tx}")
        out.append("")
    if pid in known:
        out.append("*Known findings (recorded, not repaired; the check prints `KNOWN-FINDING` and still reports any other failure):*\n")
        for (k, tx) in known[pid]:
            out.append(f"* `{k}` — {tx}")
        out.append("")
    if pid in seeds:
        out.append("*Seeded changes (each compiles and passes the existing suite; confirmed in a scratch worktree):*\n")
        for m in seeds[pid]:
            first = (m.get("needs_to_manifest") or "").strip().split("\n")[0].lstrip("# ").strip()
            out.append(f"* `{m['seed']}` — {first[:200]} — **{m.get('caught_by', 'not yet run')}**")
        out.append("")
out.append("## 5. Findings and repairs (summary)\n")
nf = sum(len(v) for v in fixed.values())
nk = sum(len(v) for v in known.values())
out.append(f"{nf} `fixed:` entries (each a minimal unguarded `fix:` commit in /repo; the existing suite passes unedited after each) and {nk} `known:` entries are listed in `known-findings.txt` and, per property, in §4. "
           "A defect was repaired when the patch is one a maintainer would accept (it corrects behaviour, removes nothing, special-cases nothing) and the unedited suite still passes; "
           "it was recorded instead when the repair needs a design decision (e.g. ordered union identity, a well-founded choice of the default variant, per-element validation), touches a third-party crate, or collides with an existing test that pins the defective output (C14 `tag-lost-on-reencode`).\n")
commits = []
for pid in sorted(fixed):
    for (cm, tx) in fixed[pid]:
        if cm not in [c for c, _ in commits]:
            commits.append((cm, f"{pid}: {tx[:150]}"))
out.append("`fix:` commits: " + "; ".join(f"`{c}` ({t})" for c, t in commits) + "\n")
out.append("### Not applicable\n")
na = man.get("not_applicable", [])
if na:
    for x in na:
        out.append(f"* {x.get('property_id')}: {x.get('reason')}")
else:
    out.append("None.")
out.append("")
out.append(open(os.path.join(V, "doc", "design_tail.md")).read())
open(os.path.join(V, "DESIGN.md"), "w").write("\n".join(out))
print("DESIGN.md written:", sum(len(x.split("\n")) for x in out), "lines")
