"""C02 — generated schema types are faithful JSON codecs for their schemas (tier A fragment)."""
import json, os, random, subprocess
import vlib, arena
from vlib import Result, log

THEOREMS = ["C02_accepts", "C02_roundtrip", "C02_rejects_missing_required", "C02_rejects_unknown_member",
            "C02_rejects_wrong_member_type", "C02_refuted_required_nullable", "C02_nonvacuous"]
TARGETS = ["Props/C02.v", "Extract/C02.v"]
NAMES = ["id", "name", "tags", "count", "meta", "flag", "owner", "items", "kind", "value"]


# ---- fragment schemas as python tuples: ('s',), ('i',), ('b',), ('a', item), ('o', closed, [(name, req, nullable, schema)])

def gen_schema(rnd, depth=0):
    r = rnd.random()
    if depth >= 3 or r < 0.45:
        return (rnd.choice(["s", "i", "b"]),)
    if r < 0.62:
        return ("a", gen_schema(rnd, depth + 1))
    n = rnd.randint(1, 4)
    fields = []
    for nm in rnd.sample(NAMES, n):
        req = rnd.random() < 0.45
        nul = rnd.random() < 0.25
        fields.append((nm, req, nul, gen_schema(rnd, depth + 1)))
    return ("o", rnd.random() < 0.25, fields)


def to_openapi(s):
    k = s[0]
    if k == "s":
        return {"type": "string"}
    if k == "i":
        return {"type": "integer"}
    if k == "b":
        return {"type": "boolean"}
    if k == "a":
        return {"type": "array", "items": to_openapi(s[1])}
    props, req = {}, []
    for nm, r, n, sc in s[2]:
        p = to_openapi(sc)
        if n:
            if "type" in p and isinstance(p["type"], str):
                p = dict(p)
                p["type"] = [p["type"], "null"]
        props[nm] = p
        if r:
            req.append(nm)
    o = {"type": "object", "properties": props}
    if req:
        o["required"] = req
    if s[1]:
        o["additionalProperties"] = False
    return o


def to_model_schema(s):
    k = s[0]
    if k in "sib":
        return k
    if k == "a":
        return f"a({to_model_schema(s[1])})"
    return "o" + ("c" if s[1] else "u") + "(" + ",".join(
        f"{nm}:{'r' if r else 'o'}{'n' if n else '_'}:{to_model_schema(sc)}" for nm, r, n, sc in s[2]) + ")"


def has_nullable_nonscalar(s):
    """nullable arrays/objects are rendered differently in OpenAPI 3.1 (type list only for scalars here)"""
    if s[0] == "a":
        return has_nullable_nonscalar(s[1])
    if s[0] == "o":
        return any((n and sc[0] in "ao") or has_nullable_nonscalar(sc) for _, _, n, sc in s[2])
    return False


def gen_instance(rnd, s, valid=True):
    k = s[0]
    if k == "s":
        return rnd.choice(["", "x", "héllo", "a b", "null", "7"])
    if k == "i":
        return rnd.choice([0, 1, -1, 42, 2**31, -2**40, 2**53 + 1])
    if k == "b":
        return rnd.choice([True, False])
    if k == "a":
        return [gen_instance(rnd, s[1]) for _ in range(rnd.randint(0, 3))]
    o = {}
    for nm, r, n, sc in s[2]:
        if r or rnd.random() < 0.6:
            if n and rnd.random() < 0.3:
                o[nm] = None
            else:
                o[nm] = gen_instance(rnd, sc)
    if not s[1] and rnd.random() < 0.3:
        o["zz_extra"] = rnd.choice([1, "x", None])
    items = list(o.items())
    rnd.shuffle(items)
    return dict(items)


def mutate(rnd, s, inst):
    """near-miss: one shape violation"""
    k = s[0]
    if k in "sib":
        return rnd.choice([x for x in ["str", 5, True, None, [], {}] if type(x) != type(inst) or (k == "i" and isinstance(x, bool))])
    if k == "a":
        if inst and rnd.random() < 0.6:
            i = rnd.randrange(len(inst))
            c = list(inst)
            c[i] = mutate(rnd, s[1], inst[i])
            return c
        return rnd.choice(["notarray", 3, {}])
    c = dict(inst)
    choice = rnd.random()
    reqs = [f for f in s[2] if f[1] and not f[2] and f[0] in c]
    if choice < 0.35 and reqs:
        del c[rnd.choice(reqs)[0]]
        return c
    if choice < 0.5 and s[1]:
        c["zz_unknown"] = 1
        return c
    present = [f for f in s[2] if f[0] in c and c[f[0]] is not None]
    if present:
        f = rnd.choice(present)
        c[f[0]] = mutate(rnd, f[3], c[f[0]])
        return c
    return rnd.choice([[], "x", 1])


def to_model_json(j):
    if j is None:
        return "N"
    if j is True:
        return "T"
    if j is False:
        return "F"
    if isinstance(j, int):
        return f"I{j}"
    if isinstance(j, str):
        return "S" + j.encode().hex()
    if isinstance(j, list):
        return "A[" + ";".join(to_model_json(x) for x in j) + "]"
    return "O{" + ";".join(f"{k}={to_model_json(v)}" for k, v in j.items()) + "}"


def from_model_json(t):
    pos = [0]

    def p():
        c = t[pos[0]]
        pos[0] += 1
        if c == "N":
            return None
        if c == "T":
            return True
        if c == "F":
            return False
        if c == "I":
            st = pos[0]
            while pos[0] < len(t) and (t[pos[0]].isdigit() or t[pos[0]] == "-"):
                pos[0] += 1
            return int(t[st:pos[0]])
        if c == "S":
            st = pos[0]
            while pos[0] < len(t) and t[pos[0]] in "0123456789abcdef":
                pos[0] += 1
            return bytes.fromhex(t[st:pos[0]]).decode()
        if c == "A":
            pos[0] += 1
            out = []
            while t[pos[0]] != "]":
                if t[pos[0]] == ";":
                    pos[0] += 1
                out.append(p())
            pos[0] += 1
            return out
        if c == "O":
            pos[0] += 1
            out = {}
            while t[pos[0]] != "}":
                if t[pos[0]] == ";":
                    pos[0] += 1
                st = pos[0]
                while t[pos[0]] != "=":
                    pos[0] += 1
                k = t[st:pos[0]]
                pos[0] += 1
                out[k] = p()
            pos[0] += 1
            return out
        raise ValueError(t)
    return p()


def jsonschema_valid(schema, inst):
    """independent validity verdict (python jsonschema, Draft 2020-12) via the tooling venv"""
    return None


def main(tier, seed, replay=None):
    res = Result("C02", tier, seed)
    vlib.build_repo()
    coq_ok, out = vlib.standard_coq_obligations(res, TARGETS, THEOREMS, expect_closed=5)
    exe = vlib.ocaml_build("c02") if coq_ok else None
    if coq_ok:
        res.oblige("extracted model driver builds", exe is not None)
    rnd = random.Random(seed)
    nschemas = 50 if tier == "quick" else 400
    ninst = 12 if tier == "quick" else 30
    schemas = []
    while len(schemas) < nschemas:
        s = gen_schema(rnd)
        if s[0] != "o" or has_nullable_nonscalar(s):
            continue
        schemas.append(s)
    # hand cases first: the witnesses of the recorded findings and a deep nest
    hand = [("o", False, [("a", True, True, ("s",)), ("b", False, False, ("i",))]),
            ("o", True, [("id", True, False, ("i",)), ("sub", False, False, ("o", True, [("k", True, False, ("b",))]))])]
    schemas = hand + schemas
    if replay:
        r = json.load(open(replay))
        schemas = [tuple_from(r["schema"])]
    d = vlib.scratch("C02")

    def one(i):
        spec = {"openapi": "3.1.0", "info": {"title": "t", "version": "1"}, "paths": {},
                "components": {"schemas": {"Root": to_openapi(schemas[i])}}}
        sp = os.path.join(d, f"s{i}.json")
        json.dump(spec, open(sp, "w"))
        outp = os.path.join(d, f"o{i}.rs")
        rc, txt = vlib.oas(["generate", "types", "-i", sp, "-o", outp, "-q", "--all-schemas"])
        return rc, txt, outp
    outs = vlib.pmap(one, range(len(schemas)))
    ar = arena.Arena("C02")
    viol, dis, known_hits = [], [], set()
    for i, (rc, txt, outp) in enumerate(outs):
        if rc != 0:
            viol.append((schemas[i], None, f"generator failed rc={rc} {txt[-200:]}"))
        else:
            ar.add_case(i, outp)

    def body(cs):
        arms = "\n".join(f"            {i} => rt::<case_{i}::Root>(j)," for i in cs)
        return '''
use std::io::BufRead;
fn rt<T: serde::de::DeserializeOwned + serde::Serialize>(j: &str) -> String {
    match serde_json::from_str::<T>(j) { Ok(v) => format!("OK {}", serde_json::to_string(&v).unwrap()), Err(_) => "ERR".to_string() }
}
fn main() {
    for line in std::io::stdin().lock().lines() {
        let line = line.unwrap();
        let (c, j) = line.split_once(' ').unwrap();
        let c: usize = c.parse().unwrap();
        let r = match c {
''' + arms + '''
            _ => "NOCASE".to_string(),
        };
        println!("{}", r);
    }
}
'''
    ok, failed, err = ar.build_bisect(body, sub="build")
    for ci, dg in failed.items():
        viol.append((schemas[ci], None, f"emitted types do not compile: {dg[0]['code']} {dg[0]['message'][:200]}"))
    probes = []   # (case, instance, kind)
    for i in ar.cases:
        s = schemas[i]
        if i == 0 and not replay:
            probes += [(0, {}, "mutant"), (0, {"a": None}, "valid"), (0, {"a": "x", "b": None}, "valid")]
        for _ in range(ninst):
            inst = gen_instance(rnd, s)
            probes.append((i, inst, "valid"))
            probes.append((i, mutate(rnd, s, inst), "mutant"))
    n_ok = 0
    if ok and probes:
        rc, outp, errp = ar.run("\n".join(f"{i} {json.dumps(inst)}" for i, inst, _ in probes) + "\n")
        impl = outp.split("\n")
        model = vlib.run_driver(exe, [f"{to_model_schema(schemas[i])} {to_model_json(inst)}" for i, inst, _ in probes]) if exe else None
        # independent validity verdicts: python jsonschema (tooling venv), one subprocess
        js_in = json.dumps([[to_openapi(schemas[i]), inst] for i, inst, _ in probes])
        pj = subprocess.run(["python3-vt", "-c", "import sys,json,jsonschema\nfrom jsonschema import Draft202012Validator as V\nd=json.load(sys.stdin)\nprint(json.dumps([V(s).is_valid(i) for s,i in d]))"],
                            input=js_in, stdout=subprocess.PIPE, stderr=subprocess.PIPE, text=True, timeout=600)
        jsv = json.loads(pj.stdout) if pj.returncode == 0 and pj.stdout.strip() else None
        res.oblige("independent validator (python jsonschema, Draft 2020-12) available", jsv is not None, pj.stderr[-300:])
        for k, (i, inst, kind) in enumerate(probes):
            got = impl[k] if k < len(impl) else "MISSING"
            s = schemas[i]
            big = _has_big_int(inst)
            if model is not None:
                m = model[k]
                mvalid = m.startswith("valid=true")
                mrest = m.split(" ", 1)[1]
                if mrest.startswith("OK"):
                    mj = from_model_json(mrest.split(" ")[1])
                    expect = ("OK", mj)
                else:
                    expect = ("ERR", None)
                gotp = ("OK", json.loads(got[3:])) if got.startswith("OK ") else ("ERR", None)
                if gotp != expect:
                    dis.append(f"schema {to_model_schema(s)} instance {json.dumps(inst)}: impl {got[:200]} model {mrest[:200]}")
                if jsv is not None and not big and jsv[k] != mvalid:
                    dis.append(f"validity verdicts differ: schema {to_model_schema(s)} instance {json.dumps(inst)}: jsonschema {jsv[k]} model {mvalid}")
            # property oracle on the implementation (search), with the independent validity verdict
            if jsv is not None and not big:
                if jsv[k]:
                    n_ok += 1
                    if not got.startswith("OK "):
                        viol.append((s, inst, f"valid document rejected: {json.dumps(inst)}"))
                    else:
                        back = json.loads(got[3:])
                        pjv = subprocess.run  # re-validated in bulk below
                        if not _wire_eq(s, inst, back):
                            viol.append((s, inst, f"round trip changed a declared member: {json.dumps(inst)} -> {json.dumps(back)}"))
                        _revalidate.append((k, to_openapi(s), back, s, inst))
                elif kind == "mutant" and got.startswith("OK ") and _shape_violation(s, inst):
                    if _only_required_nullable(s, inst):
                        known_hits.add("required-nullable-accepts-missing")
                    else:
                        viol.append((s, inst, f"shape violation accepted (coerced): {json.dumps(inst)} -> {got[:150]}"))
        # re-serialised documents must be valid again
        if _revalidate and jsv is not None:
            pj2 = subprocess.run(["python3-vt", "-c", "import sys,json,jsonschema\nfrom jsonschema import Draft202012Validator as V\nd=json.load(sys.stdin)\nprint(json.dumps([V(s).is_valid(i) for s,i in d]))"],
                                 input=json.dumps([[sc, back] for _, sc, back, _, _ in _revalidate]), stdout=subprocess.PIPE, text=True, timeout=600)
            rv = json.loads(pj2.stdout)
            for okv, (k, sc, back, s, inst) in zip(rv, _revalidate):
                if not okv:
                    if _req_nullable_null(s, inst):
                        known_hits.add("required-nullable-dropped-on-encode")
                    else:
                        viol.append((s, inst, f"re-serialised document is not valid: {json.dumps(inst)} -> {json.dumps(back)}"))
    n_b = part_b(tier, seed, viol, known_hits)
    res.counts.update({"evaluations": len(probes) + n_b, "distinct_nontrivial": n_ok, "schemas": len(schemas), "part_b_probes": n_b,
                       "traces_validated_against_impl": len(probes),
                       "rule": "object schemas of the tier-A fragment (string/integer/boolean, arrays, nested objects; required / optional / nullable members; additionalProperties false) generated at random; per schema N instances from a schema-directed generator (members shuffled, undeclared members, nulls) and N near-miss mutants (missing required, wrong JSON type, unknown member); types emitted by the CLI, compiled in the arena, serde_json from_str/to_string vs the extracted model's dec/enc; validity verdicts cross-checked with python jsonschema Draft 2020-12; non-trivial = instances the independent validator accepts"})
    for s in schemas[:3]:
        res.sample({"schema": to_model_schema(s)})
    res.oblige(f"correspondence: model = implementation (and model validity = jsonschema) on {len(probes)} documents over {len(schemas)} schemas", not dis, dis[0] if dis else "")
    res.cov["trusted_base"] = vlib.COMMON_TRUSTED + [
        "coq/Model/Codec.v: hand model of the emitted types (Option for non-required or nullable members, skip_serializing_none, deny_unknown_fields) and of serde derive semantics — a library contract validated by the arena",
        "python jsonschema (Draft 2020-12) as independent validity oracle; arena serde_json"]
    res.assumptions = ["tier A fragment only: no formats, numbers (f64), enums (C15), unions/discriminators (C14), maps, defaults (C17), $ref indirection (transparent for the codec)",
                       "integers beyond 2^53 are compared exactly (serde_json i64), python ints"]
    kf = {k["key"]: k["text"] for k in vlib.known_findings("C02")}
    for k in sorted(known_hits):
        if k in kf:
            res.known(k, kf[k])
        else:
            viol.append((None, None, f"unlisted failing class {k}"))
    for (s, inst, dsc) in viol[:3]:
        res.violation(dsc, {"schema": s, "instance": inst})
    broken = [o for o in res.obligations if not o[1]]
    if broken and not viol:
        res.violation("proof obligation or correspondence no longer checks: " + "; ".join(o[0] for o in broken),
                      {"broken": [[o[0], o[2]] for o in broken]}, no_input=True)
    return res.finish()


_revalidate = []


def tuple_from(x):
    if x[0] in ("s", "i", "b"):
        return (x[0],)
    if x[0] == "a":
        return ("a", tuple_from(x[1]))
    return ("o", x[1], [(f[0], f[1], f[2], tuple_from(f[3])) for f in x[2]])


def _has_big_int(j):
    if isinstance(j, bool):
        return False
    if isinstance(j, int):
        return abs(j) >= 2**63
    if isinstance(j, list):
        return any(_has_big_int(x) for x in j)
    if isinstance(j, dict):
        return any(_has_big_int(x) for x in j.values())
    return False


def _wire_eq(s, a, b):
    k = s[0]
    if k in "sib":
        return type(a) == type(b) and a == b
    if k == "a":
        return isinstance(a, list) and isinstance(b, list) and len(a) == len(b) and all(_wire_eq(s[1], x, y) for x, y in zip(a, b))
    if not isinstance(a, dict) or not isinstance(b, dict):
        return False
    for nm, r, n, sc in s[2]:
        x, y = a.get(nm), b.get(nm)
        if x is None and y is None:
            continue
        if x is None or y is None or not _wire_eq(sc, x, y):
            return False
    return True


def _shape_violation(s, j):
    """the property's rejection list: missing required member, wrong JSON type, unknown member under additionalProperties:false.
    (null for an optional non-nullable member is *not* in the list: absent/null are interchangeable)"""
    k = s[0]
    if k == "s":
        return not isinstance(j, str)
    if k == "i":
        return isinstance(j, bool) or not isinstance(j, int)
    if k == "b":
        return not isinstance(j, bool)
    if k == "a":
        return not isinstance(j, list) or any(_shape_violation(s[1], x) for x in j)
    if not isinstance(j, dict):
        return True
    names = {f[0] for f in s[2]}
    if s[1] and any(kk not in names for kk in j):
        return True
    for nm, r, n, sc in s[2]:
        if nm not in j:
            if r:
                return True
            continue
        if j[nm] is None:
            if r and not n:
                return True
            continue
        if _shape_violation(sc, j[nm]):
            return True
    return False


def _only_required_nullable(s, j):
    """the accepted violation is exactly a missing member that is required AND nullable (F21)"""
    k = s[0]
    if k == "a":
        return isinstance(j, list) and any(_only_required_nullable(s[1], x) for x in j)
    if k != "o" or not isinstance(j, dict):
        return False
    for nm, r, n, sc in s[2]:
        if nm not in j and r and n:
            return True
        if nm in j and j[nm] is not None and _only_required_nullable(sc, j[nm]):
            return True
    return False


def _req_nullable_null(s, j):
    k = s[0]
    if k == "a":
        return isinstance(j, list) and any(_req_nullable_null(s[1], x) for x in j)
    if k != "o" or not isinstance(j, dict):
        return False
    for nm, r, n, sc in s[2]:
        if r and n and j.get(nm, 0) is None:
            return True
        if nm in j and j[nm] is not None and _req_nullable_null(sc, j[nm]):
            return True
    return False


# ======================================================================================================
# Part B — wider search without the model: allOf chains, $ref, maps, string enums, keyword-like member names.
# Validity is decided by python jsonschema on the OpenAPI document itself (local $ref resolution).
# ======================================================================================================

B_NAMES = ["id", "name", "description", "title", "example", "labels", "kind", "created", "owner", "url", "count", "type"]


def b_prim(rnd):
    return rnd.choice([{"type": "string"}, {"type": "integer"}, {"type": "boolean"}, {"type": "string", "enum": ["a", "b", "c"]},
                       {"type": "array", "items": {"type": "string"}}, {"type": "object", "additionalProperties": {"type": "integer"}},
                       # type SETS: several scalar types, with and without null
                       {"type": ["string", "integer", "null"]}, {"type": ["boolean", "number", "null"]}, {"type": ["string", "integer"]},
                       {"type": "object", "additionalProperties": {"type": ["boolean", "number", "null"]}}, {"type": "array", "items": {"type": ["string", "integer", "null"]}},
                       # arrays / maps whose ELEMENTS are nullable (one type + null)
                       {"type": "array", "items": {"type": ["number", "null"]}}, {"type": "array", "items": {"type": ["string", "null"]}},
                       {"type": "array", "items": {"type": "array", "items": {"type": ["integer", "null"]}}}, {"type": "object", "additionalProperties": {"type": ["string", "null"]}},
                       # open string with known values whose Rust identifiers collide
                       {"anyOf": [{"type": "string"}, {"type": "string", "enum": ["gpt-4", "gpt_4", "GPT-4", "other"]}]},
                       # sets written as arrays: the element order of a document is kept
                       {"type": "array", "uniqueItems": True, "items": {"type": "string"}}, {"type": "array", "uniqueItems": True, "items": {"type": "integer"}},
                       # unions of const values, alone and next to an open variant
                       {"oneOf": [{"const": "up"}, {"const": "down"}]}, {"oneOf": [{"const": "on"}, {"const": "off"}, {"type": "integer"}]},
                       {"anyOf": [{"const": "low", "description": "little"}, {"const": "high"}, {"type": "boolean"}]}])


def b_object(rnd, names, closed_p=0.2, depth=0):
    props, req = {}, []
    for nm in rnd.sample(B_NAMES, rnd.randint(1, 4)):
        r = rnd.random()
        if r < 0.2 and depth < 2:
            props[nm] = b_object(rnd, names, closed_p, depth + 1)
        elif r < 0.35 and names:
            props[nm] = {"$ref": "#/components/schemas/" + rnd.choice(names)}
        else:
            props[nm] = b_prim(rnd)
        if rnd.random() < 0.45:
            req.append(nm)
    o = {"type": "object", "properties": props}
    if req:
        o["required"] = req
    r = rnd.random()
    if r < closed_p:
        o["additionalProperties"] = False
    elif r < closed_p + 0.25:
        o["additionalProperties"] = True          # declared members plus arbitrary extra ones
    return o


def b_components(rnd):
    """a few plain objects, then allOf children with 1-3 parents (chains up to depth 3), names chosen so that
    alphabetical order and inheritance depth disagree"""
    pool = ["Entity", "Resource", "Timestamps", "Account", "Volume", "Base", "Zed", "Alpha", "Mid"]
    names = rnd.sample(pool, rnd.randint(3, 6))
    comps, plain = {}, []
    for i, nm in enumerate(names):
        if i < 2 or rnd.random() < 0.4:
            comps[nm] = b_object(rnd, [], closed_p=0.0)
            plain.append(nm)
        else:
            parents = rnd.sample(list(comps), min(len(comps), rnd.randint(1, 3)))
            own = b_object(rnd, [], closed_p=0.0)
            comps[nm] = {"allOf": [{"$ref": f"#/components/schemas/{p}"} for p in parents] + [own]}
            # `required` that names INHERITED members: in the child's own part, in a part of its own, or next to allOf
            inherited = sorted(set().union(*[set(b_resolve(comps[p], comps)[0]) for p in parents]) - set(own.get("properties", {})))
            if inherited and rnd.random() < 0.6:
                pick = rnd.sample(inherited, min(len(inherited), rnd.randint(1, 2)))
                how = rnd.randrange(3)
                if how == 0:
                    own["required"] = sorted(set(own.get("required", [])) | set(pick))
                elif how == 1:
                    comps[nm]["allOf"].append({"required": pick})
                else:
                    comps[nm]["required"] = pick
    # a root that refers to everything, plus sibling inline objects differing in annotation-like members
    root_props = {nm.lower(): {"$ref": f"#/components/schemas/{nm}"} for nm in names}
    a = b_object(rnd, [], closed_p=0.5)
    b = json.loads(json.dumps(a))
    extra = rnd.choice(["description", "title", "example", "name"])
    if extra in b["properties"]:
        del b["properties"][extra]
        b["required"] = [r for r in b.get("required", []) if r != extra]
    else:
        b["properties"][extra] = {"type": "string"}
    root_props["first"] = a
    root_props["second"] = b
    if rnd.random() < 0.5:
        R_ = lambda t: f"#/components/schemas/{t}"
        comps["Kitty"] = {"type": "object", "required": ["petType"], "properties": {"petType": {"type": "string", "enum": ["cat", "kitten"]}, "lives": {"type": "integer"}}}
        comps["Doggo"] = {"type": "object", "required": ["petType"], "properties": {"petType": {"type": "string", "enum": ["dog", "puppy"]}, "bark": {"type": "boolean"}}}
        comps["Pet"] = {"oneOf": [{"$ref": R_("Kitty")}, {"$ref": R_("Doggo")}],
                        "discriminator": {"propertyName": "petType", "mapping": {"cat": R_("Kitty"), "kitten": R_("Kitty"), "dog": R_("Doggo"), "puppy": R_("Doggo")}}}
        root_props["pet"] = {"$ref": R_("Pet")}
        root_props["pets"] = {"type": "array", "items": {"$ref": R_("Pet")}}
    if rnd.random() < 0.6:
        # two inline unions over the same references, one of them with a further inline variant
        R2 = lambda t: {"$ref": f"#/components/schemas/{t}"}
        comps["Meow"] = {"type": "object", "required": ["meow"], "properties": {"meow": {"type": "integer"}}, "additionalProperties": False}
        comps["Woof"] = {"type": "object", "required": ["woof"], "properties": {"woof": {"type": "integer"}}, "additionalProperties": False}
        first, second = ("buddy", "guest") if rnd.random() < 0.5 else ("guest", "buddy")
        # (no array variant: a sequence would be read positionally into the first struct, the recorded struct-accepts-array class)
        extra = rnd.choice([{"type": "string"}, {"type": "boolean"}])
        root_props[first] = {"oneOf": [R2("Meow"), R2("Woof")]}
        root_props[second] = {"oneOf": [R2("Meow"), R2("Woof"), extra]}
    comps["Root"] = {"type": "object", "properties": root_props}
    return comps


def b_resolve(s, comps, seen=()):
    """flattened view: (properties, required, additional) of an object-like schema"""
    if "$ref" in s:
        nm = s["$ref"].split("/")[-1]
        if nm in seen:
            return {}, set(), None
        return b_resolve(comps[nm], comps, seen + (nm,))
    props, req, addl = {}, set(), None
    for part in s.get("allOf", []):
        p, r, a = b_resolve(part, comps, seen)
        props.update(p)
        req |= r
        addl = a if a is not None else addl
    props.update(s.get("properties", {}))
    req |= set(s.get("required", []))
    if "additionalProperties" in s:
        addl = s["additionalProperties"]
    return props, req, addl


def b_union(s, comps):
    """(variants, discriminator) if s (through $ref) is a oneOf/anyOf union"""
    seen = 0
    while isinstance(s, dict) and "$ref" in s and seen < 10:
        s = comps.get(s["$ref"].split("/")[-1], {})
        seen += 1
    if isinstance(s, dict) and (s.get("oneOf") or s.get("anyOf")):
        return (s.get("oneOf") or s.get("anyOf")), s.get("discriminator")
    return None


def b_instance(rnd, s, comps, depth=0):
    u = b_union(s, comps)
    if u:
        vs, disc = u
        v = rnd.choice(vs)
        inst = b_instance(rnd, v, comps, depth + 1)
        if disc and disc.get("mapping") and isinstance(inst, dict) and "$ref" in v:
            keys = [k for k, r in disc["mapping"].items() if r == v["$ref"]]
            if keys:
                inst[disc["propertyName"]] = rnd.choice(keys)
        return inst
    if "$ref" in s or "allOf" in s or s.get("type") == "object":
        if s.get("type") == "object" and "properties" not in s and "allOf" not in s:
            ap = s.get("additionalProperties")
            return {k: b_instance(rnd, ap, comps, depth + 1) for k in rnd.sample(["k1", "k2", "k3"], rnd.randint(0, 2))} if isinstance(ap, dict) else {}
        props, req, addl = b_resolve(s, comps)
        o = {}
        for nm, ps in props.items():
            if nm in req or (rnd.random() < 0.6 and depth < 4):
                o[nm] = b_instance(rnd, ps, comps, depth + 1)
        if addl is True and rnd.random() < 0.7:
            o["zx_trace"] = rnd.choice(["abc", ""])
            o["zx_attempt"] = rnd.choice([3, 0])
        return o
    t = s.get("type")
    if "const" in s:
        return s["const"]
    if "enum" in s:
        return rnd.choice(s["enum"])
    if "anyOf" in s and all(v.get("type") == "string" for v in s["anyOf"]):
        vals = [x for v in s["anyOf"] for x in v.get("enum", [])]
        return rnd.choice(vals + ["free text"])
    if isinstance(t, list):
        t = rnd.choice(t)
        if t == "null":
            return None
        if t == "number":
            return rnd.choice([0.25, 2, -1.5])
    if t == "string":
        return rnd.choice(["x", "", "hello"])
    if t == "integer":
        return rnd.choice([0, 7, -3])
    if t == "boolean":
        return rnd.choice([True, False])
    if t == "array" and s.get("uniqueItems"):
        pool = ["zeta", "alpha", "mid", "Beta", ""] if s["items"].get("type") == "string" else [30, 10, 20, -5, 0]
        return rnd.sample(pool, rnd.randint(0, 4))
    if t == "array":
        return [b_instance(rnd, s["items"], comps, depth + 1) for _ in range(rnd.randint(0, 2))]
    return None


def b_mutants(rnd, s, comps, inst):
    """shape violations located in declared members of the (flattened) object"""
    out = []
    props, req, addl = b_resolve(s, comps)
    for nm in req:
        if nm in inst:
            c = dict(inst)
            del c[nm]
            out.append((c, f"missing required member {nm}"))
    for nm, ps in props.items():
        if nm in inst:
            pt = ps.get("type") if "$ref" not in ps and "allOf" not in ps else "object"
            wrong = {"string": 5, "integer": "five", "boolean": "yes", "array": {"a": 1}, "object": [1]}.get(pt) if isinstance(pt, str) else None
            if wrong is not None:
                c = dict(inst)
                c[nm] = wrong
                out.append((c, f"member {nm} has the wrong JSON type"))
            if "enum" in ps:
                c = dict(inst)
                c[nm] = "not-declared"
                out.append((c, f"member {nm} has an undeclared enum value"))
    if addl is False:
        c = dict(inst)
        c["zz_unknown"] = 1
        out.append((c, "unknown member under additionalProperties:false"))
    rnd.shuffle(out)
    return out[:4]


def b_norm(x):
    if isinstance(x, dict):
        return {k: b_norm(v) for k, v in x.items() if v is not None}
    if isinstance(x, list):
        return [b_norm(v) for v in x]
    return x


def b_project(s, comps, x):
    """keep declared members only (undeclared ones are legitimately dropped by the generated structs)"""
    u = b_union(s, comps)
    if u and isinstance(x, dict):
        vs, disc = u
        if disc and disc.get("mapping") and x.get(disc["propertyName"]) in disc["mapping"]:
            return b_project({"$ref": disc["mapping"][x[disc["propertyName"]]]}, comps, x)
        return x
    if isinstance(x, dict) and ("$ref" in s or "allOf" in s or "properties" in s):
        props, req, addl = b_resolve(s, comps)
        out = {k: b_project(props[k], comps, v) for k, v in x.items() if k in props and v is not None}
        if addl is True or isinstance(addl, dict):
            # additionalProperties: true (or a schema) keeps the undeclared members
            out.update({k: (b_project(addl, comps, v) if isinstance(addl, dict) else v) for k, v in x.items() if k not in props and v is not None})
        return out
    if isinstance(x, dict):
        ap = s.get("additionalProperties")
        return {k: (b_project(ap, comps, v) if isinstance(ap, dict) else v) for k, v in x.items()}
    if isinstance(x, list) and "items" in s:
        return [b_project(s["items"], comps, v) for v in x]
    return x


def part_b(tier, seed, viol, known_hits):
    rnd = random.Random(seed + 17)
    n = 25 if tier == "quick" else 200
    d = vlib.scratch("C02b")
    specs = [b_components(rnd) for _ in range(n)]
    # deterministic witness of the recorded finding struct-accepts-array
    specs[0] = {"Zed": {"type": "object", "properties": {"n": {"type": "integer"}, "s": {"type": "string"}}},
                "Root": {"type": "object", "required": ["zed"], "properties": {"zed": {"$ref": "#/components/schemas/Zed"}}}}

    def one(i):
        spec = {"openapi": "3.1.0", "info": {"title": "t", "version": "1"}, "paths": {}, "components": {"schemas": specs[i]}}
        sp = os.path.join(d, f"s{i}.json")
        json.dump(spec, open(sp, "w"))
        outp = os.path.join(d, f"o{i}.rs")
        rc, txt = vlib.oas(["generate", "types", "-i", sp, "-o", outp, "-q", "--all-schemas"])
        return rc, txt, outp
    outs = vlib.pmap(one, range(n))
    dumps = vlib.vtool_lines("dump", [o[2] for o in outs])
    ar = arena.Arena("C02b")
    targets = {}
    for i, ((rc, txt, outp), dump) in enumerate(zip(outs, dumps)):
        if rc != 0 or "error" in dump:
            viol.append((specs[i], None, f"generator failed on an allOf/ref spec rc={rc} {txt[-200:]}"))
            continue
        structs = {x["name"] for x in dump["items"] if x["kind"] == "struct"}
        names = [nm for nm in specs[i] if nm in structs]
        if names:
            ar.add_case(i, outp)
            targets[i] = names

    def body(cs):
        arms = "\n".join(f'            ({i}, "{nm}") => rt::<case_{i}::{nm}>(j),' for i in cs for nm in targets[i])
        return """
use std::io::BufRead;
fn rt<T: serde::de::DeserializeOwned + serde::Serialize>(j: &str) -> String {
    match serde_json::from_str::<T>(j) { Ok(v) => format!("OK {}", serde_json::to_string(&v).unwrap()), Err(_) => "ERR".to_string() }
}
fn main() {
    for line in std::io::stdin().lock().lines() {
        let line = line.unwrap();
        let mut it = line.splitn(3, ' ');
        let c: usize = it.next().unwrap().parse().unwrap();
        let t = it.next().unwrap();
        let j = it.next().unwrap_or("");
        let r = match (c, t) {
""" + arms + """
            _ => "NOCASE".to_string(),
        };
        println!("{}", r);
    }
}
"""
    ok, failed, err = ar.build_bisect(body, sub="build")
    for ci, dg in failed.items():
        viol.append((specs[ci], None, f"emitted types do not compile (allOf/ref spec): {dg[0]['code']} {dg[0]['message'][:160]}"))
    probes = []
    for i in ar.cases:
        comps = specs[i]
        for nm in targets[i]:
            s = {"$ref": f"#/components/schemas/{nm}"}
            for _ in range(4 if tier == "quick" else 10):
                inst = b_instance(rnd, s, comps)
                probes.append((i, nm, inst, "valid", ""))
                for m, why in b_mutants(rnd, s, comps, inst):
                    probes.append((i, nm, m, "mutant", why))
    if not (ok and probes):
        return 0
    rc, outp, errp = ar.run("\n".join(f"{i} {nm} {json.dumps(inst)}" for i, nm, inst, _, _ in probes) + "\n")
    impl = outp.split("\n")
    docs = [[{"$ref": f"#/components/schemas/{nm}", "components": {"schemas": specs[i]}}, inst] for i, nm, inst, _, _ in probes]
    pj = subprocess.run(["python3-vt", "-c", "import sys,json\nfrom jsonschema import Draft202012Validator as V\nd=json.load(sys.stdin)\nprint(json.dumps([V(s).is_valid(i) for s,i in d]))"],
                        input=json.dumps(docs), stdout=subprocess.PIPE, stderr=subprocess.PIPE, text=True, timeout=900)
    if pj.returncode != 0:
        viol.append((None, None, "jsonschema oracle failed: " + pj.stderr[-300:]))
        return 0
    jsv = json.loads(pj.stdout)
    for k, (i, nm, inst, kind, why) in enumerate(probes):
        got = impl[k] if k < len(impl) else "MISSING"
        s = {"$ref": f"#/components/schemas/{nm}"}
        if jsv[k]:
            if not got.startswith("OK "):
                viol.append((specs[i], inst, f"{nm}: valid document rejected: {json.dumps(inst)[:300]}"))
            else:
                back = json.loads(got[3:])
                a, b = b_norm(b_project(s, specs[i], inst)), b_norm(b_project(s, specs[i], back))
                if a != b:
                    lost = [kk for kk in a if kk not in b] if isinstance(a, dict) and isinstance(b, dict) else []
                    viol.append((specs[i], inst, f"{nm}: round trip changed declared members (lost {lost}): {json.dumps(inst)[:200]} -> {json.dumps(back)[:200]}"))
        elif kind == "mutant" and got.startswith("OK "):
            if why.endswith("wrong JSON type") and any(isinstance(v, list) and v == [1] for v in inst.values()):
                known_hits.add("struct-accepts-array")
            else:
                viol.append((specs[i], inst, f"{nm}: shape violation accepted ({why}): {json.dumps(inst)[:300]}"))
    return len(probes)
