"""C11 — generation is deterministic and independent of how the spec is written down."""
import glob, json, os, random, re, subprocess
import yaml
import vlib, specgen, inv
from vlib import Result, log

THEOREMS = ["C11_btree_perm", "C11_btree_sorted", "C11_marking_order_irrelevant", "C11_canonical_member_order", "C11_canonical_order_deep", "C11_canonical_deep_nonvacuous", "C11_canonical_nonvacuous", "C11_nonvacuous"]
TARGETS = ["Props/C11.v"]
MODES = ["types", "client", "client-mod", "server-mod"]
# environments the output must not depend on
SHIM = os.path.join(vlib.ROOT if hasattr(vlib, "ROOT") else os.path.dirname(os.path.dirname(os.path.abspath(__file__))), ".cache", "clock_shim.so")


def build_shim():
    """the wall-clock shim (tools/clock_shim): built with the system C compiler, returns an error text or None"""
    src = os.path.join(os.path.dirname(os.path.dirname(os.path.abspath(__file__))), "tools", "clock_shim", "clock_shim.c")
    os.makedirs(os.path.dirname(SHIM), exist_ok=True)
    if os.path.exists(SHIM) and os.path.getmtime(SHIM) >= os.path.getmtime(src):
        return None
    p = subprocess.run(["cc", "-shared", "-fPIC", "-O1", "-o", SHIM, src, "-ldl"], stdout=subprocess.PIPE, stderr=subprocess.STDOUT, text=True)
    return None if p.returncode == 0 else p.stdout[-300:]


ENVS = [{"TZ": "Asia/Tokyo"}, {"TZ": "America/New_York"}, {"TZ": "UTC", "LANG": "de_DE.UTF-8", "LC_ALL": "de_DE.UTF-8"}, {"TZ": "JST-9", "COLUMNS": "40", "NO_COLOR": "1"},
        {"TZ": "EST5", "HOME": "/nonexistent", "USER": "someone", "TERM": "dumb"},
        # the wall clock moved by +400 days / -30 years (LD_PRELOAD shim)
        {"LD_PRELOAD": SHIM, "VERIF_CLOCK_OFFSET": str(400 * 86400)}, {"LD_PRELOAD": SHIM, "VERIF_CLOCK_OFFSET": str(-30 * 365 * 86400), "TZ": "Pacific/Kiritimati"}]


def shuffle_keys(x, rnd):
    if isinstance(x, dict):
        items = [(k, shuffle_keys(v, rnd)) for k, v in x.items()]
        rnd.shuffle(items)
        return dict(items)
    if isinstance(x, list):
        return [shuffle_keys(v, rnd) for v in x]
    return x


def reverse_keys(x):
    if isinstance(x, dict):
        return {k: reverse_keys(x[k]) for k in sorted(x, reverse=True)}
    if isinstance(x, list):
        return [reverse_keys(v) for v in x]
    return x


def read_outputs(path):
    files = {}
    if os.path.isdir(path):
        for f in sorted(os.listdir(path)):
            files[f] = open(os.path.join(path, f), "rb").read()
    elif os.path.exists(path):
        files["out.rs"] = open(path, "rb").read()
    # mask the recorded source path line
    return {k: re.sub(rb"(?m)^//! Source: .*$", b"//! Source: <masked>", v) for k, v in files.items()}


def freeform_spec():
    """free-form JSON values (objects in example / default / const / enum / x-* extensions) at every position that
    carries one, equal inline schemas whose free-form values are written in different key orders, and paths with
    several undeclared template variables"""
    pg = lambda d: {"type": "object", "properties": {"limit": {"type": "integer"}, "offset": {"type": "integer"}}, "default": d, "x-ui": {"b": [1, {"z": 1, "a": 2}], "a": "x"}}
    schemas = {
        "Product": {"type": "object", "x-meta": {"zeta": 1, "alpha": {"k2": 2, "k1": 1}}, "properties": {
            "paging": pg({"limit": 20, "offset": 0}),
            "attrs": {"type": "object", "additionalProperties": {"type": "integer"}, "example": {"b": 1, "a": 2, "c": {"y": 1, "x": 2}}},
            "conf": {"type": "object", "default": {"retries": 3, "backoff": {"max": 10, "base": 2}}, "additionalProperties": True},
            "fixed": {"const": {"z": 1, "a": 2}},
            "choice": {"enum": [{"k": 1, "j": 2}, {"b": "x", "a": "y"}, "plain"]},
            "tags": {"type": "array", "items": {"type": "string"}, "example": ["b", "a"], "default": ["z", "y"]},
            "seen": {"type": "string", "format": "date-time", "example": "2024-03-15T09:30:00", "default": "2024-03-15T09:30:00"},
            "seen_z": {"type": "string", "format": "date-time", "example": "2024-03-15T09:30:00Z"},
            "day": {"type": "string", "format": "date", "example": "2024-03-15", "default": "2024-03-15"},
            "at": {"type": "string", "format": "time", "example": "09:30:00"}}},
        "Order": {"type": "object", "properties": {
            "paging": pg({"offset": 0, "limit": 20}),
            "attrs": {"type": "object", "additionalProperties": {"type": "integer"}, "examples": [{"q": 1, "p": 2}]},
            "lines": {"type": "array", "items": {"type": "object", "additionalProperties": True}, "example": [{"sku": "s", "qty": 1, "price": {"minor": 5, "currency": "EUR"}}, [{"b": 1, "a": [{"d": 1, "c": 2}]}]],
                      "default": [{"z": 1, "y": [{"n": 1, "m": 2}]}]}}},
    }
    paths = {
        "/multi": {"get": {"operationId": "multi_media", "responses": {
            "200": {"description": "ok", "content": {"application/json": {"schema": {"$ref": "#/components/schemas/Product"}}, "application/xml": {"schema": {"$ref": "#/components/schemas/Order"}},
                                                     "text/plain": {"schema": {"type": "string"}}, "application/problem+json": {"schema": {"type": "object", "properties": {"t": {"type": "string"}}}}}},
            "4XX": {"description": "err", "content": {"application/json": {"schema": {"$ref": "#/components/schemas/Order"}}, "text/html": {"schema": {"type": "string"}},
                                                      "application/xml": {"schema": {"$ref": "#/components/schemas/Product"}}}}}}},
        "/a/{x}/{y}/{z}": {"get": {"operationId": "three_vars", "responses": {"200": {"description": "ok", "content": {"application/json": {"schema": {"$ref": "#/components/schemas/Product"}, "example": {"z": 1, "a": 2}}}}}}},
        "/b/{one}/c/{two}/{three}/{four}": {"get": {"operationId": "four_vars", "responses": {"200": {"description": "ok", "content": {"application/json": {"schema": {"$ref": "#/components/schemas/Order"}}}}}},
                                            "delete": {"operationId": "four_vars_del", "parameters": [{"name": "f", "in": "query", "schema": {"type": "object", "additionalProperties": {"type": "string"}}, "example": {"m": "1", "l": "2"}}],
                                                       "responses": {"204": {"description": "gone"}}}},
    }
    return {"openapi": "3.1.0", "info": {"title": "free", "version": "1", "x-info": {"b": 1, "a": 2}}, "paths": paths, "components": {"schemas": schemas}}


def main(tier, seed, replay=None):
    res = Result("C11", tier, seed)
    vlib.build_repo()
    coq_ok, out = vlib.standard_coq_obligations(res, TARGETS, THEOREMS, expect_closed=5)
    cur = inv.current()
    ok, detail, n, gone = inv.compare("hash", cur)
    res.oblige(f"inventory: every iteration over a HashMap/HashSet in non-test source ({n} sites) is in the reviewed list with its order-irrelevance argument", ok, detail)
    rnd = random.Random(seed)
    d = vlib.scratch("C11")
    corpus = []
    fixtures = sorted(glob.glob(os.path.join(vlib.REPO, "crates/oas3-gen/fixtures/*.json")))
    if tier == "quick":
        fixtures = [f for f in fixtures if os.path.getsize(f) < 400_000]
    for f in fixtures:
        try:
            corpus.append((os.path.basename(f), json.load(open(f))))
        except Exception:
            pass
    for i in range(12 if tier == "quick" else 80):
        s, _ = specgen.gen_spec(seed * 100 + i)
        corpus.append((f"gen{i}", s))
    corpus.append(("freeform", freeform_spec()))
    bt = freeform_spec()
    bt["info"]["title"] = ""                      # a blank title (the header has nothing else to say about the document)
    bt["info"]["description"] = "rocket \U0001F680 and -0 stay what they are"
    corpus.append(("blanktitle", bt))
    if replay:
        r = json.load(open(replay))
        corpus = [("replay", r["spec"])]
    shim_err = build_shim()
    res.oblige("harness: the wall-clock shim (tools/clock_shim) builds with the system C compiler", shim_err is None, shim_err or "")
    jobs = []
    for name, spec in corpus:
        variants = [("base", json.dumps(spec), "json"), ("rerun", json.dumps(spec), "json"),
                    ("perm1", json.dumps(shuffle_keys(spec, rnd)), "json"), ("perm2", json.dumps(shuffle_keys(spec, rnd), indent=3), "json"),
                    ("yaml", yaml.safe_dump(shuffle_keys(spec, rnd), sort_keys=False, allow_unicode=True), "yaml"),
                    ("yml", yaml.safe_dump(spec, sort_keys=True, allow_unicode=True), "yml"),
                    ("sorted", json.dumps(spec, sort_keys=True), "json"), ("reversed", json.dumps(reverse_keys(spec), indent=1), "json")]
        if name in ("freeform", "blanktitle", "replay"):
            variants += [(f"rerun{k}", json.dumps(spec), "json") for k in range(2, 7)]
            variants += [(f"env{k}", json.dumps(spec), "json") for k in range(len(ENVS))]
            # the output location already holds (longer) files from an earlier run
            variants += [("dirty", json.dumps(spec), "json")]
            # the same bytes under another file name; the same document with insignificant white space around it
            variants += [("renamed", json.dumps(spec), "json"), ("padded", "\n  \t" + json.dumps(spec, indent=2) + "\n\n", "json")]
        for mode in MODES:
            for vname, text, ext in variants:
                jobs.append((name, mode, vname, text, ext))

    def one(j):
        name, mode, vname, text, ext = j
        base = os.path.join(d, f"{name}_{mode}_{vname}")
        os.makedirs(base, exist_ok=True)
        sp = os.path.join(base, f"spec.{ext}" if vname != "renamed" else f"inventory-v2.{ext}")
        open(sp, "w").write(text)
        outp = os.path.join(base, "out" if mode.endswith("-mod") else "out.rs")
        env = None
        if vname == "dirty":
            junk = "// left over from an earlier, larger run\n" * 20000
            if mode.endswith("-mod"):
                os.makedirs(outp, exist_ok=True)
                for fn in ("mod.rs", "types.rs", "client.rs" if mode.startswith("client") else "server.rs"):
                    open(os.path.join(outp, fn), "w").write(junk)
            else:
                open(outp, "w").write(junk)
        if vname.startswith("env"):
            env = dict(vlib.ENV, **ENVS[int(vname[3:])])
        rc, txt = vlib.oas(["generate", mode, "-i", sp, "-o", outp, "-q"], timeout=120, env=env) if env else vlib.oas(["generate", mode, "-i", sp, "-o", outp, "-q"], timeout=120)
        return rc, read_outputs(outp), txt[-300:]
    results = vlib.pmap(one, jobs)
    viol = []
    n_cmp = 0
    by = {}
    for j, r in zip(jobs, results):
        by[(j[0], j[1], j[2])] = r
    for name, spec in corpus:
        for mode in MODES:
            rc0, base, t0 = by[(name, mode, "base")]
            for v in ["rerun", "perm1", "perm2", "yaml", "yml", "sorted", "reversed"] + ([f"rerun{k}" for k in range(2, 7)] + [f"env{k}" for k in range(len(ENVS))] + ["dirty", "renamed", "padded"] if name in ("freeform", "blanktitle", "replay") else []):
                rc, outs, t = by[(name, mode, v)]
                n_cmp += 1
                if rc != rc0:
                    viol.append((name, spec, f"{name} {mode}: exit status {rc0} for the original, {rc} for variant {v}: {t}"))
                elif outs != base:
                    diff = [k for k in set(outs) | set(base) if outs.get(k) != base.get(k)]
                    first = ""
                    for k in diff[:1]:
                        a, b = base.get(k, b"").split(b"\n"), outs.get(k, b"").split(b"\n")
                        for x, y in zip(a, b):
                            if x != y:
                                first = f"{x[:120]!r} vs {y[:120]!r}"
                                break
                    viol.append((name, spec, f"{name} {mode}: output differs for variant {v} in {diff}: {first}"))
    res.counts.update({"evaluations": len(jobs), "distinct_nontrivial": len(corpus) * len(MODES), "comparisons": n_cmp,
                       "traces_validated_against_impl": len(jobs),
                       "rule": "corpus = shipped fixtures + feature-grammar specs; for each spec x 4 modes: two separate processes on the same file (fresh hash seeds), two random key-order permutations at every object level (different whitespace), keys sorted, keys reverse-sorted, and YAML re-encodings (.yaml with permuted keys, .yml with sorted keys); a hand-made spec with free-form JSON values (example/default/const/enum/x-*) in differing key orders and paths with several undeclared template variables gets six extra reruns and runs under different TZ / locale / terminal environments, two with the wall clock moved by +400 days / -30 years (LD_PRELOAD shim), and a run into an output location that already holds longer files; outputs compared byte-for-byte with only the `//! Source:` line masked"})
    for name, _ in corpus[:4]:
        res.sample({"spec": name, "modes": MODES, "variants": ["rerun", "perm1", "perm2", "yaml", "yml", "sorted", "reversed"]})
    res.cov["trusted_base"] = vlib.COMMON_TRUSTED + ["tools/vtool inventory (syntactic: bindings/fields/adaptors of HashMap/HashSet type that are iterated)", "python json/yaml re-serialisation of the same document"]
    res.assumptions = ["PARTIAL: clock, environment, terminal width and real hash seeds are not modelled; covered only by the repeated-process runs",
                       "the theorem is about the parse step (BTreeMap) and the inventoried hash consumers; that every other generator step is a function of the parsed document is Rust's semantics"]
    for (name, spec, dsc) in viol[:3]:
        res.violation(dsc, {"spec_name": name, "spec": spec})
    broken = [o for o in res.obligations if not o[1]]
    if broken and not viol:
        res.violation("proof obligation or inventory no longer checks: " + "; ".join(o[0] for o in broken),
                      {"broken": [[o[0], o[2]] for o in broken]}, no_input=True)
    return res.finish()
